#!/bin/bash
# Build the overlay interpreter the checks run under: /venv's Python 3.12 (the one the
# repository's suite runs under, with multidict) + z3-solver/jsonschema from the offline
# wheelhouse.  Idempotent; nothing is fetched.
set -e
cd "$(dirname "$0")"
VENV=.venv
if [ ! -x "$VENV/bin/python" ] || ! "$VENV/bin/python" -c "import z3, jsonschema, pvl" >/dev/null 2>&1; then
  (
    flock 9
    if [ ! -x "$VENV/bin/python" ] || ! "$VENV/bin/python" -c "import z3, jsonschema, pvl" >/dev/null 2>&1; then
      rm -rf "$VENV"
      /venv/bin/python -m venv "$VENV"
      PIP_NO_INDEX=1 "$VENV/bin/pip" install -q --no-index --find-links /opt/veriftools/wheels z3-solver jsonschema >/dev/null
      echo "import site; site.addsitedir('/venv/lib/python3.12/site-packages')" \
        > "$VENV/lib/python3.12/site-packages/_overlay.pth"
    fi
  ) 9>.venv.lock
fi
mkdir -p evidence replay
for t in /usr/bin/z3 /usr/bin/cvc5; do [ -x "$t" ] || { echo "missing $t" >&2; exit 3; }; done
"$VENV/bin/python" -c "import z3, pvl; assert pvl.__file__.startswith('/repo/'), pvl.__file__"
