#!/bin/bash
# run every registered check (tier from $1, default quick), validate evidence files
cd "$(dirname "$0")/.."
TIER=${1:-quick}
for p in $(python3 -c "import json; print(' '.join(c['property_id'] for c in json.load(open('MANIFEST.json'))['checks']))"); do
  s=$(date +%s)
  ./check $p --tier $TIER > /tmp/run_$p.txt 2>&1; rc=$?
  echo "$p rc=$rc $(( $(date +%s) - s ))s $(tail -1 /tmp/run_$p.txt | cut -c1-150)"
done
.venv/bin/python - <<'PY'
import json, jsonschema, glob
sch = json.load(open('/root/.vp/EVIDENCE.schema.json'))
for f in sorted(glob.glob('evidence/*.json')):
    try:
        jsonschema.validate(json.load(open(f)), sch)
    except Exception as e:
        print('INVALID', f, str(e)[:200])
print('evidence validated')
PY
