#!/bin/bash
# tools/refactor_all.sh [-j N]: false-alarm evaluation over refactors/<id>/patch.diff (behaviour-preserving refactorings written by
# independent sub-agents, one module per author w1..w6): every relevant check must exit 0 on the refactored tree.
J=3
if [ "$1" = "-j" ]; then J=$2; shift 2; fi
cd "$(dirname "$0")/.."
declare -A PIDS
PIDS[w1]="C03 C04 C05 C06 C09 C15"
PIDS[w2]="C01 C02 C07 C12 C13 C14 C16 C17"
PIDS[w3]="C03 C06 C14 C17 C18 C04"
PIDS[w4]="C05 C06 C08 C09 C16 C18"
PIDS[w5]="C10 C11 C13 C19"
PIDS[w6]="C09 C15 C20 C06 C12 C03 C19 C17 C04"
for d in refactors/*; do id=$(basename $d); w=${id%%-*}; echo "$d $id ${PIDS[$w]}"; done | \
  xargs -P $J -L 1 bash -c 'tools/refactor_eval.sh $0 $1 ${@:2} | tee $0/result.txt'
