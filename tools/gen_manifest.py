#!/usr/bin/env python3
"""Writes MANIFEST.json from the table below (kept in one place so it stays consistent)."""
import json
import os

ROOT = os.path.dirname(os.path.dirname(os.path.abspath(__file__)))

CHECKS = {}
NA = {}


def check(pid, category, text, note, technique, design_ref):
    CHECKS[pid] = dict(
        property_id=pid,
        quick_cmd=f"./check {pid} --tier quick",
        thorough_cmd=f"./check {pid} --tier thorough",
        evidence_file=f"evidence/{pid}.json",
        replay_cmd_template=f"./check {pid} --replay {{path}}",
        engine="pyvc",
        level_claimed=dict(category=category, text=text, design_ref=design_ref),
        level_note=note,
        technique=technique,
    )


check("C10", "proof",
      "Every public operation and observer of OrderedMultiDict and of the three view classes (47 functions incl. the "
      "standard-library mix-in bodies bound into the class) is verified against a contract over the abstract list of "
      "pairs: representation invariant + whole-view postconditions, one SMT query per path and clause generated from "
      "the real AST on every run; ground MRO obligations tie the four container classes to those functions. Induction "
      "over histories then gives the property for histories of any length. A bounded history enumeration on the real "
      "classes runs alongside as engine cross-check and replay source and is not counted as proof.",
      "Trusted: the pyvc encoding of the Python subset, z3 unsat answers, sequence-theory axioms (Lean-checked in the "
      "thorough tier), assumed contract of _insert_arg_helper (bounded-checked), key/value equality is an equivalence; "
      "update/extend with a plain dict argument are bounded only.",
      "contract-based deductive verification: AST->SMT VC generation (pyvc T_seq) discharged by z3; bounded histories as labelled stand-in",
      "DESIGN.md §3 C10")

check("C15", "proof",
      "The three character tables are verified over the whole code-point domain as integer VCs generated from the real "
      "AST (postconditions written from the property statement), the same postconditions are evaluated natively on all "
      "1,114,112 code points (complete by exhaustion), LexerError position arithmetic and the lexer's "
      "reject-before-use loop obligation are discharged, and a bounded position sweep confirms enforcement end to end.",
      "Trusted: pyvc encoding, z3, assumed builtin chr(o).encode('ascii') raises iff o >= 128 (validated over all code "
      "points every run); lexer/parser composition beyond the loop obligation is bounded (positions x grammars).",
      "contract-based deductive verification (pyvc T_int/T_str VCs + exhaustive native table check); bounded position sweep",
      "DESIGN.md §3 C15")


check("C16", "proof",
      "Initialisation and frame obligations, one per store site, generated from the real ASTs of every class in "
      "parser/decoder/encoder/grammar/token on every run: configuration fields are written only by constructors, the "
      "per-call fields doc/errors are assigned in parse() before anything reads them (followed through super().parse), "
      "nothing stores to globals, class attributes or the shared default-argument objects of the lexer, and the returned "
      "module carries a fresh errors list. Hence each call's module, errors attribute and exception are a function of the "
      "constructor arguments and the text alone. A bounded reuse-vs-fresh differential runs alongside (not proof).",
      "Trusted: the frame back end's syntactic store enumeration (dynamic setattr/__dict__ fail closed); state inside C "
      "extensions (re/strptime caches, warnings registry) is out of model.",
      "contract-based verification: initialisation/frame obligations discharged by a syntactic data-flow checker over the real AST; bounded reuse differential as labelled stand-in",
      "DESIGN.md §3 C16")


check("C13", "proof",
      "A `modifies nothing` frame obligation for every store / in-place mutator call site in every method of the four encoder "
      "classes, generated from the real AST on every run and discharged by the frame back end, with exactly one permitted site - "
      "the documented PDS3 GROUP->OBJECT conversion `module[k] = self.objcls(v)` - whose effect on the caller's container is the "
      "proved C10 contract of __setitem__; that contract drops a later item with the same name, which is the recorded finding "
      "KF-C13-dupkey (carve-out, still replayed every run). Determinism obligations (no time/random/environment reads) give "
      "repeatability. A bounded snapshot-before/after driver runs alongside (not proof).",
      "Trusted: the frame back end's conservative points-to classification; set iteration order is fixed within a process; "
      "quantity-class attribute getters are pure; C10's proof for the effect of the one permitted store.",
      "contract-based verification: frame (modifies) obligations per store site over the real AST + C10 callee contract for the permitted mutation; bounded snapshot driver as stand-in",
      "DESIGN.md §3 C13")

check("C11", "other",
      "Mixed: `.copy()` and the constructor chain are verified with the T_seq engine (fresh object of the same class, equal list, "
      "original unchanged; ownership obligations keep the private lists from escaping), and obligation R1 pins down on the real "
      "class what __reduce__ hands to CPython's copy/pickle machinery (class, a fresh list of the pairs, the remaining instance "
      "attributes). The step from R1 to copy.copy / copy.deepcopy / pickle results is the *assumed* contract of that machinery "
      "(C code, outside the verifier's reach) and is decided only by the bounded driver: containers up to 4 items, depth 2, "
      "4 classes, 4 mechanisms incl. every pickle protocol, all mutation sequences <= 2 on either side.",
      "Trusted: pyvc/z3/sequence axioms as in C10; the copy/pickle reduction protocol (assumed, bounded-checked).",
      "contract-based deductive verification of .copy() and the reduction contract (pyvc T_seq + ground obligations); copy/pickle protocol assumed and bounded-checked",
      "DESIGN.md §3 C11")

check("C12", "exploration",
      "Whole-text conformance depends on where textwrap.wrap breaks lines, which no contract within reach expresses; it is "
      "decided by a bounded run of an independent line-level conformance reader (hard-coded character sets, keyword families, "
      "line ends, indentation, alignment, end statements) over an exhaustive small universe of modules x 4 encoders x option "
      "grids plus seeded random modules. The deductive part is limited to ground obligations fixing the dialect constants and "
      "the non-overridable PDS3 line end/delimiter; it is reported separately and not counted as deciding the property.",
      "Bounded: module universe and option grid as recorded in the evidence. Seven recorded findings (known_findings.json) are "
      "carved out by key and replayed every run.",
      "bounded conformance reader as labelled stand-in (no contract expresses textwrap's line breaking); ground obligations on dialect constants",
      "DESIGN.md §3 C12")


def main():
    props = [json.loads(l) for l in open(os.path.join(ROOT, "properties.jsonl"))]
    na = []
    for p in props:
        if p["id"] not in CHECKS:
            na.append(dict(property_id=p["id"], reason=NA.get(p["id"], "check not built yet in this round (see DESIGN.md §3 for the plan)")))
    m = dict(
        version=1,
        setup_cmd="./setup.sh",
        hooks=dict(guard="PVL_VERIF", enable="no hooks in /repo: the checks read /repo's sources with ast and import pvl from the working tree",
                   baseline_off_cmd="cd /repo && /venv/bin/python -m pytest -ra -q -p no:cacheprovider --timeout=900 --continue-on-collection-errors",
                   source_commits=[], add_only=True),
        engines=[dict(name="pyvc", path="vf/pyvc", serves_properties=sorted(CHECKS),
                      kind_free_text="AST->SMT verification-condition generator with sidecar contracts (z3), frame/allocation-site checker, regex extractor; bounded run-time contract drivers as labelled stand-ins")],
        checks=[CHECKS[k] for k in sorted(CHECKS)],
        notes="Exit codes of ./check: 0 held / 1 violation / 2 undecided / 3 checker error. known_findings.json lists recorded defects and fixed: entries.",
        not_applicable=na,
    )
    with open(os.path.join(ROOT, "MANIFEST.json"), "w") as fh:
        json.dump(m, fh, indent=1)
    print("checks:", sorted(CHECKS), "not_applicable:", [x["property_id"] for x in na])


if __name__ == "__main__":
    main()
