#!/usr/bin/env python3
"""Writes MANIFEST.json from the table below (kept in one place so it stays consistent)."""
import json
import os

ROOT = os.path.dirname(os.path.dirname(os.path.abspath(__file__)))

CHECKS = {}
NA = {}


def check(pid, category, text, note, technique, design_ref):
    CHECKS[pid] = dict(
        property_id=pid,
        quick_cmd=f"./check {pid} --tier quick",
        thorough_cmd=f"./check {pid} --tier thorough",
        evidence_file=f"evidence/{pid}.json",
        replay_cmd_template=f"./check {pid} --replay {{path}}",
        engine="pyvc",
        level_claimed=dict(category=category, text=text, design_ref=design_ref),
        level_note=note,
        technique=technique,
    )


check("C10", "proof",
      "Every public operation and observer of OrderedMultiDict and of the three view classes (47 functions incl. the "
      "standard-library mix-in bodies bound into the class) is verified against a contract over the abstract list of "
      "pairs: representation invariant + whole-view postconditions, one SMT query per path and clause generated from "
      "the real AST on every run; ground MRO obligations tie the four container classes to those functions. Induction "
      "over histories then gives the property for histories of any length. A bounded history enumeration on the real "
      "classes runs alongside as engine cross-check and replay source and is not counted as proof.",
      "Trusted: the pyvc encoding of the Python subset, z3 unsat answers, sequence-theory axioms (Lean-checked in the "
      "thorough tier), assumed contract of _insert_arg_helper (bounded-checked), key/value equality is an equivalence; "
      "update/extend with a plain dict argument are bounded only.",
      "contract-based deductive verification: AST->SMT VC generation (pyvc T_seq) discharged by z3; bounded histories as labelled stand-in",
      "DESIGN.md §3 C10")

check("C15", "proof",
      "The three character tables are verified over the whole code-point domain as integer VCs generated from the real "
      "AST (postconditions written from the property statement), the same postconditions are evaluated natively on all "
      "1,114,112 code points (complete by exhaustion), LexerError position arithmetic and the lexer's "
      "reject-before-use loop obligation are discharged, and a bounded position sweep confirms enforcement end to end.",
      "Trusted: pyvc encoding, z3, assumed builtin chr(o).encode('ascii') raises iff o >= 128 (validated over all code "
      "points every run); lexer/parser composition beyond the loop obligation is bounded (positions x grammars).",
      "contract-based deductive verification (pyvc T_int/T_str VCs + exhaustive native table check); bounded position sweep",
      "DESIGN.md §3 C15")


def main():
    props = [json.loads(l) for l in open(os.path.join(ROOT, "properties.jsonl"))]
    na = []
    for p in props:
        if p["id"] not in CHECKS:
            na.append(dict(property_id=p["id"], reason=NA.get(p["id"], "check not built yet in this round (see DESIGN.md §3 for the plan)")))
    m = dict(
        version=1,
        setup_cmd="./setup.sh",
        hooks=dict(guard="PVL_VERIF", enable="no hooks in /repo: the checks read /repo's sources with ast and import pvl from the working tree",
                   baseline_off_cmd="cd /repo && /venv/bin/python -m pytest -ra -q -p no:cacheprovider --timeout=900 --continue-on-collection-errors",
                   source_commits=[], add_only=True),
        engines=[dict(name="pyvc", path="vf/pyvc", serves_properties=sorted(CHECKS),
                      kind_free_text="AST->SMT verification-condition generator with sidecar contracts (z3), frame/allocation-site checker, regex extractor; bounded run-time contract drivers as labelled stand-ins")],
        checks=[CHECKS[k] for k in sorted(CHECKS)],
        notes="Exit codes of ./check: 0 held / 1 violation / 2 undecided / 3 checker error. known_findings.json lists recorded defects and fixed: entries.",
        not_applicable=na,
    )
    with open(os.path.join(ROOT, "MANIFEST.json"), "w") as fh:
        json.dump(m, fh, indent=1)
    print("checks:", sorted(CHECKS), "not_applicable:", [x["property_id"] for x in na])


if __name__ == "__main__":
    main()
