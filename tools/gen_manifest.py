#!/usr/bin/env python3
"""Writes MANIFEST.json from the table below (kept in one place so it stays consistent)."""
import json
import os

ROOT = os.path.dirname(os.path.dirname(os.path.abspath(__file__)))

CHECKS = {}
NA = {}


def check(pid, category, text, note, technique, design_ref):
    CHECKS[pid] = dict(
        property_id=pid,
        quick_cmd=f"./check {pid} --tier quick",
        thorough_cmd=f"./check {pid} --tier thorough",
        evidence_file=f"evidence/{pid}.json",
        replay_cmd_template=f"./check {pid} --replay {{path}}",
        engine="pyvc",
        level_claimed=dict(category=category, text=text, design_ref=design_ref),
        level_note=note,
        technique=technique,
    )


check("C10", "proof",
      "Every public operation and observer of OrderedMultiDict and of the three view classes (47 functions incl. the "
      "standard-library mix-in bodies bound into the class) is verified against a contract over the abstract list of "
      "pairs: representation invariant + whole-view postconditions, one SMT query per path and clause generated from "
      "the real AST on every run; ground MRO obligations tie the four container classes to those functions. Induction "
      "over histories then gives the property for histories of any length. A bounded history enumeration on the real "
      "classes (incl. operations on a second container built from the first) runs alongside as engine cross-check and replay source and is not counted as proof.",
      "Trusted: the pyvc encoding of the Python subset, z3 unsat answers, sequence-theory axioms (Lean-checked in the "
      "thorough tier), assumed contract of _insert_arg_helper (bounded-checked), key/value equality is an equivalence; "
      "update/extend with a plain dict argument are bounded only.",
      "contract-based deductive verification: AST->SMT VC generation (pyvc T_seq) discharged by z3; bounded histories as labelled stand-in",
      "DESIGN.md §3 C10")

check("C15", "proof",
      "The three character tables are verified over the whole code-point domain as integer VCs generated from the real "
      "AST (postconditions written from the property statement), the same postconditions are evaluated natively on all "
      "1,114,112 code points (complete by exhaustion), LexerError position arithmetic and the lexer's "
      "reject-before-use loop obligation are discharged, and a bounded position sweep confirms enforcement end to end.",
      "Trusted: pyvc encoding, z3, assumed builtin chr(o).encode('ascii') raises iff o >= 128 (validated over all code "
      "points every run); lexer/parser composition beyond the loop obligation is bounded (positions x grammars).",
      "contract-based deductive verification (pyvc T_int/T_str VCs + exhaustive native table check); bounded position sweep",
      "DESIGN.md §3 C15")


check("C16", "proof",
      "Initialisation and frame obligations, one per store site, generated from the real ASTs of every class in "
      "parser/decoder/encoder/grammar/token on every run: configuration fields are written only by constructors, the "
      "per-call fields doc/errors are assigned in parse() before anything reads them (followed through super().parse), "
      "nothing stores to globals, class attributes or the shared default-argument objects of the lexer, and the returned "
      "module carries a fresh errors list. Hence each call's module, errors attribute and exception are a function of the "
      "constructor arguments and the text alone. A bounded reuse-vs-fresh differential runs alongside (not proof).",
      "Trusted: the frame back end's syntactic store enumeration (dynamic setattr/__dict__ fail closed); state inside C "
      "extensions (re/strptime caches, warnings registry) is out of model.",
      "contract-based verification: initialisation/frame obligations discharged by a syntactic data-flow checker over the real AST; bounded reuse differential as labelled stand-in",
      "DESIGN.md §3 C16")


check("C13", "proof",
      "A `modifies nothing` frame obligation for every store / in-place mutator call site in every method of the four encoder "
      "classes, generated from the real AST on every run and discharged by the frame back end, with exactly one permitted place - "
      "PDSLabelEncoder._replace_value, called only from encode() for the documented PDS3 GROUP->OBJECT conversion - whose effect "
      "on the caller's container (the item at the index is replaced, every other item keeps its place) is a contract discharged "
      "by the T_seq verifier against the C10 contracts of OrderedMultiDict.items/clear/extend; the shape of the two call sites "
      "(arguments from enumerate(module.items()), guarded by the group test, followed by break / return; in encode() or a private "
      "helper only encode() calls) is a structural obligation per site, and a ground obligation shows the by-position branch covers every "
      "bundled multi-dict class (both container families). "
      "Determinism obligations (no time/random/environment reads) give "
      "repeatability. A bounded snapshot-before/after driver (10 routes incl. pvl.new.dumps on the pvl.new classes) runs alongside (not proof).",
      "Trusted: the frame back end's conservative points-to classification; set iteration order is fixed within a process; "
      "quantity-class attribute getters are pure; the OrderedMultiDict contracts used by _replace_value are the ones check C10 discharges.",
      "contract-based verification: frame (modifies) obligations per store site over the real AST + SMT contract of the one permitted mutator against the C10 callee contracts; bounded snapshot driver as stand-in",
      "DESIGN.md §3 C13")

check("C11", "other",
      "Mixed: `.copy()` and the constructor chain are verified with the T_seq engine (fresh object of the same class, equal list, "
      "original unchanged; ownership obligations keep the private lists from escaping), and obligation R1 pins down on the real "
      "class what __reduce__ hands to CPython's copy/pickle machinery (class, a fresh list of the pairs, the remaining instance "
      "attributes). The step from R1 to copy.copy / copy.deepcopy / pickle results is the *assumed* contract of that machinery "
      "(C code, outside the verifier's reach) and is decided only by the bounded driver: containers up to 4 items, depth 2, "
      "4 classes, 4 mechanisms incl. every pickle protocol, all mutation sequences <= 2 on either side.",
      "Trusted: pyvc/z3/sequence axioms as in C10; the copy/pickle reduction protocol (assumed, bounded-checked).",
      "contract-based deductive verification of .copy() and the reduction contract (pyvc T_seq + ground obligations); copy/pickle protocol assumed and bounded-checked",
      "DESIGN.md §3 C11")

check("C12", "exploration",
      "Whole-text conformance depends on where textwrap.wrap breaks lines, which no contract within reach expresses; it is "
      "decided by a bounded run of an independent line-level conformance reader (hard-coded character sets, keyword families, "
      "line ends, indentation, alignment, end statements) over an exhaustive small universe of modules x 4 encoders x option "
      "grids plus seeded random modules. The deductive part - ground obligations fixing the dialect constants and the "
      "non-overridable PDS3 line end/delimiter, and T_enc contracts on the string renderings (only symbol strings are "
      "single-quoted: no apostrophe, no format effector, at most half the width, printable; quoting rule; first quote character "
      "not contained; PVLEncoder.encode returns a text only if every character is allowed by the grammar; begin / end statements of a "
      "block; ODL names of at most 30 identifier characters; ODL sequences non-empty, at most two-dimensional, of scalars; units only "
      "after a non-bool number) - is reported separately and not counted as deciding the property.",
      "Bounded: module universe and option grid as recorded in the evidence. Seven recorded findings (known_findings.json) are "
      "carved out by key and replayed every run.",
      "bounded conformance reader as labelled stand-in (no contract expresses textwrap's line breaking); ground obligations on dialect constants and SMT contracts (T_enc) on the string renderings",
      "DESIGN.md §3 C12")

PARSER_NOTE = ("Trusted: pyvc encoding of the Python subset; the token-stream ghost model (arbitrary token sequence, arbitrary "
               "lexer-failure index; send/throw protocol facts re-observed on the real generator every run); uninterpreted token "
               "predicates; decoder.decode_simple_value raises only ValueError (assumed, bounded-checked); the lexer itself is not "
               "proved (C15 loop obligation + bounded enumeration); z3 unsat answers.")

check("C06", "other",
      "Mixed, reported separately in the evidence. Proved (pyvc T_tok, 27 parser method bodies incl. every override, ~420 "
      "obligations): each method exits only through its permitted exits - LexerError / ParseError for parse and parse_module; "
      "ValueError and StopIteration only as internal signals with stated stream post-states - every tokens.send/throw call "
      "site satisfies the generator protocol (so the plain ValueError / StopIteration of a finished generator cannot leak), "
      "no local is read unbound, and every loop has a decreasing measure (tokens remaining), which gives termination of the "
      "parser layer for every token sequence and every lexer-failure point. Not proved: the character-level lexer and the "
      "decoders' exception closure; the property as a whole is therefore decided by the bounded driver (all strings up to a "
      "length bound over a PVL alphabet, statement templates, mutated corpus; step budget instead of wall-clock) x 5 parsers.",
      PARSER_NOTE,
      "contract-based deductive verification of the parser layer over a token-stream ghost model (pyvc T_tok + z3); bounded string enumeration with step budget as labelled stand-in for lexer/decoder",
      "DESIGN.md §3 C06, Appendix A")

check("C05", "fault_enumeration",
      "Decided by enumeration of token-level damage (delete, duplicate, swap, replace by each token kind, truncate; pairs in the "
      "thorough tier) of generated well-formed labels against an independent token-level recogniser and denotation x 5 parser "
      "configurations. The deductive part - reported separately, not counted as deciding the property - proves on the real "
      "parser bodies the stream contracts the 'try each production without rewinding' design depends on: a ValueError exit "
      "leaves the stream restored or exhausted (now also for parse_assignment_statement and parse_aggregation_block, which "
      "the contracts showed to violate it: seven fix: commits), result kinds (_parse_set_seq returns a list on every normal "
      "exit), return of parse_module only after END / exhaustion / hook-stop.",
      PARSER_NOTE + " Oracle: the recogniser of DESIGN.md Appendix B restricted to the generated language.",
      "bounded fault enumeration against an independent recogniser; parser stream contracts proved with pyvc T_tok",
      "DESIGN.md §3 C05")

check("C09", "other",
      "Mixed. Proved: 'the parser requests no token beyond the END statement' - parse_end_statement requests at most one "
      "token and marks the stream ended, parse_module/parse return at once, and every next() site of every parser method "
      "carries the obligation `not after END` (pyvc T_tok); the lexer's look-ahead is bounded by i+1 (+ one startswith) "
      "(structural obligation over the reads of the text, followed into the pvl.lexer helpers it is handed to); loads/dump/dumps wiring (structural obligations). Bounded: agreement of the seven entry routes "
      "and behaviour on trailing bytes depends on pathlib/codecs/stream buffering (exception-driven route selection in "
      "get_text_from) - labels x trailing families x separators x routes, with a counting lexer function.",
      PARSER_NOTE + " Path.read_text/write_text, stream read/write/tell/seek, urlopen: library behaviour, bounded only.",
      "contract-based verification of the END discipline (pyvc T_tok) + structural obligations; bounded route differential as labelled stand-in",
      "DESIGN.md §3 C09")

check("C08", "other",
      "Mixed. Proved: OmniParser._empty_value's position arithmetic (placeholder line = 1 + newlines before the last '=' before "
      "pos; exactly that line is appended to errors), linecount, the stream contracts of the three Omni hook methods (consume, "
      "never loop), placeholders are constructed only in _empty_value and only reachable from OmniParser methods, the strict "
      "parsers' hooks raise unconditionally, module.errors = sorted(errors). Not expressible at function level: that the "
      "position handed to _empty_value has the parameter's own '=' as nearest preceding '=' in the ORIGINAL text - decided "
      "bounded (labels x subsets of removed values x layouts), with the recorded finding KF-C08-lineno.",
      PARSER_NOTE + " str.count/str.rfind uninterpreted (argument wiring proved, meaning checked natively).",
      "contract-based verification of the repair arithmetic and hook contracts (pyvc T_tok/T_str); bounded missing-value enumeration as labelled stand-in",
      "DESIGN.md §3 C08")

check("C18", "proof",
      "Allocation-site obligations over the real ASTs of parser.py and decoder.py, one per constructor-like call site: the "
      "only expression producing a real is self.real_cls(str(value)) in decode_decimal (inherited unchanged by every decoder), "
      "the only quantity construction is self.quantity_cls(value, str(unit)), containers are built only by self.modcls() / "
      "grpcls() / objcls() at three sites, no literal float/Decimal/Quantity/PVL* constructor is called, and every value of a "
      "sequence, set, units expression or block flows through parse_value -> decode_simple_value; the ODL units guard tests "
      "the configured class. Uniformity at every depth is then structural. 'Changes nothing else' additionally needs the "
      "real class to accept exactly the tokens float accepts - false for Decimal ('snan'), recorded as KF-C18-decimal-words; "
      "a bounded type walk over generated labels x substitute combinations runs alongside.",
      "Trusted: syntactic call-site enumeration; third-party quantity classes; C06's call graph for 'every value goes through "
      "parse_value'.",
      "contract-based verification: allocation-site obligations discharged by the frame back end over the real AST; bounded type walk as stand-in",
      "DESIGN.md §3 C18")

check("C19", "other",
      "Reduction proved, dependency assumed: pvl.new.loads/dumps run the same parser and encoder with other container classes "
      "(structural obligations on pvl/new.py), and parser.py / encoder.py use only a five-name client interface of the "
      "containers (frame obligation per attribute use). OrderedMultiDict satisfies that interface (C10, proved). PVLMultiDict "
      "sits on third-party multidict internals that cannot be brought under contract: assumed and bounded-checked by a "
      "differential run (generated labels + corpus x encoders) - and false in this sandbox (multidict 6.8), recorded as "
      "KF-C19-multidict-drift.",
      "Trusted/assumed: multidict.MultiDict and PVLMultiDict's use of its internals; frame back end.",
      "contract reduction (interface-usage obligations) + assumed third-party contract, bounded differential as labelled stand-in",
      "DESIGN.md §3 C19")

check("C20", "other",
      "Mixed. Proved (ground and structural obligations on the real modules): formats[F] is a PVLWriter holding exactly F's "
      "encoder class with default options, each dialects row carries that dialect's parser/grammar/decoder/encoder sharing one "
      "grammar and one decoder object, pvl_translate.main has no handler between load and dump (fails exactly when the library "
      "call fails), PVLWriter.dump passes its own encoder, pvl_flavor's verdict logic (loads = True right after pvl.loads "
      "returns; every encoder exception is an encode verdict). Bounded: report layout, JSON output, completion for every "
      "readable file - in-process runs of both tools over corpus/generated/damaged files.",
      "Trusted: argparse, json, logging; structural obligations match the statements textually (a refactoring makes them fail "
      "closed, the bounded differential then decides).",
      "ground + structural obligations on the wiring; bounded CLI-vs-library differential as labelled stand-in",
      "DESIGN.md §3 C20")

BOUNDED = {
 "C01": ("exploration", "Dump-then-strict-load round trip over an exhaustive small universe of modules (boundary value pool per kind, "
         "duplicate keys, nesting) x 4 encoders x option grid (pairwise in quick, full product in thorough) plus seeded random "
         "modules, compared with a spec function implementing exactly the five documented normalisations. The relational claim "
         "spans encoder, lexer, parser and decoder; with the lexer's main loop unproved no contract decides it, so the level is "
         "bounded. Discharged alongside (not lifting the level): T_enc contracts on the writer side - needs_quotes == the "
         "statement's quoting rule, encode_string / is_symbol renderings for every receiver class, encode_simple_value's dispatch "
         "order -, the Token predicate contracts that quoting rule calls through, ground obligations tying the writer's and the "
         "readers' keyword tables together, and the same contract objects evaluated at run time on the real methods.", "DESIGN.md §3 C01/C02/C07"),
 "C02": ("exploration", "As C01 with the default permissive loader (pvl.loads with no arguments) reading every encoder's output (T_enc writer-side contracts as in C01).", "DESIGN.md §3 C01/C02/C07"),
 "C07": ("exploration", "load -> dump -> load -> dump over the corpus, a spelling catalogue, generated texts and token mutants x 4 "
         "encoders: second load equal up to the C01 normalisations, second dump byte-identical up to set order (T_enc writer-side contracts as in C01).", "DESIGN.md §3 C01/C02/C07"),
 "C03": ("exploration", "Abstract documents x concrete spellings (radix/sign positions, real forms, quotes, keyword case, delimiters, "
         "end names, separators) rendered by an independent generator that keeps the abstract tree as oracle x 5 parser "
         "configurations; exhaustive for small documents over the spelling alphabet, seeded random beyond. Discharged alongside "
         "(reported separately, not lifting the level): decoder contracts (T_dec), regex-language obligations (decode_non_decimal's "
         "language == the dialect's based-integer syntax, prefix recognised by the lexer's pattern, decimal syntax accepted, "
         "deviation exactly the recorded one) and the T_lex contracts of the lexer's per-character helpers (lex_continue's "
         "look-ahead exceptions, main-loop step) and of decode_non_decimal for the three decoder families (value = int(sign+digits, "
         "base=int(radix)) of the matching pattern's groups; Omni: the written sign position, not both); the induction over the "
         "lexer loop and the lexer+parser composition are bounded.", "DESIGN.md §3 C03"),
 "C04": ("exploration", "Metamorphic: every adjacent token-kind pair x every separator (each white-space character, comments, mixtures, "
         "empty where optional) and random whole-label layouts x 5 parser configurations give the same module. A relational "
         "claim about two runs of lexer+parser; no contract on one call expresses it. Discharged alongside (not lifting the level): "
         "T_lex contracts of the eight per-character helper functions of pvl/lexer.py against spec functions taken from the "
         "statement (white space dropped only outside preserve states; inside a comment only its own end delimiter is significant; "
         "quotes, units and based integers keep every character), a one-iteration contract of the main loop of lexer() (white "
         "space / a reserved or disallowed character / the end of the text after a lexeme yields it; nothing is yielded for an empty "
         "lexeme or during a look-ahead exception), Token.is_comment, and the same contract objects evaluated at run time on the "
         "real functions. Not proved: the induction over the loop (that the yielded sequence is the tokenisation).", "DESIGN.md §3 C04"),
 "C14": ("exploration", "Decode and encode-decode grids against an oracle built from the written fields: every day of years 0001-9999 "
         "in both date forms (thorough; boundary years in quick), every field boundary in every time form, every microsecond "
         "value for the PDS3 rule, every zone offset in 15/30-minute steps in every spelling x 5 dialect configurations; "
         "finite grids enumerated completely are marked exhaustive. Discharged alongside: T_time contracts of encode_time for the three "
         "dialect families (written fields and precision, sign*(HH*3600+MM*60) == utcoffset, refusal exactly when the dialect cannot "
         "represent the value; counter-models are concrete time values replayed through the real encoder and decoder), the decoder side "
         "(PVLDecoder.decode_datetime: type by trial order, trailing Z => UTC, unmarked => default zone or naive; ODLDecoder offset == "
         "sign*(HH h + MM min); PDSLabelDecoder: no offset branch, microsecond % 1000 == 0) and regex-language "
         "obligations over the grammar's strptime format tables, leap-second patterns and the ODL offset pattern (syntax included, "
         "families disjoint, leap-second language exact, offset split unique) for all strings.", "DESIGN.md §3 C14"),
 "C17": ("exploration", "All strings up to a length bound over a PVL-significant alphabet plus curated and random longer ones x 5 "
         "grammar/decoder pairs: one class per token text, predicates consistent with it, and the writer/reader obligation "
         "(needs_quotes false => decodes to the identical string; encode_string round-trips) for the four encoders. Discharged "
         "alongside: T_dec cascade/predicate contracts, Token construction-site obligations, and regex-language obligations that the "
         "acceptance languages of the value classes are pairwise disjoint in every dialect (for all strings), T_enc contracts of every "
         "Token predicate, of decode_unquoted_string (PVL and ODL families), is_identifier and for_try_except, and of the encoders' "
         "needs_quotes / encode_string (a string is written bare only if it is an unquoted string for the encoder's own grammar and decoder).", "DESIGN.md §3 C17"),
}
for pid, (cat, text, ref) in BOUNDED.items():
    check(pid, cat, text,
          "Bounded: the measured bounds are in the evidence file; recorded findings (known_findings.json) are carved out by key "
          "and replayed on every run. Oracles are independent of the library (spec functions written from the statement).",
          "bounded run of an independent oracle as labelled stand-in (the property is relational over lexer, parser, decoder and "
          "encoder; the inductive composition of the lexer's steps and textwrap-based line assembly are outside the verifier's reach); "
          "contract obligations on the decoders (T_dec, T_off, T_based), the lexer helpers and loop step (T_lex), the Token predicates and "
          "encoder functions (T_enc, T_time) and the grammar's regular languages (z3 regex back end) discharged and reported separately",
          ref)



def main():
    props = [json.loads(l) for l in open(os.path.join(ROOT, "properties.jsonl"))]
    na = []
    for p in props:
        if p["id"] not in CHECKS:
            na.append(dict(property_id=p["id"], reason=NA.get(p["id"], "check not built yet in this round (see DESIGN.md §3 for the plan)")))
    m = dict(
        version=1,
        setup_cmd="./setup.sh",
        hooks=dict(guard="PVL_VERIF", enable="no hooks in /repo: the checks read /repo's sources with ast and import pvl from the working tree",
                   baseline_off_cmd="cd /repo && /venv/bin/python -m pytest -ra -q -p no:cacheprovider --timeout=900 --continue-on-collection-errors",
                   source_commits=[], add_only=True),
        engines=[dict(name="pyvc", path="vf/pyvc", serves_properties=sorted(CHECKS),
                      kind_free_text="AST->SMT verification-condition generator over the real source with sidecar contracts (z3): theories T_int T_str T_seq T_tok "
                      "T_dec T_lex T_enc T_time T_off T_based, search-loop and one-iteration rules, counter-model refutation and native replay; "
                      "frame / initialisation / allocation-site checker; regex-language back end (z3 regex solver); Lean re-check of the sequence "
                      "axioms; the same contracts evaluated at run time and bounded drivers with independent oracles as labelled stand-ins")],
        checks=[CHECKS[k] for k in sorted(CHECKS)],
        notes="Exit codes of ./check: 0 held / 1 violation / 2 undecided / 3 checker error. known_findings.json lists recorded defects and fixed: entries.",
        not_applicable=na,
    )
    with open(os.path.join(ROOT, "MANIFEST.json"), "w") as fh:
        json.dump(m, fh, indent=1)
    print("checks:", sorted(CHECKS), "not_applicable:", [x["property_id"] for x in na])


if __name__ == "__main__":
    main()
