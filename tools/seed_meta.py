#!/usr/bin/env python3
"""Records in seeded/<id>/meta.json what tools/seed_par.sh observed for the seed (result.txt): demo with / without the change,
exit code and first VIOLATION line of the property's check.  The author's own report stays untouched."""
import json, glob, os, re
root = os.path.join(os.path.dirname(__file__), "..", "seeded")
for d in sorted(glob.glob(os.path.join(root, "*"))):
    rp, mp = os.path.join(d, "result.txt"), os.path.join(d, "meta.json")
    if not (os.path.exists(rp) and os.path.exists(mp)):
        continue
    txt = open(rp).read()
    m = json.load(open(mp))
    def grab(pat):
        r = re.search(pat, txt, re.M)
        return r.group(1).strip() if r else None
    m["re_evaluated"] = {
        "by": "tools/seed_par.sh (scratch copy of /repo HEAD + patch; /repo untouched)",
        "on": grab(r"^re-evaluated on (.*)$"),
        "demo_with_change": grab(r"^demo-with-change: (rc=\d+)"),
        "demo_without_change": grab(r"^demo-without-change: (rc=\d+)"),
        "check": (grab(r"^(check C\d+ rc=\d+ .*)$") or "")[:400],
    }
    json.dump(m, open(mp, "w"), indent=1, ensure_ascii=False)
print("ok")
