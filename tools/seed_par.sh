#!/bin/bash
# tools/seed_par.sh [-j N] <seed-id>...   (default: every seeded/<id>)
# Re-evaluates seeded changes against the current machinery on SCRATCH copies of /repo and /verif (neither tree is touched),
# N seeds at a time.  Per seed: archive of /repo HEAD + patch, the property's check run against it with VERIF_REPO/PYTHONPATH,
# and the demo with and without the change.  Writes seeded/<id>/result.txt and prints one line per seed.
J=4
if [ "$1" = "-j" ]; then J=$2; shift 2; fi
cd "$(dirname "$0")/.."
V=$(pwd)
IDS="$@"
[ -z "$IDS" ] && IDS=$(ls seeded)
one() {
  id=$1; V=$2; P=${id%-*}; D=/tmp/se/$id
  rm -rf $D; mkdir -p $D/repo $D/verif
  git -C /repo archive HEAD | tar -x -C $D/repo
  if ! (cd $D/repo && patch -p1 -s < $V/seeded/$id/patch.diff >/dev/null 2>&1); then echo "$id APPLY-FAILED"; rm -rf $D; return; fi
  cp -r $V/vf $V/known_findings.json $V/MANIFEST.json $V/properties.jsonl $V/lean $D/verif/ 2>/dev/null
  mkdir -p $D/verif/evidence $D/verif/replay
  ( cd $D/verif && VERIF_REPO=$D/repo PYTHONPATH=$D/repo PYTHONHASHSEED=0 PYTHONDONTWRITEBYTECODE=1 PYTHONWARNINGS=ignore \
      timeout 3000 $V/.venv/bin/python -m vf.main $P > $D/check.txt 2>&1; echo $? > $D/rc )
  RC=$(cat $D/rc)
  PYTHONPATH=$D/repo /venv/bin/python $V/seeded/$id/demo.py > $D/demo.txt 2>&1; DRC=$?
  PYTHONPATH=/repo /venv/bin/python $V/seeded/$id/demo.py > /dev/null 2>&1; CRC=$?
  {
    echo "re-evaluated on a scratch copy of /repo HEAD $(git -C /repo rev-parse --short HEAD) with $V at $(git -C $V rev-parse --short HEAD)"
    echo "demo-with-change: rc=$DRC (expected non-zero) $(tail -1 $D/demo.txt | cut -c1-160)"
    echo "demo-without-change: rc=$CRC (expected 0)"
    echo "check $P rc=$RC $(grep -c '^VIOLATION' $D/check.txt) violation lines; $(grep -m1 -A1 '^VIOLATION' $D/check.txt | tr '\n' ' ' | cut -c1-400)"
    grep -E "^UNDECIDED" $D/check.txt | head -3 | cut -c1-300
    tail -1 $D/check.txt | cut -c1-300
  } > $V/seeded/$id/result.txt
  echo "$id rc=$RC demo=$DRC/$CRC $(grep -m1 -A1 '^VIOLATION' $D/check.txt | tr '\n' ' ' | cut -c1-220)"
  rm -rf $D
}
export -f one
echo $IDS | tr ' ' '\n' | xargs -P $J -I{} bash -c "one {} $V"
