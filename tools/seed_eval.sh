#!/bin/bash
# tools/seed_eval.sh <seed-dir containing patch.diff demo.py meta.json> <PROPERTY-ID> [extra property ids...]
# Confirms a seeded change in /repo (applies it, checks the pinned suite still gives the baseline
# results, the demo fails with it and passes without), runs the named checks against it, and
# ALWAYS restores /repo.  Output: one line per step; detection summary at the end.
set -u
D=$(readlink -f "$1"); shift
PIDS="$@"
cd /repo || exit 3
if [ -n "$(git status --porcelain -- pvl)" ]; then echo "REPO NOT CLEAN"; exit 3; fi
restore() { git -C /repo checkout -- . ; }
trap restore EXIT
if ! git apply --3way "$D/patch.diff" 2>/tmp/seed_apply.err && ! git apply "$D/patch.diff" 2>>/tmp/seed_apply.err; then
  echo "APPLY-FAILED $(head -2 /tmp/seed_apply.err | tr '\n' ' ')"; exit 2
fi
git reset -q 2>/dev/null
echo "applied: $(git diff --stat -- pvl | tail -1)"
BT=$(/verif/tools/basetest.sh 2>&1 | tail -3 | tr '\n' ' ')
echo "suite: $BT"
PYTHONPATH=/repo /venv/bin/python "$D/demo.py" >/tmp/seed_demo.out 2>&1; DRC=$?
echo "demo-with-change: rc=$DRC (expected non-zero) $(tail -1 /tmp/seed_demo.out | cut -c1-120)"
cd /verif
for P in $PIDS; do
  cp evidence/$P.json /tmp/seed_evidence_$P.json 2>/dev/null
  ./check $P > /tmp/seed_check_$P.txt 2>&1; RC=$?
  cp /tmp/seed_evidence_$P.json evidence/$P.json 2>/dev/null   # evidence of a run against a changed tree is not kept
  echo "check $P rc=$RC $(grep -c '^VIOLATION' /tmp/seed_check_$P.txt) violation lines; $(grep -m1 -A1 '^VIOLATION' /tmp/seed_check_$P.txt | tr '\n' ' ' | cut -c1-300)"
done
restore
PYTHONPATH=/repo /venv/bin/python "$D/demo.py" >/tmp/seed_demo2.out 2>&1
echo "demo-without-change: rc=$? (expected 0)"
