#!/bin/bash
# tools/refactor_eval.sh [-j N] <dir-with-patch.diff> <label> <PID>...
# false-alarm evaluation: applies a behaviour-preserving patch to a SCRATCH copy of /repo HEAD and runs the named checks
# against it (VERIF_REPO / PYTHONPATH); expected: every check exits 0.  Prints one line per check.
D=$(readlink -f "$1"); L=$2; shift 2
V=$(cd "$(dirname "$0")/.." && pwd)
S=/tmp/re/$L
rm -rf $S; mkdir -p $S/repo $S/verif
git -C /repo archive HEAD | tar -x -C $S/repo
if ! (cd $S/repo && patch -p1 -s < $D/patch.diff >/dev/null 2>&1); then echo "$L APPLY-FAILED"; rm -rf $S; exit 0; fi
cp -r $V/vf $V/known_findings.json $V/MANIFEST.json $V/properties.jsonl $V/lean $S/verif/
mkdir -p $S/verif/evidence $S/verif/replay
for P in "$@"; do
  ( cd $S/verif && VERIF_REPO=$S/repo PYTHONPATH=$S/repo PYTHONHASHSEED=0 PYTHONDONTWRITEBYTECODE=1 PYTHONWARNINGS=ignore \
      timeout 3000 $V/.venv/bin/python -m vf.main $P > $S/check_$P.txt 2>&1; echo $? > $S/rc_$P )
  RC=$(cat $S/rc_$P)
  echo "$L $P rc=$RC $(grep -m1 -A1 -E '^VIOLATION|^UNDECIDED|CHECKER-ERROR' $S/check_$P.txt | tr '\n' ' ' | cut -c1-300)"
done
rm -rf $S
