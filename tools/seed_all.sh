#!/bin/bash
# evaluate every seeded change against its property's check; record the outcome in seeded/<id>/result.txt
cd "$(dirname "$0")/.."
for d in seeded/C*-*; do
  id=$(basename $d); P=${id%-*}
  tools/seed_eval.sh $d $P > $d/result.txt 2>&1
  det=$(grep -c "^check $P rc=1" $d/result.txt)
  echo "$id detected=$det $(grep '^check' $d/result.txt | cut -c1-200)"
done
