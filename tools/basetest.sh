#!/bin/bash
# run baseline suite; compare failures against always_fail list
cd /repo && /venv/bin/python -m pytest -q -p no:cacheprovider --timeout=900 --continue-on-collection-errors --junitxml=/tmp/junit.xml >/tmp/pytest.out 2>&1
python3 - <<'PY'
import json, xml.etree.ElementTree as ET
b=json.load(open('/root/.vp/BASELINE.json'))
stable=set(b['stable_pass'])
t=ET.parse('/tmp/junit.xml').getroot()
res={}
for tc in t.iter('testcase'):
    name=f"{tc.get('classname')}::{tc.get('name')}"
    bad=any(c.tag in('failure','error') for c in tc)
    res[name]=res.get(name,False) or bad
missing=[n for n in stable if n not in res]
failed=[n for n in stable if res.get(n)]
print('stable',len(stable),'missing',len(missing),'failed-of-stable',len(failed))
for n in failed+missing: print('  BAD',n)
PY
