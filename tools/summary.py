#!/usr/bin/env python3
"""tools/summary.py: per-property numbers from the committed evidence files (markdown table on stdout)"""
import glob
import json
import os
ROOT = os.path.dirname(os.path.dirname(os.path.abspath(__file__)))
rows = []
for p in sorted(glob.glob(os.path.join(ROOT, "evidence", "C*.json"))):
    e = json.load(open(p))
    c = e["coverage"]
    be = ", ".join(f"{k}: {v}" for k, v in sorted(c.get("obligations_by_backend", {}).items()))
    rows.append((e["property_id"], e["level"], f"{c['discharged']}/{c['obligations']}", len(c.get("functions_under_contract", [])),
                 be, c["evaluations"], round(c.get("solver_s", 0), 1), round(e["wall_s"]), len(c.get("known_findings_reproduced", []))))
print("| id | level | obligations discharged | functions under contract | back ends | bounded evaluations | solver s | wall s | findings reproduced |")
print("|---|---|---|---|---|---|---|---|---|")
for r in rows:
    print("| " + " | ".join(str(x) for x in r) + " |")
