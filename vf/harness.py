"""Common harness: sections, obligations, violations, known findings, evidence, exit codes.

Exit codes of a check: 0 held / 1 violation (VIOLATION line printed) / 2 undecided /
3 checker error (never printed as a violation).
"""
import fnmatch
import json
import os
import sys
import time
import traceback
from dataclasses import dataclass, field, asdict

ROOT = os.path.dirname(os.path.dirname(os.path.abspath(__file__)))
REPO = os.environ.get("VERIF_REPO", "/repo")

DISCHARGED = "discharged"
FAILED = "failed"            # the verifier produced a counter-model / the ground check is false
UNDECIDED = "undecided"      # unknown / timeout: never a violation by itself
UNTRANSLATABLE = "untranslatable"  # construct outside the verified subset


@dataclass
class Obl:
    name: str
    status: str
    backend: str
    seconds: float = 0.0
    detail: str = ""
    function: str = ""
    carveouts: list = field(default_factory=list)


@dataclass
class Violation:
    key: str                 # stable identity of the failing input / call site / history
    what: str
    data: dict = field(default_factory=dict)
    obligation: str = ""
    concrete: bool = True    # reproduced on the real code (native replay)


class Section:
    """One part of a check: either a deductive core (obligations) or a bounded driver."""

    def __init__(self, name, kind, bounded=False, rule="", bounds=None):
        self.name = name
        self.kind = kind              # smt | frame | ground | regex | exhaustive | bounded | crosshair
        self.bounded = bounded        # True: never counted as proved
        self.rule = rule
        self.bounds = bounds or {}
        self.obls = []
        self.violations = []
        self.evaluations = 0
        self.distinct = set()
        self.samples = []
        self.assumptions = []
        self.functions = []
        self.exhaustive = False
        self.notes = []
        self.seconds = 0.0

    # -- deductive -------------------------------------------------------------
    def obl(self, name, status, backend, seconds=0.0, detail="", function="", carveouts=()):
        self.obls.append(Obl(name, status, backend, seconds, detail, function, list(carveouts)))
        if function and function not in self.functions:
            self.functions.append(function)

    # -- bounded ---------------------------------------------------------------
    def case(self, sample=None, distinct_key=None, n=1):
        self.evaluations += n
        if distinct_key is not None:
            self.distinct.add(distinct_key)
        if sample is not None and len(self.samples) < 6:
            self.samples.append(sample)

    def violation(self, key, what, data=None, obligation="", concrete=True):
        if any(v.key == key for v in self.violations):
            return
        self.violations.append(Violation(key, what, data or {}, obligation, concrete))

    def merge_counts(self, evaluations, distinct_keys, samples):
        self.evaluations += evaluations
        self.distinct.update(distinct_keys)
        for s in samples:
            if len(self.samples) < 6:
                self.samples.append(s)


class Ctx:
    def __init__(self, pid, tier, seed):
        self.pid = pid
        self.tier = tier
        self.seed = seed
        self.jobs = int(os.environ.get("VERIF_JOBS", "16"))
        self.findings = [f for f in load_findings() if f.get("property") == pid]

    @property
    def thorough(self):
        return self.tier == "thorough"

    def open_findings(self):
        return [f for f in self.findings if f.get("status") == "open"]

    def fixed_findings(self):
        return [f for f in self.findings if f.get("status") == "fixed"]


def load_findings():
    p = os.path.join(ROOT, "known_findings.json")
    if not os.path.exists(p):
        return []
    with open(p) as fh:
        return json.load(fh).get("findings", [])


def match_finding(v, findings):
    for f in findings:
        if f.get("status") != "open":
            continue
        for pat in f.get("keys", []):
            if fnmatch.fnmatchcase(v.key, pat):
                return f
    return None


def jsonable(x, depth=0):
    if depth > 14:
        return repr(x)
    if isinstance(x, (str, int, float, bool)) or x is None:
        return x
    if isinstance(x, dict):
        return {str(k): jsonable(v, depth + 1) for k, v in x.items()}
    if isinstance(x, (list, tuple)):
        return [jsonable(v, depth + 1) for v in x]
    if isinstance(x, (set, frozenset)):
        return sorted((jsonable(v, depth + 1) for v in x), key=repr)
    return repr(x)


def finish(ctx, manifest_entry, sections, replay_fn, t0):
    """Decide the outcome, print lines, write evidence and replay files; return exit code."""
    pid = ctx.pid
    os.makedirs(os.path.join(ROOT, "evidence"), exist_ok=True)
    os.makedirs(os.path.join(ROOT, "replay"), exist_ok=True)

    obls = [o for s in sections for o in s.obls]
    ded = [o for s in sections if not s.bounded for o in s.obls]
    n_obl = len(ded)
    n_dis = sum(1 for o in ded if o.status == DISCHARGED)
    failed = [o for o in obls if o.status == FAILED]
    undecided = [o for o in obls if o.status == UNDECIDED]
    untrans = [o for o in obls if o.status == UNTRANSLATABLE]

    violations = [v for s in sections for v in s.violations]
    # a failed obligation without a concrete witness is still a violation of the contract
    for o in failed:
        if not any(v.obligation == o.name for v in violations):
            violations.append(Violation(
                key=f"{pid}:obligation:{o.name}", what=f"obligation {o.name} failed ({o.backend})",
                data={"obligation": o.name, "verifier_output": o.detail, "function": o.function},
                obligation=o.name, concrete=False))

    open_f = ctx.open_findings()
    reproduced = {}
    unlisted = []
    matched = []
    for v in violations:
        f = match_finding(v, open_f)
        if f is not None:
            reproduced.setdefault(f["id"], (f, v))
            matched.append((f["id"], v.key, v.what[:300]))
        else:
            unlisted.append(v)
    if os.environ.get("VF_DUMP_KNOWN"):
        # review aid: every violation of this run that a listed finding accounts for (finding id, key, description)
        with open(os.environ["VF_DUMP_KNOWN"], "w") as fh:
            json.dump(sorted(matched), fh, indent=1)

    # open findings not hit by this run's exploration: replay their recorded witness
    stale = []
    for f in open_f:
        if f["id"] in reproduced:
            continue
        still = None
        if replay_fn is not None and f.get("witness") is not None:
            try:
                still = replay_fn(f["witness"])
            except Exception:
                still = "replay raised: " + traceback.format_exc(limit=2)
        if still:
            reproduced[f["id"]] = (f, None)
        else:
            stale.append(f["id"])

    for fid, (f, v) in sorted(reproduced.items()):
        print(f"KNOWN-FINDING: property={pid} {f['id']}: {f['what_fails']}")
    for fid in stale:
        print(f"note: listed finding {fid} did not reproduce on this tree")

    replay_paths = []
    seen = set()
    n = 0
    for v in unlisted:
        if v.key in seen:
            continue
        seen.add(v.key)
        n += 1
        path = os.path.join("replay", f"{pid}-{n}.json")
        with open(os.path.join(ROOT, path), "w") as fh:
            json.dump({"property": pid, "key": v.key, "what": v.what, "obligation": v.obligation,
                       "concrete_input_found": v.concrete, "data": jsonable(v.data),
                       "tier": ctx.tier, "seed": ctx.seed}, fh, indent=1)
        replay_paths.append(path)
        if n <= 25:
            tail = "" if v.concrete else " no-failing-input-found"
            print(f"VIOLATION property={pid} replay={path}{tail}")
            print(f"  {v.what}"[:400])
    if n > 25:
        print(f"... {n - 25} further violations written to replay/")

    claimed = manifest_entry["level_claimed"]["category"] if manifest_entry else "other"
    proof_ok = n_obl > 0 and n_dis == n_obl
    level = claimed
    if claimed == "proof" and not proof_ok:
        level = "other"

    evaluations = sum(s.evaluations for s in sections)
    distinct = sum(len(s.distinct) for s in sections)
    samples = []
    for s in sections:
        for x in s.samples[:3]:
            samples.append({"section": s.name, "case": jsonable(x)})
    for o in ded[:4]:
        samples.append({"section": "obligation", "case": {"name": o.name, "status": o.status,
                                                           "backend": o.backend}})
    backends = {}
    for o in obls:
        if o.status == DISCHARGED:
            backends[o.backend] = backends.get(o.backend, 0) + 1
    assumptions = []
    for s in sections:
        for a in s.assumptions:
            if a not in assumptions:
                assumptions.append(a)
    functions = []
    for s in sections:
        if not s.bounded:
            for fn in s.functions:
                if fn not in functions:
                    functions.append(fn)
    cov = {
        "evaluations": evaluations,
        "distinct_nontrivial": distinct,
        "rule": " || ".join(f"[{s.name}] {s.rule}" for s in sections if s.rule),
        "samples": samples or [{"section": "none", "case": None}],
        "obligations": n_obl,
        "discharged": n_dis,
        "checker_cmd": f"./check {pid} --tier {ctx.tier}",
        "trusted_base": assumptions,
        "explanation": ((manifest_entry["level_claimed"]["text"] if manifest_entry else "no MANIFEST entry for this property")
                        + ("" if level == claimed else f" [this run: level withdrawn to '{level}' because {n_obl - n_dis} of {n_obl} "
                           "deductive obligations were not discharged]")),
        "exhaustive": bool(sections) and all(s.exhaustive for s in sections if s.bounded) and any(s.bounded for s in sections),
        "functions_under_contract": functions,
        "obligations_by_backend": backends,
        "solver_s": round(sum(o.seconds for o in obls), 3),
        "failed_obligations": [o.name for o in failed],
        "undecided_obligations": [o.name for o in undecided],
        "untranslatable": [o.name for o in untrans],
        "carveouts_in_force": sorted({c for o in obls for c in o.carveouts}),
        "known_findings_reproduced": sorted(reproduced),
        "sections": [{
            "name": s.name, "kind": s.kind, "bounded": s.bounded, "bounds": jsonable(s.bounds),
            "obligations": len(s.obls),
            "discharged": sum(1 for o in s.obls if o.status == DISCHARGED),
            "evaluations": s.evaluations, "distinct_nontrivial": len(s.distinct),
            "exhaustive": s.exhaustive, "violations": len(s.violations),
            "seconds": round(s.seconds, 2), "notes": s.notes,
            "functions": s.functions,
        } for s in sections],
    }
    ev = {
        "property_id": pid, "tier": ctx.tier, "seed": ctx.seed, "level": level,
        "coverage": cov, "assumptions": assumptions,
        "wall_s": round(time.time() - t0, 2), "violations": len(seen),
    }
    with open(os.path.join(ROOT, "evidence", f"{pid}.json"), "w") as fh:
        json.dump(ev, fh, indent=1)

    print(f"{pid} tier={ctx.tier} level={level} obligations={n_dis}/{n_obl} "
          f"evaluations={evaluations} distinct={distinct} violations={len(seen)} "
          f"known={len(reproduced)} undecided={len(undecided)} untranslatable={len(untrans)} "
          f"wall={ev['wall_s']}s")
    if seen:
        return 1
    if undecided or untrans:
        for o in (undecided + untrans)[:10]:
            print(f"UNDECIDED obligation {o.name} ({o.status}): {o.detail[:200]}")
        return 2
    return 0
