"""C04 - see DESIGN.md §3; bounded driver vf/rtc/c04_layout.py plus the deductive sections in vf/props/lexeme.py."""
from ..rtc import c04_layout as drv
from . import lexeme


def run(ctx):
    return lexeme.sections_for("C04", ctx) + drv.sections(ctx)


def replay(data):
    if lexeme.is_token_record(data):
        return lexeme.replay_token("C04", data)
    if lexeme.is_lexer_record(data):
        return lexeme.replay_lexer("C04", data)
    return drv.replay(data)
