"""C19 - pvl.new loaders return the same content as the default loaders.
Deductive reduction: pvl.new.loads/dumps run the *same* parser and encoder with other container
classes, so the property follows from (i) the parser and encoders using only a small client
interface of the containers (frame obligation below) and (ii) both container families satisfying
that interface.  (ii) is proved for OrderedMultiDict (C10); PVLMultiDict sits on third-party
multidict internals and cannot be brought under contract: assumed + bounded (and false in this
sandbox: multidict 6.8 removed the internals PVLMultiDict.pop()/insert() use - recorded finding)."""
import ast

from ..harness import Section, DISCHARGED, FAILED
from ..pyvc.source import Program, module_ast
from ..rtc import c19_new_loaders as drv

CONTAINER_NAMES = {"pvl.parser": {"m", "module", "agg"}, "pvl.encoder": {"module", "group"}}
ALLOWED = {"append", "pop", "items", "keys", "errors", "clear", "extend"}   # clear/extend: PDSLabelEncoder._replace_value (C13)


def interface_section():
    s = Section("client-interface", "frame",
                rule="every attribute / method used on a module or aggregation object in parser.py and encoder.py")
    for mod, names in CONTAINER_NAMES.items():
        tree = module_ast(mod)
        used = {}
        for n in ast.walk(tree):
            if isinstance(n, ast.Attribute) and isinstance(n.value, ast.Name) and n.value.id in names:
                used.setdefault(n.attr, []).append(n.lineno)
        for attr, lines in sorted(used.items()):
            ok = attr in ALLOWED
            s.obl(f"{mod}:container.{attr}:in-the-client-interface", DISCHARGED if ok else FAILED, "frame",
                  detail="" if ok else f"lines {lines[:5]}")
        if not used:
            s.obl(f"{mod}:vacuity", FAILED, "frame", detail="no container use found")
    # wiring of pvl.new: same parser / encoder classes, only the container classes differ
    prog = Program(["pvl.new"])
    fn = prog.functions["pvl.new.loads"]
    calls = [c for c in ast.walk(fn) if isinstance(c, ast.Call) and ast.unparse(c.func) == "OmniParser"]
    ok = len(calls) == 1 and {k.arg: ast.unparse(k.value) for k in calls[0].keywords if k.arg} == {
        "grammar": "grammar", "decoder": "decoder", "module_class": "PVLModuleNew", "group_class": "PVLGroupNew",
        "object_class": "PVLObjectNew"}
    s.obl("pvl.new.loads:OmniParser-with-the-new-container-classes-only", DISCHARGED if ok else FAILED, "frame")
    fn = prog.functions["pvl.new.dumps"]
    calls = [c for c in ast.walk(fn) if isinstance(c, ast.Call) and ast.unparse(c.func) == "PDSLabelEncoder"]
    ok = len(calls) == 1 and {k.arg: ast.unparse(k.value) for k in calls[0].keywords if k.arg} == {
        "grammar": "grammar", "decoder": "decoder", "group_class": "PVLGroupNew", "object_class": "PVLObjectNew"}
    s.obl("pvl.new.dumps:PDSLabelEncoder-with-the-new-container-classes-only", DISCHARGED if ok else FAILED, "frame")
    s.assumptions += ["PVLMultiDict (third-party multidict internals) satisfies the client interface: ASSUMED, bounded-checked, "
                      "known to be false for pop()/insert() with multidict 6.8 (finding KF-C19-multidict-drift)",
                      "OrderedMultiDict satisfies it: proved in C10"]
    return s


def run(ctx):
    return [interface_section()] + drv.sections(ctx)


def replay(data):
    return drv.replay(data)
