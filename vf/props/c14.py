"""C14 - see DESIGN.md §3; bounded driver vf/rtc/c14_datetime.py plus the deductive sections in vf/props/lexeme.py."""
from ..rtc import c14_datetime as drv
from . import lexeme


def run(ctx):
    return lexeme.sections_for("C14", ctx) + drv.sections(ctx)


def replay(data):
    if lexeme.is_time_record(data):
        return lexeme.replay_time("C14", data)
    if str(data.get("obligation", "")).startswith("regex:"):
        from . import regexsec
        return regexsec.replay("C14", data)
    return drv.replay(data)
