"""C15 — strict dialects enforce their character set; the default accepts all."""
import ast
import multiprocessing as mp
import time

from ..harness import Section, DISCHARGED, FAILED
from ..pyvc.verify import verify_contracts
from ..pyvc.theory import BaseTheory
from ..pyvc.objtheory import ObjTheory
from ..pyvc.source import Program
from ..contracts import grammar as cg
from ..contracts import exceptions as ce

MAXCP = 0x10FFFF


def spec_pvl(o):
    return o <= 255 and not (0 <= o <= 8) and not (14 <= o <= 31) and not (127 <= o <= 159)


def spec_ascii(o):
    return o < 128


SPEC = {"PVLGrammar": spec_pvl, "ISISGrammar": spec_pvl, "ODLGrammar": spec_ascii, "PDSGrammar": spec_ascii,
        "OmniGrammar": lambda o: True}


def table_replayer(c):
    gname = c.target.split(".")[-2]

    def rp(model, args, ex):
        ch = args.get("char")
        if ch is None or ch.kind != "char":
            return None
        o = model.eval(ch.t, model_completion=True).as_long()
        return replay({"grammar": gname, "codepoint": o}) and (
            f"C15:table:{gname}:{o}", replay({"grammar": gname, "codepoint": o}), {"grammar": gname, "codepoint": o})
    return rp


def _table_chunk(args):
    gname, lo, hi = args
    import pvl.grammar as G
    g = getattr(G, gname)()
    spec = SPEC[gname]
    bad = []
    for o in range(lo, hi):
        try:
            got = g.char_allowed(chr(o))
        except Exception as e:
            got = repr(e)
        if got is not spec(o):
            bad.append((o, repr(got)))
            if len(bad) > 5:
                break
    return gname, hi - lo, bad


def _ascii_chunk(args):
    lo, hi = args
    bad = []
    for o in range(lo, hi):
        try:
            chr(o).encode("ascii")
            ok = True
        except UnicodeError:
            ok = False
        if ok != (o < 128):
            bad.append(o)
    return bad


def exhaustive_section(ctx):
    s = Section("tables-exhaustive", "exhaustive", bounded=True,
                rule="every code point 0..0x10FFFF (surrogates included) x 5 grammar classes: char_allowed(chr(o)) "
                     "equals the set in the property statement; distinct = (grammar, code point)")
    t0 = time.time()
    step = 1 << 16
    tasks = [(g, lo, min(lo + step, MAXCP + 1)) for g in SPEC for lo in range(0, MAXCP + 1, step)]
    with mp.get_context("fork").Pool(ctx.jobs) as pool:
        outs = pool.map(_table_chunk, tasks, chunksize=2)
        abad = [o for r in pool.map(_ascii_chunk, [(lo, min(lo + step, MAXCP + 1)) for lo in range(0, MAXCP + 1, step)]) for o in r]
    n = 0
    for gname, cnt, bad in outs:
        n += cnt
        for o, got in bad[:1]:
            s.violation(f"C15:table:{gname}:{o}", f"{gname}().char_allowed(chr({o})) is {got}, the dialect's character set says {SPEC[gname](o)}",
                        {"grammar": gname, "codepoint": o})
    s.evaluations = n
    s.distinct = set(range(n)) if n < 10_000_000 else set()
    s.samples = [{"grammar": "PVLGrammar", "codepoint": 159, "allowed": False}, {"grammar": "ODLGrammar", "codepoint": 127, "allowed": True}]
    s.exhaustive = True
    s.obl("builtin:chr(o).encode('ascii') raises iff o >= 128 (all code points)", DISCHARGED if not abad else FAILED,
          "exhaustive-native", detail=f"fails at {abad[:5]}" if abad else "")
    s.bounded = True
    s.seconds = time.time() - t0
    return s


def ground_section():
    import pvl.grammar as G
    s = Section("mro", "ground", rule="inherited tables are the verified ones")
    for sub, base in (("PDSGrammar", "ODLGrammar"), ("ISISGrammar", "PVLGrammar")):
        ok = getattr(G, sub).char_allowed is getattr(G, base).char_allowed
        s.obl(f"pvl.grammar.{sub}.char_allowed:is-{base}.char_allowed", DISCHARGED if ok else FAILED, "ground")
    ok = G.OmniGrammar.char_allowed is not G.PVLGrammar.char_allowed
    s.obl("pvl.grammar.OmniGrammar.char_allowed:own-definition", DISCHARGED if ok else FAILED, "ground")
    return s


def lexer_loop_section():
    """Structural obligations on pvl.lexer.lexer: every character is admitted by the grammar
    before anything is done with it, for every lexer state (the check is the first statement of
    the one loop over the text, so preserve states cannot bypass it)."""
    s = Section("lexer-loop", "frame", rule="loop-invariant obligations of pvl.lexer.lexer established syntactically")
    prog = Program(["pvl.lexer"])
    fn = prog.functions.get("pvl.lexer.lexer")
    q = "pvl.lexer.lexer"

    def ob(name, ok, detail=""):
        s.obl(f"{q}:{name}", DISCHARGED if ok else FAILED, "frame", detail=detail, function=q)

    if fn is None:
        ob("exists", False, "function not found")
        return s
    loops = [n for n in ast.walk(fn) if isinstance(n, (ast.For, ast.While))]
    outer = [n for n in fn.body if isinstance(n, ast.For)]
    ob("single-loop-over-text", len(outer) == 1 and isinstance(outer[0].iter, ast.Call)
       and ast.unparse(outer[0].iter) == "enumerate(s)", "expected one `for i, char in enumerate(s)` at top level")
    if len(outer) != 1:
        return s
    loop = outer[0]
    tgt = ast.unparse(loop.target)
    ob("loop-target-is-index-and-char", tgt in ("(i, char)", "i, char"), tgt)
    first = loop.body[0]
    pat_ok = (isinstance(first, ast.If) and ast.unparse(first.test) == "not g.char_allowed(char)"
              and len(first.body) == 1 and isinstance(first.body[0], ast.Raise) and not first.orelse)
    ob("first-statement-rejects-disallowed-char", pat_ok, ast.unparse(first)[:120])
    if pat_ok:
        r = first.body[0].exc
        ok = (isinstance(r, ast.Call) and ast.unparse(r.func) == "LexerError" and len(r.args) == 4
              and [ast.unparse(a) for a in r.args[1:]] == ["s", "i", "lexeme"])
        ob("rejection-raises-LexerError(msg, s, i, lexeme)", ok, ast.unparse(r)[:120])
    yields = [n for n in ast.walk(fn) if isinstance(n, (ast.Yield, ast.YieldFrom))]
    inside = {id(n) for st in loop.body[1:] for n in ast.walk(st)}
    ob("every-yield-after-the-check", bool(yields) and all(id(y) in inside for y in yields))
    ob("no-return-or-break-in-loop", not any(isinstance(n, (ast.Return, ast.Break)) for st in loop.body for n in ast.walk(st)
                                              if not isinstance(n, ast.FunctionDef)))
    pre = [st for st in fn.body if st is not loop]
    ob("no-yield-outside-loop", not any(isinstance(n, (ast.Yield, ast.YieldFrom)) for st in pre for n in ast.walk(st)))
    handlers = [n for n in ast.walk(loop) if isinstance(n, ast.ExceptHandler)]
    ok = all(h.type is not None and ast.unparse(h.type) == "ValueError" and len(h.body) == 1
             and isinstance(h.body[0], ast.Raise) and ast.unparse(h.body[0].exc).startswith("LexerError(") for h in handlers)
    ob("handlers-convert-ValueError-to-LexerError", bool(handlers) and ok)
    reassigned = [n for st in loop.body for n in ast.walk(st)
                  if isinstance(n, ast.Name) and isinstance(n.ctx, ast.Store) and n.id in ("s", "g", "i", "char")]
    ob("text-grammar-index-not-reassigned-in-loop", not reassigned)
    return s


# ---- bounded position sweep ---------------------------------------------------------------
TEMPLATES = {
    "parameter-name": "a{c}b = 1\nEND\n",
    "unquoted-value": "a = x{c}y\nEND\n",
    "quoted-string": 'a = "x{c}y"\nEND\n',
    "comment": "/* x{c}y */\na = 1\nEND\n",
    "units": "a = 1 <m{c}s>\nEND\n",
    "between-statements": "a = 1\n{c}\nb = 2\nEND\n",
    "second-line-string": 'a = 1\nbb = "q{c}"\nEND\n',
    "after-begin-keyword": "a = 1\nGROUP {c}= g\nb = 2\nEND_GROUP\nEND\n",
    "after-end-keyword": "a = 1\nGROUP = g\nb = 2\nEND_GROUP {c}= g\nc = 3\nEND\n",
    "before-units": "a = 1 {c}<m>\nb = 2\nEND\n",
    "in-sequence": "a = (1, {c}2)\nb = 2\nEND\n",
    "after-END": "a = 1\nEND\n{c}",
}
STRUCTURAL = set("&<>'{},[]=!#()%+\";~| \t\n\r\v\f\0/*-:.")


def _configs():
    from pvl.grammar import PVLGrammar, ODLGrammar, PDSGrammar, ISISGrammar, OmniGrammar
    from pvl.decoder import PVLDecoder, ODLDecoder, PDSLabelDecoder, OmniDecoder
    from pvl.parser import PVLParser, ODLParser, OmniParser
    out = {}
    for name, G, D, P in (("PVL", PVLGrammar, PVLDecoder, PVLParser), ("ODL", ODLGrammar, ODLDecoder, ODLParser),
                          ("PDS3", PDSGrammar, PDSLabelDecoder, ODLParser), ("ISIS", ISISGrammar, OmniDecoder, OmniParser),
                          ("Omni", OmniGrammar, OmniDecoder, OmniParser)):
        g = G()
        out[name] = (type(g).__name__, lambda g=g, D=D, P=P: P(grammar=g, decoder=D(grammar=g)))
    return out


def check_one(cfg, pos, o):
    """-> None or (kind, what)"""
    from pvl.exceptions import LexerError, ParseError
    gname, mk = _configs()[cfg]
    ch = chr(o)
    text = TEMPLATES[pos].format(c=ch)
    allowed = SPEC[gname](o)
    try:
        m = mk().parse(text)
        out = ("ok", m)
    except LexerError as e:
        out = ("lexer", e)
    except ParseError as e:
        out = ("parse", e)
    except Exception as e:
        return ("other-exception", f"{type(e).__name__}: {e}")
    if not allowed and pos != "after-END":
        if out[0] != "lexer":
            return ("not-rejected", f"outcome {out[0]}, expected LexerError")
        e = out[1]
        doc = e.doc
        if not (0 <= e.pos <= len(doc)):
            return ("pos-out-of-range", f"pos={e.pos} len(doc)={len(doc)}")
        if e.lineno != doc.count("\n", 0, e.pos) + 1 or e.colno != e.pos - doc.rfind("\n", 0, e.pos):
            return ("attrs-inconsistent", f"pos={e.pos} lineno={e.lineno} colno={e.colno}")
        if doc != text:
            return ("doc-differs", "LexerError.doc is not the text")
        bad_line = text.count("\n", 0, text.index(ch)) + 1
        if e.lineno != bad_line:
            return ("wrong-line", f"lineno={e.lineno}, the character is on line {bad_line}")
        return None
    if pos == "after-END":
        if out[0] != "ok":
            return ("rejected-after-END", f"{out[0]}: {out[1]}")
        return None
    # allowed character: a LexerError must not blame the character set
    if out[0] == "lexer" and "is not allowed by the grammar" in str(out[1]):
        return ("allowed-char-rejected", str(out[1])[:120])
    if cfg == "Omni" and pos in ("quoted-string", "second-line-string") and ch not in STRUCTURAL:
        if out[0] != "ok":
            return ("omni-rejects", f"{out[0]}: {str(out[1])[:100]}")
        key = "a" if pos == "quoted-string" else "bb"
        want = ("x" + ch + "y") if pos == "quoted-string" else ("q" + ch)
        if out[1][key] != want:
            return ("omni-altered-char", f"got {out[1][key]!r}, expected {want!r}")
    return None


def _sweep_chunk(args):
    cfg, pos, cps = args
    bad = []
    for o in cps:
        r = check_one(cfg, pos, o)
        if r:
            bad.append((o, r[0], r[1]))
    return cfg, pos, len(cps), bad


def codepoints(ctx):
    import random
    rng = random.Random(ctx.seed)
    cps = set(range(0, 0x300)) | {0x2028, 0x2029, 0xFEFF, 0xFFFD, 0xFFFF, 0x10000, 0x1F600, 0xD800, 0xDFFF, MAXCP, 0x20AC}
    cps |= {rng.randrange(0x300, MAXCP + 1) for _ in range(3000 if ctx.thorough else 300)}
    if ctx.thorough:
        cps |= set(range(0x300, 0x3000))
    return sorted(cps)


def sweep_section(ctx):
    cps = codepoints(ctx)
    s = Section("position-sweep", "bounded", bounded=True,
                rule=f"{len(cps)} code points (all below U+0300, boundaries, seeded sample up to U+10FFFF) x "
                     f"{len(TEMPLATES)} syntactic positions x 5 parser configurations; distinct = (config, position, code point)",
                bounds={"codepoints": len(cps), "positions": list(TEMPLATES), "configs": list(_configs())})
    t0 = time.time()
    tasks = []
    for cfg in _configs():
        for pos in TEMPLATES:
            for k in range(0, len(cps), 400):
                tasks.append((cfg, pos, cps[k:k + 400]))
    with mp.get_context("fork").Pool(ctx.jobs) as pool:
        outs = pool.map(_sweep_chunk, tasks, chunksize=2)
    for cfg, pos, n, bad in outs:
        s.evaluations += n
        for o, kind, what in bad:
            s.violation(f"C15:{cfg}:{pos}:{kind}", f"{cfg} parser, U+{o:04X} at {pos}: {what}",
                        {"config": cfg, "position": pos, "codepoint": o})
    s.distinct = {(c, p) for c in _configs() for p in TEMPLATES}
    s.distinct = set(range(s.evaluations))
    s.samples = [{"config": "PVL", "position": "quoted-string", "codepoint": 0x100},
                 {"config": "ODL", "position": "comment", "codepoint": 0xE9}]
    s.seconds = time.time() - t0
    return s


def run(ctx):
    secs = []
    s = Section("tables", "smt", rule="char_allowed x 5 grammar classes x {single char, len != 1}: one obligation per exit clause")
    gc = cg.contracts()
    for c in gc:
        c.replayer = table_replayer(c)
    verify_contracts(s, gc, BaseTheory, ["pvl.grammar"], jobs=min(ctx.jobs, 8))
    s.assumptions += ["assumed builtin: chr(o).encode('ascii') raises UnicodeEncodeError iff o >= 128 (validated over all code points on every run)",
                      "pyvc encoding of the Python subset; z3 unsat answers",
                      "characters are modelled by their code point in [0, 0x10FFFF]"]
    secs.append(s)
    s2 = Section("lexer-error-attributes", "smt", rule="firstpos, linecount, LexerError.__init__: position arithmetic")
    verify_contracts(s2, ce.contracts(), ObjTheory, ["pvl.exceptions"], jobs=1)
    s2.assumptions += ["str.count / str.rfind are uninterpreted functions of (text, needle, start, end): the obligations pin "
                       "down the arguments passed; their meaning (1-based line, column) is checked natively in the sweep",
                       "reading of 'consistent': 0 <= pos <= len(doc), lineno = newlines before pos + 1, colno = pos - index of "
                       "the last newline before pos; pos is the start of the pending lexeme, not necessarily the offending character"]
    secs.append(s2)
    from . import lexeme
    secs.append(lexeme.sweep_section(ctx))
    secs.append(lexer_loop_section())
    secs.append(ground_section())
    secs.append(exhaustive_section(ctx))
    secs.append(sweep_section(ctx))
    return secs


def replay(data):
    if "position" in data:
        r = check_one(data["config"], data["position"], data["codepoint"])
        return f"{data['config']} U+{data['codepoint']:04X} at {data['position']}: {r[0]}: {r[1]}" if r else None
    import pvl.grammar as G
    g = getattr(G, data["grammar"])()
    o = data["codepoint"]
    try:
        got = g.char_allowed(chr(o))
    except Exception as e:
        got = repr(e)
    want = SPEC[data["grammar"]](o)
    if got is not want:
        return f"{data['grammar']}().char_allowed(chr({o})) is {got}, the dialect's character set says {want}"
    return None
