"""C13 - dumping is repeatable and does not damage its argument.

Deductive core: a `modifies nothing` frame obligation for every method of the four encoder
classes (one obligation per store / mutator-call site of the real AST), with exactly one
permitted place: PDSLabelEncoder._replace_value, called only from PDSLabelEncoder.encode for the
documented in-place GROUP->OBJECT conversion.  Its effect on the caller's container is a
contract discharged by the T_seq verifier against the C10 contracts of OrderedMultiDict.items /
clear / extend: the item at the index is replaced and every other item - also those sharing its
key - keeps its place (before repo commit 70ea840 the conversion was `module[k] = objcls(v)`,
whose proved __setitem__ contract drops later items with the key: finding KF-C13-dupkey, fixed).
Determinism: no read of time/random/environment in the encoders.
"""
import ast
import time

from ..harness import Section, DISCHARGED, FAILED
from ..pyvc.frame import check_modifies, call_sites
from ..pyvc.source import Program, module_ast
from ..rtc import c13_dump_pure as drv

ENC_CLASSES = ["PVLEncoder", "ODLEncoder", "PDSLabelEncoder", "ISISEncoder"]


REPLACE_SITES = {"module[key]", "module.clear()", "module.extend(items)"}


def allow(cls, meth, kind, text):
    if cls == "PDSLabelEncoder" and meth == "_replace_value" and text.replace(" ", "") in REPLACE_SITES:
        return "permitted:PDS3-group-to-object-conversion (effect: contract of _replace_value, section replace-value-contract)"
    return None


def frame_section():
    s = Section("encoder-frame", "frame",
                rule="every store / in-place mutator call in every method of the four encoder classes must hit a fresh local")
    check_modifies(s, "pvl.encoder", classes=ENC_CLASSES, allow=allow,
                   skip_methods=("__init__", "add_quantity_cls", "_import_quantities"), prop="C13")
    # the one permitted mutation: _replace_value(<module>, i, k, self.objcls(v)) - in PDSLabelEncoder.encode, or in a private
    # method of PDSLabelEncoder that only encode() calls, with encode's module
    prog = Program(["pvl.encoder"])
    allcalls = call_sites("pvl.encoder", {"_replace_value"})
    cls_node = [n for n in module_ast("pvl.encoder").body if isinstance(n, ast.ClassDef) and n.name == "PDSLabelEncoder"][0]
    methods = {n.name: n for n in cls_node.body if isinstance(n, ast.FunctionDef)}
    s.obl("pvl.encoder:_replace_value-is-called-only-for-the-module-handed-to-PDSLabelEncoder.encode",
          DISCHARGED if allcalls and all(_site_owner_ok(c[0], methods) for c in allcalls) else FAILED, "frame",
          detail=str([c[0] for c in allcalls]))
    shape_ok = pre_ok = guarded = bool(allcalls)
    direct_stores = []
    for owner in sorted({c[0] for c in allcalls} | {"PDSLabelEncoder.encode"}):
        fn = methods.get(owner.split(".")[-1]) if owner.startswith("PDSLabelEncoder.") else None
        if fn is None:
            shape_ok = False
            continue
        params = [a.arg for a in fn.args.args]
        sites = [n for n in ast.walk(fn) if isinstance(n, ast.Call) and isinstance(n.func, ast.Attribute)
                 and n.func.attr == "_replace_value"]
        for n in sites:
            a = n.args
            sh = (len(a) == 4 and not n.keywords and all(isinstance(x, ast.Name) for x in a[:3]) and a[0].id in params[1:2]
                  and isinstance(a[3], ast.Call) and ast.unparse(a[3].func) == "self.objcls" and len(a[3].args) == 1
                  and isinstance(a[3].args[0], ast.Name))
            shape_ok = shape_ok and sh
            if sh:
                pre_ok = pre_ok and _index_and_key_from_enumerate(fn, n)
                guarded = guarded and _guarded_by_group_test(fn, n)
        direct_stores += [f"{owner}: {ast.unparse(n)}" for n in ast.walk(fn) if isinstance(n, (ast.Assign, ast.AugAssign)) and any(
            isinstance(t, (ast.Subscript, ast.Attribute)) and not ast.unparse(t).startswith("self.")
            for t in (n.targets if isinstance(n, ast.Assign) else [n.target]))]
    s.obl("pvl.encoder.PDSLabelEncoder.encode:permitted-mutation-is-_replace_value(module, i, k, self.objcls(v))",
          DISCHARGED if shape_ok else FAILED, "frame", function="pvl.encoder.PDSLabelEncoder.encode")
    s.obl("pvl.encoder.PDSLabelEncoder.encode:no-direct-store-into-the-module", DISCHARGED if not direct_stores else FAILED, "frame",
          detail="; ".join(direct_stores[:3]))
    s.obl("pvl.encoder.PDSLabelEncoder.encode:_replace_value-precondition: (i, (k, v)) come from enumerate(module.items())",
          DISCHARGED if pre_ok else FAILED, "frame", function="pvl.encoder.PDSLabelEncoder.encode")
    s.obl("pvl.encoder.PDSLabelEncoder.encode:conversion-only-for-a-group-value-followed-by-break", DISCHARGED if guarded else FAILED,
          "frame", function="pvl.encoder.PDSLabelEncoder.encode")
    # the positional branch of _replace_value is selected by an isinstance test: it must cover every bundled multi-dict class
    # (assignment by key drops the later items with that key in both families: C10 contract / multidict semantics)
    ci2, rv = prog.function("pvl.encoder.PDSLabelEncoder._replace_value")
    tests = [n for n in ast.walk(rv) if isinstance(n, ast.Call) and ast.unparse(n.func) == "isinstance" and len(n.args) == 2
             and ast.unparse(n.args[0]) == rv.args.args[0].arg]
    import importlib
    pe, pc = importlib.import_module("pvl.encoder"), importlib.import_module("pvl.collections")
    multi = [getattr(pc, nm) for nm in ("OrderedMultiDict", "PVLModule", "PVLGroup", "PVLObject", "PVLMultiDict", "PVLModuleNew",
                                        "PVLGroupNew", "PVLObjectNew") if hasattr(pc, nm)]
    covered = False
    for t in tests:
        try:
            tested = eval(compile(ast.Expression(t.args[1]), "<isinstance>", "eval"), vars(pe))
            covered = covered or all(issubclass(c, tested) for c in multi)
        except Exception:
            pass
    s.obl("pvl.encoder.PDSLabelEncoder._replace_value:the-by-position-branch-covers-every-bundled-multi-dict-class",
          DISCHARGED if covered and len(multi) >= 4 else FAILED, "ground", detail=f"{[ast.unparse(t) for t in tests]} over "
          f"{[c.__name__ for c in multi]}", function="pvl.encoder.PDSLabelEncoder._replace_value")
    # determinism: no nondeterministic source is read by the encoder module
    bad = call_sites("pvl.encoder", {"now", "today", "time", "random", "randint", "choice", "getenv", "urandom", "uuid4", "id", "hash"})
    s.obl("pvl.encoder:no-time-random-environment-reads", DISCHARGED if not bad else FAILED, "frame",
          detail="; ".join(f"{c[0]}:{c[3]}" for c in bad[:5]))
    tree = module_ast("pvl.encoder")
    envreads = [n for n in ast.walk(tree) if isinstance(n, ast.Attribute) and n.attr in ("environ",)]
    s.obl("pvl.encoder:no-os.environ", DISCHARGED if not envreads else FAILED, "frame")
    s.assumptions += [
        "frame back end: conservative points-to (parameters, their attributes/items/iteration and results of calls on them "
        "are parameter-reachable; displays, comprehensions, constructor calls and results of self.* encoder methods are fresh)",
        "iteration order of a set is a function of the set object within one process (repeatability of set literals)",
        "effect of the permitted `module[k] = objcls(v)` on an OrderedMultiDict argument: C10's proved __setitem__ contract; "
        "on a plain dict: builtin dict.__setitem__",
        "third-party quantity classes' attribute getters are pure"]
    return s


def _stmt_of(fn, call):
    for n in ast.walk(fn):
        if isinstance(n, ast.Expr) and n.value is call:
            return n
    return None


def _site_owner_ok(owner, methods):
    """the call sits in PDSLabelEncoder.encode, or in a private PDSLabelEncoder method whose only callers (in the whole module)
    are encode / such methods, each passing on its own module parameter"""
    if owner == "PDSLabelEncoder.encode":
        return True
    if not owner.startswith("PDSLabelEncoder._"):
        return False
    name = owner.split(".", 1)[1]
    callers = call_sites("pvl.encoder", {name})
    if not callers:
        return False
    for c in callers:
        fn = methods.get(c[0].split(".")[-1]) if c[0].startswith("PDSLabelEncoder.") else None
        if fn is None or c[0] == owner:
            return False
        params = [a.arg for a in fn.args.args]
        call = c[4]
        if not (ast.unparse(call.func) == f"self.{name}" and len(call.args) >= 1 and isinstance(call.args[0], ast.Name)
                and call.args[0].id in params[1:2]):
            return False
        if not _site_owner_ok(c[0], methods):
            return False
    return True


def _enclosing(fn, node, kinds):
    """innermost statement of one of *kinds* that contains *node* (by position in the tree)"""
    best = None
    for n in ast.walk(fn):
        if isinstance(n, kinds) and n is not node and any(m is node for m in ast.walk(n)):
            if best is None or any(m is n for m in ast.walk(best)):
                best = n
    return best


def _guarded_by_group_test(fn, call):
    """under an `if` (inside the loop) one of whose conjuncts is isinstance(<v>, self.grpcls) for the converted value, and the
    next statement leaves the loop (break / return): at most one conversion per scan"""
    st = _stmt_of(fn, call)
    v = call.args[3].args[0].id
    for n in ast.walk(fn):
        if isinstance(n, ast.If) and st in n.body:
            conj = n.test.values if isinstance(n.test, ast.BoolOp) and isinstance(n.test.op, ast.And) else [n.test]
            idx = n.body.index(st)
            leaves = idx + 1 < len(n.body) and isinstance(n.body[idx + 1], (ast.Break, ast.Return))
            return any(ast.unparse(c) == f"isinstance({v}, self.grpcls)" for c in conj) and leaves
    return False


def _index_and_key_from_enumerate(fn, call):
    """the innermost loop around the call is `for <i>, (<k>, <v>) in enumerate(<module>.items()):` for the very names the
    call passes, and nothing in the loop body before the call stores into them or the module (the call is followed by
    break / return: _guarded_by_group_test)"""
    m, i, k = (a.id for a in call.args[:3])
    v = call.args[3].args[0].id
    loop = _enclosing(fn, call, (ast.For,))
    if loop is None:
        return False
    if not (ast.unparse(loop.target) == f"({i}, ({k}, {v}))" and ast.unparse(loop.iter) == f"enumerate({m}.items())"):
        return False
    for st in loop.body:                      # (the else part of the loop runs after the scan, not between head and call)
        for n in ast.walk(st):
            if isinstance(n, ast.Name) and isinstance(n.ctx, ast.Store) and n.id in (m, i, k, v):
                return False
    return True



def replace_value_section(ctx):
    from ..pyvc.verify import verify_contracts
    from ..pyvc.seqtheory import SeqTheory
    from ..contracts import collections as cc, encoder as ce
    s = Section("replace-value-contract", "smt",
                rule="PDSLabelEncoder._replace_value on a multi-dict: the item at index is replaced, every other item keeps its "
                     "place (callee contracts: OrderedMultiDict.items/clear/extend, discharged by check C10)")
    t0 = time.time()
    cs = cc.contracts()
    for c in cs:
        c.assumed = True
        c.note = "discharged by check C10"
    verify_contracts(s, cs + ce.contracts(), SeqTheory, ["pvl.collections", "pvl.encoder"], jobs=ctx.jobs, std=True)
    s.assumptions = ["the OrderedMultiDict contracts used at the three call sites are the ones check C10 discharges (same contract "
                     "objects, vf/contracts/collections.py)",
                     "plain dict / other mapping arguments: module[key] = value of a mapping with unique keys (builtin)",
                     "a list bound to a local name by list(...) is a fresh copy (no aliasing between local lists in this function)"]
    s.seconds = time.time() - t0
    return s


def run(ctx):
    secs = [frame_section(), replace_value_section(ctx)]
    secs += drv.sections(ctx)
    return secs


def replay(data):
    return drv.replay(data)
