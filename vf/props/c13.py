"""C13 — dumping is repeatable and does not damage its argument.

Deductive core: a `modifies nothing` frame obligation for every method of the four encoder
classes (one obligation per store / mutator-call site of the real AST), with exactly one
permitted site: PDSLabelEncoder.encode's documented in-place GROUP->OBJECT conversion
(`module[k] = self.objcls(v)`), whose effect on the caller's container is given by the
*proved* C10 contract of OrderedMultiDict.__setitem__ (first occurrence replaced, later items
with the same key dropped) - which is exactly the recorded finding KF-C13-dupkey when the
group's name is duplicated.  Determinism: no read of time/random/environment in the encoders.
"""
import ast
import time

from ..harness import Section, DISCHARGED, FAILED
from ..pyvc.frame import check_modifies, call_sites
from ..pyvc.source import Program, module_ast
from ..rtc import c13_dump_pure as drv

ENC_CLASSES = ["PVLEncoder", "ODLEncoder", "PDSLabelEncoder", "ISISEncoder"]


def allow(cls, meth, kind, text):
    if cls == "PDSLabelEncoder" and meth == "encode" and kind == "store" and text.replace(" ", "") == "module[k]":
        return "permitted:PDS3-group-to-object-conversion"
    return None


def frame_section():
    s = Section("encoder-frame", "frame",
                rule="every store / in-place mutator call in every method of the four encoder classes must hit a fresh local")
    check_modifies(s, "pvl.encoder", classes=ENC_CLASSES, allow=allow,
                   skip_methods=("__init__", "add_quantity_cls", "_import_quantities"), prop="C13")
    # the one permitted mutation: shape of the statement
    prog = Program(["pvl.encoder"])
    ci, fn = prog.function("pvl.encoder.PDSLabelEncoder.encode")
    sites = [n for n in ast.walk(fn) if isinstance(n, ast.Assign) and isinstance(n.targets[0], ast.Subscript)]
    ok = bool(sites) and all(ast.unparse(n.targets[0]) == "module[k]" and ast.unparse(n.value) == "self.objcls(v)" for n in sites)
    s.obl("pvl.encoder.PDSLabelEncoder.encode:permitted-mutation-is-module[k]=self.objcls(v)", DISCHARGED if ok else FAILED,
          "frame", function="pvl.encoder.PDSLabelEncoder.encode", carveouts=["KF-C13-dupkey"])
    guarded = all(_guarded_by_group_test(fn, n) for n in sites)
    s.obl("pvl.encoder.PDSLabelEncoder.encode:conversion-only-for-a-group-value-followed-by-break", DISCHARGED if guarded else FAILED,
          "frame", function="pvl.encoder.PDSLabelEncoder.encode")
    # determinism: no nondeterministic source is read by the encoder module
    bad = call_sites("pvl.encoder", {"now", "today", "time", "random", "randint", "choice", "getenv", "urandom", "uuid4", "id", "hash"})
    s.obl("pvl.encoder:no-time-random-environment-reads", DISCHARGED if not bad else FAILED, "frame",
          detail="; ".join(f"{c[0]}:{c[3]}" for c in bad[:5]))
    tree = module_ast("pvl.encoder")
    envreads = [n for n in ast.walk(tree) if isinstance(n, ast.Attribute) and n.attr in ("environ",)]
    s.obl("pvl.encoder:no-os.environ", DISCHARGED if not envreads else FAILED, "frame")
    s.assumptions += [
        "frame back end: conservative points-to (parameters, their attributes/items/iteration and results of calls on them "
        "are parameter-reachable; displays, comprehensions, constructor calls and results of self.* encoder methods are fresh)",
        "iteration order of a set is a function of the set object within one process (repeatability of set literals)",
        "effect of the permitted `module[k] = objcls(v)` on an OrderedMultiDict argument: C10's proved __setitem__ contract; "
        "on a plain dict: builtin dict.__setitem__",
        "third-party quantity classes' attribute getters are pure"]
    return s


def _guarded_by_group_test(fn, assign):
    for n in ast.walk(fn):
        if isinstance(n, ast.If) and assign in n.body:
            t = ast.unparse(n.test)
            idx = n.body.index(assign)
            brk = idx + 1 < len(n.body) and isinstance(n.body[idx + 1], ast.Break)
            return "isinstance(v, self.grpcls)" in t and brk
    return False


def run(ctx):
    secs = [frame_section()]
    secs += drv.sections(ctx)
    return secs


def replay(data):
    return drv.replay(data)
