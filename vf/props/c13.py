"""C13 - dumping is repeatable and does not damage its argument.

Deductive core: a `modifies nothing` frame obligation for every method of the four encoder
classes (one obligation per store / mutator-call site of the real AST), with exactly one
permitted place: PDSLabelEncoder._replace_value, called only from PDSLabelEncoder.encode for the
documented in-place GROUP->OBJECT conversion.  Its effect on the caller's container is a
contract discharged by the T_seq verifier against the C10 contracts of OrderedMultiDict.items /
clear / extend: the item at the index is replaced and every other item - also those sharing its
key - keeps its place (before repo commit 70ea840 the conversion was `module[k] = objcls(v)`,
whose proved __setitem__ contract drops later items with the key: finding KF-C13-dupkey, fixed).
Determinism: no read of time/random/environment in the encoders.
"""
import ast
import time

from ..harness import Section, DISCHARGED, FAILED
from ..pyvc.frame import check_modifies, call_sites
from ..pyvc.source import Program, module_ast
from ..rtc import c13_dump_pure as drv

ENC_CLASSES = ["PVLEncoder", "ODLEncoder", "PDSLabelEncoder", "ISISEncoder"]


REPLACE_SITES = {"module[key]", "module.clear()", "module.extend(items)"}


def allow(cls, meth, kind, text):
    if cls == "PDSLabelEncoder" and meth == "_replace_value" and text.replace(" ", "") in REPLACE_SITES:
        return "permitted:PDS3-group-to-object-conversion (effect: contract of _replace_value, section replace-value-contract)"
    return None


def frame_section():
    s = Section("encoder-frame", "frame",
                rule="every store / in-place mutator call in every method of the four encoder classes must hit a fresh local")
    check_modifies(s, "pvl.encoder", classes=ENC_CLASSES, allow=allow,
                   skip_methods=("__init__", "add_quantity_cls", "_import_quantities"), prop="C13")
    # the one permitted mutation: _replace_value(module, i, k, self.objcls(v)), called only from PDSLabelEncoder.encode
    prog = Program(["pvl.encoder"])
    ci, fn = prog.function("pvl.encoder.PDSLabelEncoder.encode")
    allcalls = call_sites("pvl.encoder", {"_replace_value"})
    s.obl("pvl.encoder:_replace_value-is-called-only-from-PDSLabelEncoder.encode",
          DISCHARGED if allcalls and all(c[0] == "PDSLabelEncoder.encode" for c in allcalls) else FAILED, "frame",
          detail=str([c[0] for c in allcalls]))
    sites = [n for n in ast.walk(fn) if isinstance(n, ast.Call) and isinstance(n.func, ast.Attribute)
             and n.func.attr == "_replace_value"]
    ok = bool(sites) and all([ast.unparse(a) for a in n.args] == ["module", "i", "k", "self.objcls(v)"] and not n.keywords
                             for n in sites)
    s.obl("pvl.encoder.PDSLabelEncoder.encode:permitted-mutation-is-_replace_value(module, i, k, self.objcls(v))",
          DISCHARGED if ok else FAILED, "frame", function="pvl.encoder.PDSLabelEncoder.encode")
    stores = [n for n in ast.walk(fn) if isinstance(n, (ast.Assign, ast.AugAssign)) and any(
        isinstance(t, (ast.Subscript, ast.Attribute)) for t in (n.targets if isinstance(n, ast.Assign) else [n.target]))]
    s.obl("pvl.encoder.PDSLabelEncoder.encode:no-direct-store-into-the-module", DISCHARGED if not stores else FAILED, "frame",
          detail="; ".join(ast.unparse(n) for n in stores[:3]))
    pre_ok = all(_index_and_key_from_enumerate(fn, n) for n in sites)
    s.obl("pvl.encoder.PDSLabelEncoder.encode:_replace_value-precondition: (i, (k, v)) come from enumerate(module.items())",
          DISCHARGED if pre_ok else FAILED, "frame", function="pvl.encoder.PDSLabelEncoder.encode")
    guarded = all(_guarded_by_group_test(fn, n) for n in sites)
    s.obl("pvl.encoder.PDSLabelEncoder.encode:conversion-only-for-a-group-value-followed-by-break", DISCHARGED if guarded else FAILED,
          "frame", function="pvl.encoder.PDSLabelEncoder.encode")
    # the positional branch of _replace_value is selected by an isinstance test: it must cover every bundled multi-dict class
    # (assignment by key drops the later items with that key in both families: C10 contract / multidict semantics)
    ci2, rv = prog.function("pvl.encoder.PDSLabelEncoder._replace_value")
    tests = [n for n in ast.walk(rv) if isinstance(n, ast.Call) and ast.unparse(n.func) == "isinstance" and len(n.args) == 2
             and ast.unparse(n.args[0]) == rv.args.args[0].arg]
    import importlib
    pe, pc = importlib.import_module("pvl.encoder"), importlib.import_module("pvl.collections")
    multi = [getattr(pc, nm) for nm in ("OrderedMultiDict", "PVLModule", "PVLGroup", "PVLObject", "PVLMultiDict", "PVLModuleNew",
                                        "PVLGroupNew", "PVLObjectNew") if hasattr(pc, nm)]
    covered = False
    for t in tests:
        try:
            tested = eval(compile(ast.Expression(t.args[1]), "<isinstance>", "eval"), vars(pe))
            covered = covered or all(issubclass(c, tested) for c in multi)
        except Exception:
            pass
    s.obl("pvl.encoder.PDSLabelEncoder._replace_value:the-by-position-branch-covers-every-bundled-multi-dict-class",
          DISCHARGED if covered and len(multi) >= 4 else FAILED, "ground", detail=f"{[ast.unparse(t) for t in tests]} over "
          f"{[c.__name__ for c in multi]}", function="pvl.encoder.PDSLabelEncoder._replace_value")
    # determinism: no nondeterministic source is read by the encoder module
    bad = call_sites("pvl.encoder", {"now", "today", "time", "random", "randint", "choice", "getenv", "urandom", "uuid4", "id", "hash"})
    s.obl("pvl.encoder:no-time-random-environment-reads", DISCHARGED if not bad else FAILED, "frame",
          detail="; ".join(f"{c[0]}:{c[3]}" for c in bad[:5]))
    tree = module_ast("pvl.encoder")
    envreads = [n for n in ast.walk(tree) if isinstance(n, ast.Attribute) and n.attr in ("environ",)]
    s.obl("pvl.encoder:no-os.environ", DISCHARGED if not envreads else FAILED, "frame")
    s.assumptions += [
        "frame back end: conservative points-to (parameters, their attributes/items/iteration and results of calls on them "
        "are parameter-reachable; displays, comprehensions, constructor calls and results of self.* encoder methods are fresh)",
        "iteration order of a set is a function of the set object within one process (repeatability of set literals)",
        "effect of the permitted `module[k] = objcls(v)` on an OrderedMultiDict argument: C10's proved __setitem__ contract; "
        "on a plain dict: builtin dict.__setitem__",
        "third-party quantity classes' attribute getters are pure"]
    return s


def _stmt_of(fn, call):
    for n in ast.walk(fn):
        if isinstance(n, ast.Expr) and n.value is call:
            return n
    return None


def _guarded_by_group_test(fn, call):
    st = _stmt_of(fn, call)
    for n in ast.walk(fn):
        if isinstance(n, ast.If) and st in n.body:
            t = ast.unparse(n.test)
            idx = n.body.index(st)
            brk = idx + 1 < len(n.body) and isinstance(n.body[idx + 1], ast.Break)
            return "isinstance(v, self.grpcls)" in t and brk
    return False


def _index_and_key_from_enumerate(fn, call):
    """the call sits (under the if) directly in `for i, (k, v) in enumerate(module.items()):` and nothing between the loop
    head and the call changes the module (the call is followed by break)"""
    st = _stmt_of(fn, call)
    for n in ast.walk(fn):
        if isinstance(n, ast.For) and len(n.body) == 1 and isinstance(n.body[0], ast.If) and st in n.body[0].body:
            return ast.unparse(n.target) == "(i, (k, v))" and ast.unparse(n.iter) == "enumerate(module.items())"
    return False


def replace_value_section(ctx):
    from ..pyvc.verify import verify_contracts
    from ..pyvc.seqtheory import SeqTheory
    from ..contracts import collections as cc, encoder as ce
    s = Section("replace-value-contract", "smt",
                rule="PDSLabelEncoder._replace_value on a multi-dict: the item at index is replaced, every other item keeps its "
                     "place (callee contracts: OrderedMultiDict.items/clear/extend, discharged by check C10)")
    t0 = time.time()
    cs = cc.contracts()
    for c in cs:
        c.assumed = True
        c.note = "discharged by check C10"
    verify_contracts(s, cs + ce.contracts(), SeqTheory, ["pvl.collections", "pvl.encoder"], jobs=ctx.jobs, std=True)
    s.assumptions = ["the OrderedMultiDict contracts used at the three call sites are the ones check C10 discharges (same contract "
                     "objects, vf/contracts/collections.py)",
                     "plain dict / other mapping arguments: module[key] = value of a mapping with unique keys (builtin)",
                     "a list bound to a local name by list(...) is a fresh copy (no aliasing between local lists in this function)"]
    s.seconds = time.time() - t0
    return s


def run(ctx):
    secs = [frame_section(), replace_value_section(ctx)]
    secs += drv.sections(ctx)
    return secs


def replay(data):
    return drv.replay(data)
