"""C10 — multi-dict list view and mapping view agree after any operation history."""
import itertools
import multiprocessing as mp
import time

from ..harness import Section, DISCHARGED, FAILED
from ..pyvc.verify import verify_contracts
from ..pyvc.seqtheory import SeqTheory, to_py
from ..contracts import collections as cc
from ..rtc import c10_histories as H

ASSUMPTIONS = [
    "pyvc encoding of the Python subset (evaluation order, exceptions, list/dict primitives, iterator-by-position, "
    "negative index and slice clamping, list.insert clamping) — cross-checked natively by the bounded histories",
    "z3 5.1.0: unsat answers are trusted",
    "sequence-theory axioms (proj/dropk/keys/vals/pos/mem homomorphisms, setspec, foldset): theorems about List, "
    "proved in lean/SeqAx.lean (re-checked in the thorough tier)",
    "keys are hashable with == an equivalence consistent with hash; value != is the negation of ==",
    "update() with a plain-dict argument and extend()/__init__ with a plain dict: bounded only (dict iteration not modelled)",
    "_insert_arg_helper: assumed contract (pairs denoted by the arguments), bounded-checked",
    "OrderedMultiDict.__reduce__, __repr__: not under contract here (see C11)",
]

OPMAP = {"append": lambda a: ("append", a["key"], a["value"]),
         "__setitem__": lambda a: ("setitem", a["key"], a["value"]),
         "__delitem__": lambda a: ("delitem", a["key"]),
         "discard": lambda a: ("discard", a["key"]),
         "clear": lambda a: ("clear",),
         "popitem": lambda a: ("popitem",),
         "setdefault": lambda a: ("setdefault", a["key"], a["default"]),
         "popall": lambda a: ("popall", a["key"]) if "default" not in a else ("pop2", a["key"], a["default"])}


def make_replayer(c):
    meth = c.target.rsplit(".", 1)[-1]

    def replayer(model, args, ex):
        L = [tuple(p) for p in to_py(model, ex.pre.items)] if hasattr(ex.pre, "items") else []
        pyargs = {}
        for k, v in args.items():
            if hasattr(v, "t") and v.t is not None:
                pyargs[k] = to_py(model, v.t)
            elif hasattr(v, "items") and k == "args":
                pyargs[k] = [to_py(model, x.t) for x in v.items if hasattr(x, "t")]
        op = None
        try:
            if meth in OPMAP:
                op = OPMAP[meth](pyargs)
            elif meth == "pop":
                a = pyargs.get("args", [])
                op = ("pop0",) if len(a) == 0 else (("pop1", a[0]) if len(a) == 1 else ("pop2", a[0], a[1]))
            elif meth in ("extend", "update", "__init__"):
                a = pyargs.get("args") or ([pyargs["other"]] if "other" in pyargs else [])
                if a and isinstance(a[0], list):
                    op = ("extend" if meth != "update" else "update", tuple(tuple(p) for p in a[0]))
            elif meth == "insert" and isinstance(pyargs.get("index"), int):
                op = ("insert", pyargs["index"], (("a", 6), ("b", 7)))
        except Exception:
            op = None
        cands = [[("extend", tuple(L))] + ([op] if op else [])]
        if meth in ("insert_before", "insert_after") and L:
            cands = [[("extend", tuple(L)), (meth, L[0][0], ("zz", 1), i)] for i in (0, -1, 1)]
        for hist in cands:
            r = H.replay_history("OrderedMultiDict", hist)
            if r:
                return (f"C10:{meth}:{hist[-1][0]}", r, {"class": "OrderedMultiDict", "history": hist,
                                                            "from": "verifier counter-model"})
        return None
    return replayer


def ground_section():
    """MRO obligations evaluated on the real class objects."""
    import pvl.collections as pc
    import _collections_abc as cabc
    s = Section("mro-and-bindings", "ground",
                rule="every documented operation / observer resolves, through the real MRO of the four container "
                     "classes, to a function that is under contract")
    t0 = time.time()
    under_contract = {c.target.rsplit(".", 1)[-1] for c in cc.contracts() if ".OrderedMultiDict." in c.target}
    ops = ["append", "extend", "insert", "insert_before", "insert_after", "__setitem__", "__delitem__", "pop",
           "popall", "popitem", "setdefault", "update", "discard", "clear", "__iter__", "__len__", "__getitem__",
           "keys", "values", "items", "get", "getall", "getlist", "key_index", "__eq__", "__ne__", "copy", "__init__"]
    allowed_stdlib = {"get": cabc.Mapping.get, "update": cabc.MutableMapping.update,
                      "popall": cabc.MutableMapping.pop, "setdefault": cabc.MutableMapping.setdefault}
    for cls in (pc.OrderedMultiDict, pc.PVLModule, pc.PVLAggregation, pc.PVLGroup, pc.PVLObject):
        for op in ops:
            f = getattr(cls, op, None)
            own = pc.OrderedMultiDict.__dict__.get(op)
            ok = f is not None and own is not None and (f is own) and op in under_contract
            if ok and op in allowed_stdlib:
                ok = own is allowed_stdlib[op]
            elif ok:
                ok = getattr(own, "__module__", None) == "pvl.collections"
            s.obl(f"{cls.__name__}.{op}:resolves-to-contracted-function", DISCHARGED if ok else FAILED, "ground",
                  detail="" if ok else f"{cls.__name__}.{op} resolves to {f!r}", function=f"pvl.collections.OrderedMultiDict.{op}")
        ok = cls.__contains__ is dict.__contains__
        s.obl(f"{cls.__name__}.__contains__:is-dict-contains", DISCHARGED if ok else FAILED, "ground",
              detail="" if ok else repr(cls.__contains__))
        ok = cls.__bool__ is None if hasattr(cls, "__bool__") else True
        s.obl(f"{cls.__name__}:truthiness-by-__len__", DISCHARGED if ok else FAILED, "ground")
    for nm, prim in (("dict_setitem", dict.__setitem__), ("dict_getitem", dict.__getitem__),
                     ("dict_delitem", dict.__delitem__), ("dict_contains", dict.__contains__), ("dict_clear", dict.clear)):
        ok = getattr(pc, nm, None) is prim
        s.obl(f"pvl.collections.{nm}:bound-to-dict-primitive", DISCHARGED if ok else FAILED, "ground")
    for v in ("KeysView", "ItemsView", "ValuesView"):
        vc = getattr(pc, v)
        for m in ("__len__", "__iter__", "__getitem__", "__contains__", "index"):
            f = getattr(vc, m, None)
            ok = f is not None and getattr(f, "__module__", None) == "pvl.collections"
            s.obl(f"{v}.{m}:resolves-to-contracted-function", DISCHARGED if ok else FAILED, "ground")
    s.notes.append("dict.__ior__, MutableSequence.reverse/remove/index/count/__iadd__ are reachable but are not in the "
                   "property's operation list; they are not under contract")
    s.seconds = time.time() - t0
    return s


def bounded_section(ctx):
    depth = 3 if ctx.thorough else 2
    classes = ["OrderedMultiDict", "PVLModule", "PVLGroup", "PVLObject"] if ctx.thorough else ["OrderedMultiDict", "PVLModule"]
    s = Section("histories", "bounded", bounded=True,
                rule=f"all histories of length <= {depth + 0} from the empty container over {len(H.op_universe())} operation "
                     "instances (keys a,b; values 1,2); after each step every observer is compared with a list-of-pairs "
                     "reference; non-trivial = a distinct history",
                bounds={"history_length": depth, "classes": classes, "ops": len(H.op_universe())})
    t0 = time.time()
    ops = H.op_universe()
    tasks = [(c, op, depth) for c in classes for op in ops]
    with mp.get_context("fork").Pool(ctx.jobs) as pool:
        outs = pool.map(H.explore_prefix, tasks, chunksize=1)
    for (c, op, d), (n, bad) in zip(tasks, outs):
        s.evaluations += n
        for hist, obs, got, want in bad:
            s.violation(f"C10:{hist[-1][0]}:{obs.split('(')[0].split('[')[0]}",
                        f"{c} after {hist!r}: {obs} is {got}, the list of pairs implies {want}",
                        {"class": c, "history": [list(o) for o in hist]})
    s.distinct = set(range(s.evaluations))
    s.samples = [{"class": "OrderedMultiDict", "history": [list(ops[0]), list(ops[5])]},
                 {"class": classes[-1], "history": [list(ops[-1]), list(ops[2]), list(ops[9])][:depth]}]
    s.exhaustive = True
    # seeded random longer histories
    import random
    import pvl.collections as pc
    rng = random.Random(ctx.seed)
    nrand = 3000 if ctx.thorough else 400
    for i in range(nrand):
        ln = rng.randint(depth + 1, 12)
        hist = tuple(rng.choice(ops) for _ in range(ln))
        c = rng.choice(classes)
        r = H.run_history(getattr(pc, c), hist)
        s.evaluations += 1
        s.distinct.add(("r", i))
        if r:
            step, obs, got, want = r
            s.violation(f"C10:{hist[step][0]}:{obs.split('(')[0].split('[')[0]}",
                        f"{c} after {hist[:step + 1]!r}: {obs} is {got}, the list of pairs implies {want}",
                        {"class": c, "history": [list(o) for o in hist[:step + 1]]})
    s.bounds["random_histories"] = nrand
    s.seconds = time.time() - t0
    return s


def helper_section():
    """_insert_arg_helper (assumed in the proof) against the five documented argument shapes."""
    import pvl.collections as pc
    s = Section("insert-arg-helper", "bounded", bounded=True,
                rule="the documented argument shapes of insert() -> list of pairs; TypeError otherwise")
    good = [(("k", 1), [("k", 1)]), ((("k", 1),), [("k", 1)]), (([("k", 1), ("j", 2)],), [("k", 1), ("j", 2)]),
            (({"k": 1, "j": 2},), [("k", 1), ("j", 2)]), ((["k", 1],), [("k", 1)]),
            (((("k", 1), ("j", 2)),), [("k", 1), ("j", 2)]), (([["k", 1], ["j", 2]],), [("k", 1), ("j", 2)])]
    bad = [(), ("a", "b", "c"), ([("k", 1, 2), ("j", 2)],), ([5, 6, 7],)]
    for args, want in good:
        try:
            got = [tuple(p) for p in pc._insert_arg_helper(args)]
        except Exception as e:
            got = repr(e)
        s.case(sample={"args": repr(args), "pairs": want}, distinct_key=repr(args))
        if got != want:
            s.violation(f"C10:_insert_arg_helper:{args!r}", f"_insert_arg_helper{args!r} -> {got!r}, expected {want!r}",
                        {"args": repr(args)})
    for args in bad:
        try:
            got = pc._insert_arg_helper(args)
            s.violation(f"C10:_insert_arg_helper:{args!r}", f"_insert_arg_helper{args!r} -> {got!r}, expected TypeError",
                        {"args": repr(args)})
        except TypeError:
            pass
        s.case(distinct_key=repr(args))
    return s


def run(ctx):
    secs = []
    s = Section("contracts", "smt",
                rule="one obligation per (function, case, exit/loop clause), aggregated over all paths of the real AST")
    t0 = time.time()
    contracts = cc.contracts()
    for c in contracts:
        c.replayer = make_replayer(c)
    verify_contracts(s, contracts, SeqTheory, ["pvl.collections"], std=True, jobs=ctx.jobs,
                     timeout_ms=60000 if ctx.thorough else 20000)
    s.assumptions += ASSUMPTIONS
    s.seconds = time.time() - t0
    secs.append(s)
    secs.append(ground_section())
    secs.append(helper_section())
    secs.append(bounded_section(ctx))
    if ctx.thorough:
        from .lean import lean_section
        secs.append(lean_section())
    return secs


def replay(data):
    hist = data.get("history")
    cls = data.get("class", "OrderedMultiDict")
    if hist is None:
        return None
    return H.replay_history(cls, hist)
