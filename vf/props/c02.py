"""C02 - see DESIGN.md §3; bounded driver vf/rtc/c02_default_loader.py plus the deductive sections in vf/props/lexeme.py."""
from ..rtc import c02_default_loader as drv
from . import lexeme


def run(ctx):
    return lexeme.sections_for("C02", ctx) + drv.sections(ctx)


def replay(data):
    if lexeme.is_token_record(data):
        return lexeme.replay_token("C02", data)
    if lexeme.is_encoder_record(data):
        return lexeme.replay_encoder("C02", data)
    return drv.replay(data)
