"""C08 - missing values are tolerated by the default loader and located exactly.
Deductive: OmniParser._empty_value position arithmetic (line = 1 + newlines before the last '='
before pos; appended to errors), linecount, the three Omni hook methods' stream contracts (C06
run), allocation-site obligations (placeholders only from _empty_value, only reachable from
OmniParser methods; the base-class hooks raise unconditionally).  That the `pos` handed to
_empty_value has the parameter's own '=' as nearest preceding '=' *in the original text* is not
expressible at function level: decided bounded."""
import ast

from ..harness import Section, DISCHARGED, FAILED
from ..pyvc.frame import call_sites
from ..pyvc.source import Program
from .parser_common import parser_section
from ..rtc import c08_missing_values as drv


def alloc_section():
    s = Section("placeholder-allocation", "frame", rule="where EmptyValueAtLine can be constructed and by whom")

    def ob(name, ok, detail=""):
        s.obl(name, DISCHARGED if ok else FAILED, "frame", detail=str(detail))
    ev = call_sites("pvl.parser", {"EmptyValueAtLine"})
    ob("EmptyValueAtLine:constructed-only-in-OmniParser._empty_value", bool(ev) and all(c[0] == "OmniParser._empty_value" for c in ev),
       [(c[0], c[3]) for c in ev])
    for mod in ("pvl.decoder", "pvl.lexer", "pvl.token", "pvl.encoder", "pvl"):
        ob(f"{mod}:does-not-construct-placeholders", not call_sites(mod, {"EmptyValueAtLine", "_empty_value"}))
    cs = call_sites("pvl.parser", {"_empty_value"})
    ob("_empty_value:called-only-from-OmniParser-methods", bool(cs) and all(c[0].startswith("OmniParser.") for c in cs),
       [(c[0], c[3]) for c in cs])
    prog = Program(["pvl.parser"])
    for cls in ("PVLParser", "ODLParser"):
        for hook in ("parse_module_post_hook", "parse_value_post_hook"):
            dcls, fn = prog.find_method(cls, hook)
            body = [st for st in fn.body if not (isinstance(st, ast.Expr) and isinstance(st.value, ast.Constant))]
            ok = dcls == "PVLParser" and len(body) == 1 and isinstance(body[0], ast.Raise)
            ob(f"{cls}.{hook}:raises-unconditionally(strict parsers cannot repair)", ok)
    dcls, fn = prog.find_method("PVLParser", "parse")
    st = [n for n in ast.walk(fn) if isinstance(n, ast.Assign) and ast.unparse(n.targets[0]) == "module.errors"]
    ob("PVLParser.parse:module.errors = sorted(self.errors)", len(st) == 1 and ast.unparse(st[0].value) == "sorted(self.errors)")
    return s


def run(ctx):
    return [parser_section(ctx), alloc_section()] + drv.sections(ctx)


def replay(data):
    return drv.replay(data)
