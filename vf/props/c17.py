"""C17 - see DESIGN.md §3; bounded driver vf/rtc/c17_classification.py plus the deductive sections in vf/props/lexeme.py."""
from ..rtc import c17_classification as drv
from . import lexeme


def run(ctx):
    return lexeme.sections_for("C17", ctx) + drv.sections(ctx)


def replay(data):
    return drv.replay(data)
