"""C17 - value classification is total, exclusive and shared by reader and writer.
Deductive: decoder cascade / Token predicates (pyvc T_dec, vf/props/lexeme.py), allocation-site
obligations that the writer classifies with the SAME grammar and decoder objects it was
configured with, regex-language obligations; bounded: vf/rtc/c17_classification.py."""
import ast

from ..harness import Section, DISCHARGED, FAILED
from ..pyvc.frame import call_sites
from ..rtc import c17_classification as drv
from . import lexeme


def token_sites_section():
    s = Section("token-construction-sites", "frame",
                rule="every Token(...) built by the encoders / parser / lexer carries the configured grammar and decoder")

    def ob(name, ok, detail=""):
        s.obl(name, DISCHARGED if ok else FAILED, "frame", detail=str(detail))
    enc = call_sites("pvl.encoder", {"Token"})
    for c in enc:
        kw = {k.arg: ast.unparse(k.value) for k in c[4].keywords}
        ob(f"pvl.encoder.{c[0]}:Token(...)@{c[2]}:grammar=self.grammar,decoder=self.decoder",
           kw.get("grammar") == "self.grammar" and kw.get("decoder") == "self.decoder", c[3])
    ob("pvl.encoder:needs_quotes-builds-a-Token", any(c[0] == "PVLEncoder.needs_quotes" for c in enc), [c[0] for c in enc])
    par = call_sites("pvl.parser", {"Token"})
    for c in par:
        kw = {k.arg: ast.unparse(k.value) for k in c[4].keywords}
        ob(f"pvl.parser.{c[0]}:Token(...)@{c[2]}:grammar=self.grammar,decoder=self.decoder",
           kw.get("grammar") == "self.grammar" and kw.get("decoder") == "self.decoder", c[3])
    lx = [c for c in call_sites("pvl.lexer", {"Token"}) if c[0] == "lexer"]
    for c in lx:
        kw = {k.arg: ast.unparse(k.value) for k in c[4].keywords}
        ob(f"pvl.lexer.lexer:Token(...)@{c[2]}:grammar=g,decoder=d", kw.get("grammar") == "g" and kw.get("decoder") == "d", c[3])
    ob("pvl.lexer.lexer:yields-Tokens-built-there", bool(lx))
    s.notes.append("lex_continue builds look-ahead Tokens with grammar=g only (default PVLDecoder for that grammar): "
                   "numeric look-ahead does not see a custom real_cls; observed, not part of the writer/reader obligation")
    return s


def run(ctx):
    return lexeme.sections_for("C17", ctx) + [token_sites_section()] + drv.sections(ctx)


def replay(data):
    if lexeme.is_token_record(data):
        return lexeme.replay_token("C17", data)
    if lexeme.is_encoder_record(data):
        return lexeme.replay_encoder("C17", data)
    if str(data.get("obligation", "")).startswith("regex:"):
        from . import regexsec
        return regexsec.replay("C17", data)
    return drv.replay(data)
