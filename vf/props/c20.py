"""C20 - command-line tools are faithful front-ends of the library.
Deductive: ground obligations on the real wiring tables (formats / dialects) and structural
obligations on main()/pvl_flavor (no handler between load and dump in pvl_translate; verdict
logic of pvl_flavor).  Report layout and 'completes for every readable file': bounded."""
import ast

from ..harness import Section, DISCHARGED, FAILED
from ..pyvc.source import Program
from ..rtc import c20_cli as drv


def wiring_section():
    import pvl.pvl_translate as T
    import pvl.pvl_validate as Vd
    import pvl.encoder as E
    import pvl.parser as P
    import pvl.grammar as G
    import pvl.decoder as D
    s = Section("wiring", "ground", rule="formats / dialects tables on the real modules; structure of main and pvl_flavor")

    def ob(name, ok, detail=""):
        s.obl(name, DISCHARGED if ok else FAILED, "ground", detail=str(detail))
    want = {"PDS3": E.PDSLabelEncoder, "ODL": E.ODLEncoder, "ISIS": E.ISISEncoder, "PVL": E.PVLEncoder}
    for f, cls in want.items():
        w = T.formats.get(f)
        ok = isinstance(w, T.PVLWriter) and type(w.encoder) is cls
        ob(f"pvl_translate.formats[{f}]:is-a-PVLWriter-of-exactly-{cls.__name__}", ok)
        if ok:
            fresh = cls()
            same = all(getattr(w.encoder, a, None) == getattr(fresh, a, None) for a in
                       ("indent", "width", "aggregation_end", "end_delimiter", "newline", "convert_group_to_object",
                        "tab_replace", "symbol_single_quote", "time_trailing_z"))
            ob(f"pvl_translate.formats[{f}]:default-options", same)
    ob("pvl_translate.formats[JSON]:is-the-JSONWriter", isinstance(T.formats.get("JSON"), T.JSONWriter))
    ob("pvl_translate.formats:exactly-five-formats", set(T.formats) == {"PDS3", "ODL", "ISIS", "PVL", "JSON"})
    rows = {"PDS3": (P.ODLParser, G.PDSGrammar, D.PDSLabelDecoder, E.PDSLabelEncoder),
            "ODL": (P.ODLParser, G.ODLGrammar, D.ODLDecoder, E.ODLEncoder),
            "PVL": (P.PVLParser, G.PVLGrammar, D.PVLDecoder, E.PVLEncoder),
            "ISIS": (P.OmniParser, G.ISISGrammar, D.OmniDecoder, E.ISISEncoder),
            "Omni": (P.OmniParser, G.OmniGrammar, D.OmniDecoder, E.PVLEncoder)}
    ob("pvl_validate.dialects:rows-in-order", list(Vd.dialects) == ["PDS3", "ODL", "PVL", "ISIS", "Omni"])
    for k, (pc, gc, dc, ec) in rows.items():
        r = Vd.dialects.get(k, {})
        ok = (type(r.get("parser")) is pc and type(r.get("grammar")) is gc and type(r.get("decoder")) is dc
              and type(r.get("encoder")) is ec)
        ob(f"pvl_validate.dialects[{k}]:classes", ok)
        if ok:
            one = (r["parser"].grammar is r["grammar"] and r["parser"].decoder is r["decoder"]
                   and r["decoder"].grammar is r["grammar"] and r["encoder"].grammar is r["grammar"]
                   and r["encoder"].decoder is r["decoder"])
            ob(f"pvl_validate.dialects[{k}]:one-grammar-and-one-decoder-object-shared", one)
    # structure
    prog = Program(["pvl.pvl_translate"])
    fn = prog.functions["pvl.pvl_translate.main"]
    ok = not any(isinstance(n, ast.Try) for n in ast.walk(fn))
    ob("pvl_translate.main:no-exception-handler(fails-exactly-when-the-library-call-fails)", ok)
    body = [ast.unparse(st) for st in fn.body]
    ob("pvl_translate.main:load-then-dump-with-the-selected-writer",
       "some_pvl = pvl.load(args.infile)" in body and "formats[args.output_format].dump(some_pvl, args.outfile)" in body, body)
    ci, fn = prog.function("pvl.pvl_translate.PVLWriter.dump")
    ob("PVLWriter.dump:passes-its-own-encoder", [ast.unparse(n.value) for n in ast.walk(fn) if isinstance(n, ast.Return)] ==
       ["pvl.dump(dictlike, outfile, encoder=self.encoder)"])
    prog = Program(["pvl.pvl_validate"])
    fn = prog.functions["pvl.pvl_validate.pvl_flavor"]
    tries = [n for n in ast.walk(fn) if isinstance(n, ast.Try)]
    outer = [t for t in tries if any(isinstance(x, ast.Try) for st in t.body for x in ast.walk(st))]
    ok = len(tries) == 2 and len(outer) == 1
    ob("pvl_flavor:one-load-attempt-enclosing-one-encode-attempt", ok)
    if ok:
        inner = [t for t in tries if t is not outer[0]][0]
        hs = [ast.unparse(h.type) if h.type is not None else "<bare>" for h in inner.handlers]
        ob("pvl_flavor:every-encoder-exception-is-an-encode-verdict(not-a-load-verdict)", hs == ["Exception"], hs)
        assigns = [ast.unparse(st) for st in inner.body] + [ast.unparse(st) for h in inner.handlers for st in h.body]
        ob("pvl_flavor:encodes-True-iff-dumps-returned", "encodes = True" in assigns and "encodes = False" in assigns)
        ob("pvl_flavor:loads-True-set-right-after-pvl.loads-returns",
           [ast.unparse(st) for st in outer[0].body[:2]] == ["some_pvl = pvl.loads(text, **decenc)", "loads = True"])
    # pvl_validate.main: every dialect row is computed by its own unconditional pvl_flavor call
    fn = prog.functions["pvl.pvl_validate.main"]
    calls = [n for n in ast.walk(fn) if isinstance(n, ast.Call) and isinstance(n.func, ast.Name) and n.func.id == "pvl_flavor"]
    loops = [n for n in ast.walk(fn) if isinstance(n, ast.For) and ast.unparse(n.iter) == "dialects.items()"]
    ok = (len(calls) == 1 and len(loops) == 1 and len(loops[0].body) == 1 and isinstance(loops[0].body[0], ast.Assign)
          and loops[0].body[0].value is calls[0] and ast.unparse(loops[0].body[0].targets[0]) == f"results[{ast.unparse(loops[0].target.elts[0])}]")
    ob("pvl_validate.main:one-unconditional-pvl_flavor-call-per-dialect-row(a-row's-verdict-depends-on-no-other-row)", ok,
       [ast.unparse(c)[:80] for c in calls])
    if calls:
        a = [ast.unparse(x) for x in calls[0].args]
        ob("pvl_validate.main:pvl_flavor-gets-the-file's-text-and-the-row's-own-dialect-table", a[:3] == ["pvl_text", "k", "v"], a)
    return s


def run(ctx):
    return [wiring_section()] + drv.sections(ctx)


def replay(data):
    return drv.replay(data)
