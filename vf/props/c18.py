"""C18 — type-customisation hooks apply uniformly at every depth.

Deductive core: allocation-site obligations over the real ASTs of parser.py and decoder.py -
the only expression that can produce a real number is `self.real_cls(str(value))` in
decode_decimal, the only quantity construction is `self.quantity_cls(value, str(unit))`, the only
container constructions are `self.modcls()`, `self.grpcls()`, `self.objcls()`; no literal float(),
Decimal(), Quantity(), PVLModule(), PVLGroup(), PVLObject() is called anywhere a value is built.
Depth-uniformity is then structural: every value of a sequence, set, units expression or nested
block is produced by parse_value -> decode_simple_value (C06's call graph), and every block by
aggregation_cls.  "Changes nothing else" needs the decoders' acceptance to be independent of the
classes - the ODL units guard must test the *configured* real class.
"""
import ast
import time

from ..harness import Section, DISCHARGED, FAILED
from ..pyvc.frame import call_sites
from ..pyvc.source import Program, module_ast
from ..rtc import c18_type_hooks as drv
from .lexeme import decoder_section

VALUE_MODS = ["pvl.parser", "pvl.decoder"]
FORBIDDEN = {"float", "Decimal", "Fraction", "Quantity", "Units", "PVLModule", "PVLGroup", "PVLObject",
             "PVLAggregation", "OrderedMultiDict", "PVLModuleNew", "PVLGroupNew", "PVLObjectNew", "dict", "complex"}


def alloc_section():
    s = Section("allocation-sites", "frame", rule="one obligation per constructor-like call site in parser.py and decoder.py")

    def ob(name, ok, detail="", fn=""):
        s.obl(name, DISCHARGED if ok else FAILED, "frame", detail=str(detail), function=fn)

    for mod in VALUE_MODS:
        sites = call_sites(mod, FORBIDDEN)
        # calls inside __init__ defaults are configuration, not value construction
        bad = [c for c in sites if not c[0].endswith("__init__")]
        ob(f"{mod}:no-literal-number-quantity-or-container-constructor-call", not bad,
           "; ".join(f"{c[0]} line {c[2]}: {c[3]}" for c in bad[:6]))
    # real numbers
    rc = call_sites("pvl.decoder", {"real_cls"}) + call_sites("pvl.parser", {"real_cls"})
    ob("real_cls:called-only-in-decode_decimal", bool(rc) and all(c[0] == "PVLDecoder.decode_decimal" for c in rc),
       [(c[0], c[3]) for c in rc], "pvl.decoder.PVLDecoder.decode_decimal")
    ob("real_cls:argument-is-str(value)-the-token-text", bool(rc) and all(ast.unparse(c[4]) == "self.real_cls(str(value))" for c in rc),
       [c[3] for c in rc], "pvl.decoder.PVLDecoder.decode_decimal")
    prog = Program(["pvl.decoder"])
    ci, fn = prog.function("pvl.decoder.PVLDecoder.decode_decimal")
    # shape of decode_decimal: int first, then the configured class; nothing rewrites `value`
    stores = [n for n in ast.walk(fn) if isinstance(n, ast.Name) and isinstance(n.ctx, ast.Store) and n.id == "value"]
    ob("decode_decimal:value-not-rewritten", not stores, fn="pvl.decoder.PVLDecoder.decode_decimal")
    rets = [ast.unparse(n.value) for n in ast.walk(fn) if isinstance(n, ast.Return)]
    ob("decode_decimal:returns-int(value, base=10)-or-real_cls(str(value))",
       sorted(rets) == sorted(["int(value, base=10)", "self.real_cls(str(value))"]), rets, "pvl.decoder.PVLDecoder.decode_decimal")
    for sub in ("ODLDecoder", "PDSLabelDecoder", "OmniDecoder"):
        dcls, node = prog.find_method(sub, "decode_decimal")
        ob(f"{sub}.decode_decimal:inherited-from-PVLDecoder", dcls == "PVLDecoder")
    # quantities
    qc = call_sites("pvl.decoder", {"quantity_cls"}) + call_sites("pvl.parser", {"quantity_cls"})
    ob("quantity_cls:called-only-in-decode_quantity", bool(qc) and all(c[0] == "PVLDecoder.decode_quantity" for c in qc), [(c[0], c[3]) for c in qc])
    ob("quantity_cls:arguments-are-(value, str(unit))", bool(qc) and all(ast.unparse(c[4]) == "self.quantity_cls(value, str(unit))" for c in qc))
    dq = call_sites("pvl.parser", {"decode_quantity"})
    ob("decode_quantity:called-only-from-parse_units", bool(dq) and all(c[0].endswith(".parse_units") for c in dq), [(c[0], c[3]) for c in dq])
    # containers
    cc_ = call_sites("pvl.parser", {"modcls", "grpcls", "objcls"})
    want = {("PVLParser.parse_module", "modcls"), ("PVLParser.aggregation_cls", "grpcls"), ("PVLParser.aggregation_cls", "objcls")}
    got = {(c[0], c[1]) for c in cc_}
    ob("containers:constructed-only-by-modcls()/grpcls()/objcls()-at-the-three-sites", got == want, sorted(got))
    ob("containers:constructed-without-arguments", all(not c[4].args and not c[4].keywords for c in cc_))
    # the ODL units guard must use the configured real class (taken from the property: "changes nothing else")
    progp = Program(["pvl.parser"])
    ci, fn = progp.function("pvl.parser.ODLParser.parse_units")
    # (wherever the test is written: in the `if`, or in a named boolean the `if` uses)
    # the class argument may be written out or be a local assigned once from self.decoder.real_cls
    stores = {}
    for n in ast.walk(fn):
        if isinstance(n, ast.Name) and isinstance(n.ctx, ast.Store):
            stores[n.id] = stores.get(n.id, 0) + 1
    alias = {n.targets[0].id for n in ast.walk(fn) if isinstance(n, ast.Assign) and len(n.targets) == 1
             and isinstance(n.targets[0], ast.Name) and stores.get(n.targets[0].id) == 1
             and ast.unparse(n.value) == "self.decoder.real_cls"}

    def names_real_cls(e):
        return any(ast.unparse(x) == "self.decoder.real_cls" or (isinstance(x, ast.Name) and x.id in alias) for x in ast.walk(e))
    calls = [n for n in ast.walk(fn) if isinstance(n, ast.Call) and isinstance(n.func, ast.Name)
             and n.func.id == "isinstance" and len(n.args) == 2 and ast.unparse(n.args[0]) == "value"]
    tests = [ast.unparse(n) for n in calls]
    ob("ODLParser.parse_units:numeric-guard-includes-the-configured-real_cls",
       any(names_real_cls(n.args[1]) for n in calls), tests, "pvl.parser.ODLParser.parse_units")
    # the caller's decoder object is used as given (a rebuilt decoder would lose real_cls / quantity_cls)
    ci, fn = progp.function("pvl.parser.PVLParser.__init__")
    assigns = sorted(ast.unparse(n.value) for n in ast.walk(fn) if isinstance(n, ast.Assign)
                     and ast.unparse(n.targets[0]) == "self.decoder")
    ob("PVLParser.__init__:self.decoder-is-the-given-decoder-or-the-default-OmniDecoder(grammar=self.grammar)",
       assigns == sorted(["decoder", "OmniDecoder(grammar=self.grammar)"]), assigns, "pvl.parser.PVLParser.__init__")
    for cls in ("ODLParser", "OmniParser"):
        d, f2 = progp.find_method(cls, "__init__")
        ob(f"{cls}.__init__:inherited-from-PVLParser", d == "PVLParser")
    stores = [(c[0], c[3]) for c in call_sites("pvl.parser", {"PVLDecoder", "ODLDecoder", "PDSLabelDecoder", "OmniDecoder", "type"})
              if not (c[0] == "PVLParser.__init__" and c[1] == "OmniDecoder")]
    bad = [x for x in stores if x[1].startswith(("type(decoder)", "type(self.decoder)", "PVLDecoder(", "ODLDecoder(",
                                                  "PDSLabelDecoder(", "OmniDecoder("))]
    ob("pvl.parser:no-other-decoder-construction", not bad, bad)
    for mod, fnname in (("pvl", "loads"), ("pvl.new", "loads")):
        pr = Program([mod])
        f3 = pr.functions[f"{mod}.loads"]
        calls = [c for c in ast.walk(f3) if isinstance(c, ast.Call) and ast.unparse(c.func) == "OmniParser"]
        ok = len(calls) == 1 and any(k.arg == "decoder" and ast.unparse(k.value) == "decoder" for k in calls[0].keywords) \
            and any(k.arg == "grammar" and ast.unparse(k.value) == "grammar" for k in calls[0].keywords)
        ob(f"{mod}.loads:passes-the-caller's-grammar-and-decoder-on-unchanged", ok)
    # every value flows through decode_simple_value
    dv = call_sites("pvl.parser", {"decode_simple_value", "decode_decimal", "decode_non_decimal", "decode_datetime",
                                   "decode_quoted_string", "decode_unquoted_string", "decode"})
    ob("parser:values-only-through-decoder.decode_simple_value", bool(dv) and all(c[1] == "decode_simple_value" and
                                                                                 c[0] == "PVLParser.parse_value" for c in dv),
       [(c[0], c[1]) for c in dv])
    s.assumptions += ["call-site enumeration is syntactic over parser.py/decoder.py; values built by third-party quantity classes are theirs",
                      "EmptyValueAtLine placeholders and leap-second strings are str by design (not subject to the hooks)",
                      "PDSLabelDecoder.__init__ takes no real_cls (documented limitation of that class; observed, not a violation of uniformity)"]
    return s


def run(ctx):
    return [alloc_section(), decoder_section(ctx)] + drv.sections(ctx)


def replay(data):
    return drv.replay(data)
