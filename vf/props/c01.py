"""C01 - see DESIGN.md §3; bounded driver vf/rtc/c01_strict_roundtrip.py plus the deductive sections in vf/props/lexeme.py."""
from ..rtc import c01_strict_roundtrip as drv
from . import lexeme


def run(ctx):
    return lexeme.sections_for("C01", ctx) + drv.sections(ctx)


def replay(data):
    if lexeme.is_token_record(data):
        return lexeme.replay_token("C01", data)
    if lexeme.is_time_record(data):
        return lexeme.replay_time("C01", data)
    if lexeme.is_encoder_record(data):
        return lexeme.replay_encoder("C01", data)
    return drv.replay(data)
