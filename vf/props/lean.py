"""Thorough tier: re-check lean/SeqAx.lean and tie its theorem names to the SMT axioms in use."""
import os
import re
import subprocess
import time

from ..harness import Section, DISCHARGED, FAILED, UNDECIDED, ROOT

# SMT axiom (seqtheory.axiom_list / instance lemmas)  ->  Lean theorem that proves it
AXIOM_TO_THEOREM = {
    "proj(empty)": "proj_nil", "proj(unit)": "proj_unit", "proj(a++b)": "proj_append",
    "dropk(empty)": "dropk_nil", "dropk(unit)": "dropk_unit", "dropk(a++b)": "dropk_append",
    "keys(empty)": "keys_nil", "vals(empty)": "vals_nil", "keys(unit)": "keys_unit", "vals(unit)": "vals_unit",
    "keys(a++b)": "keys_append", "vals(a++b)": "vals_append",
    "pos(empty)": "pos_nil", "pos(unit)": "pos_unit", "pos(a++b)": "pos_append",
    "proj(dropk(a,k),k)=empty": "proj_dropk_same", "k!=k2 => proj(dropk(a,k),k2)=proj(a,k2)": "proj_dropk_other",
    "len(proj(a,k))=0 => dropk(a,k)=a": "dropk_of_proj_empty", "len(dropk)<=len": "length_dropk_le",
    "len(proj)<=len": "length_proj_le", "len(keys)=len": "length_keys", "len(vals)=len": "length_vals",
    "keys(a)[i]=fst(a[i])": "keys_get", "vals(a)[i]=snd(a[i])": "vals_get",
    "mem(empty)": "mem_nil", "mem(unit)": "mem_unit", "mem(a++b)": "mem_append",
    "memV(proj(a,k),v)=memP(a,(k,v))": "memV_proj", "memK(keys(a),k)=len(proj(a,k))>0": "memK_keys",
    "setspec absent": "setspec_absent", "setspec present (instance lemma)": "setspec_present",
    "proj first (instance lemma)": "proj_first", "foldset(a,empty)": "foldset_nil", "foldset(a,b++[p])": "foldset_snoc",
}


def lean_section():
    s = Section("lean-sequence-lemmas", "lean",
                rule="every axiom of the SMT sequence theory is a theorem of lean/SeqAx.lean; the file is re-checked")
    path = os.path.join(ROOT, "lean", "SeqAx.lean")
    t0 = time.time()
    src = open(path).read()
    code = re.sub(r"/-.*?-/", "", src, flags=re.S)
    code = re.sub(r"--.*", "", code)
    bad_words = [w for w in ("sorry", "axiom", "native_decide", "admit") if re.search(r"(^|\s)" + w + r"(\s|$)", code)]
    s.obl("lean/SeqAx.lean:no-sorry-axiom-native_decide", DISCHARGED if not bad_words else FAILED, "lean", detail=str(bad_words))
    try:
        r = subprocess.run(["lean", "SeqAx.lean"], cwd=os.path.dirname(path), capture_output=True, text=True, timeout=900)
        out = (r.stdout + r.stderr).strip()
        ok = r.returncode == 0 and "error" not in out
        s.obl("lean/SeqAx.lean:checks", DISCHARGED if ok else FAILED, "lean", time.time() - t0, out[-1500:])
    except (subprocess.TimeoutExpired, FileNotFoundError) as e:
        s.obl("lean/SeqAx.lean:checks", UNDECIDED, "lean", time.time() - t0, repr(e))
    theorems = set(re.findall(r"^theorem\s+(\w+)", src, re.M))
    for ax, th in sorted(AXIOM_TO_THEOREM.items()):
        s.obl(f"axiom[{ax}]:proved-as:{th}", DISCHARGED if th in theorems else FAILED, "lean")
    # every axiom object of the SMT prelude is accounted for
    from ..pyvc.seqtheory import axiom_list
    n_ax = len(axiom_list())
    s.notes.append(f"{n_ax} quantified axioms in the SMT prelude (incl. clamp/start definitions, which are definitional), "
                   f"{len(AXIOM_TO_THEOREM)} statements mapped, {len(theorems)} theorems in the file")
    s.assumptions.append("Lean 4.33.0 kernel; the correspondence between an SMT axiom and the Lean statement is by reading "
                         "(table in vf/props/lean.py)")
    s.seconds = time.time() - t0
    return s
