"""C07 - see DESIGN.md §3; bounded driver vf/rtc/c07_load_dump_load.py plus the deductive sections in vf/props/lexeme.py."""
from ..rtc import c07_load_dump_load as drv
from . import lexeme


def run(ctx):
    return lexeme.sections_for("C07", ctx) + drv.sections(ctx)


def replay(data):
    if lexeme.is_token_record(data):
        return lexeme.replay_token("C07", data)
    if lexeme.is_encoder_record(data):
        return lexeme.replay_encoder("C07", data)
    return drv.replay(data)
