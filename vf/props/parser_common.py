"""Shared deductive sections for the parser properties (C06, C05, C09, C08)."""
import ast
import time

from ..harness import Section, DISCHARGED, FAILED
from ..pyvc.verify import verify_contracts
from ..pyvc.toktheory import TokTheory
from ..pyvc.source import Program
from ..contracts import parser as cp

ASSUMPTIONS = [
    "pyvc encoding of the Python subset (try/except with the real exception lattice incl. LexerError <: ValueError, "
    "for/else, generator protocol as modelled in T_tok)",
    "token-stream ghost model: an arbitrary token sequence with an arbitrary lexer-failure index; token predicates "
    "(is_WSC, is_parameter_name, is_begin_aggregation, is_end_statement, is_delimiter) are uninterpreted",
    "decoder.decode_simple_value raises only ValueError and decode_quantity does not raise for the default Quantity class "
    "(assumed here; bounded-checked by the C06 and C17 drivers)",
    "frozenset()/set() of parsed elements may raise TypeError (modelled); container classes' append/pop/len behave as "
    "proved in C10",
    "the lexer itself (character-level tokenisation) is not proved: its LexerError-only closure is the C15 loop obligation "
    "plus the bounded string enumeration",
    "RecursionError for very deep nesting is out of scope by the property's own words",
    "z3 unsat answers",
]


def parser_section(ctx, name="parser-contracts"):
    s = Section(name, "smt",
                rule="27 parser method bodies x contract clauses (permitted exits, stream post-states, send/throw protocol "
                     "obligations at every call site, loop invariants and variants), one query per path and clause")
    t0 = time.time()
    verify_contracts(s, cp.contracts(), TokTheory, ["pvl.parser", "pvl.exceptions"], jobs=ctx.jobs)
    s.assumptions += ASSUMPTIONS
    s.seconds = time.time() - t0
    return s


def protocol_section():
    """The generator facts T_tok relies on, re-observed on the real pvl.lexer.lexer every run."""
    import pvl.lexer as L
    from pvl.exceptions import LexerError
    s = Section("lexer-generator-protocol", "ground",
                rule="each modelled fact of the send/throw protocol replayed on the real generator")

    def ob(name, ok, detail=""):
        s.obl("pvl.lexer.lexer:" + name, DISCHARGED if ok else FAILED, "ground", detail=str(detail))

    g = L.lexer("a = b c")
    t = next(g)
    r = g.send(t)
    ob("send-returns-None-and-next-redelivers-the-token", r is None and next(g) == t and next(g) == "=")
    g = L.lexer("a = b c")
    t1 = next(g)
    g.send(t1)
    g.send("X")                 # second send without an intervening next
    rest = list(g)
    ob("double-send-loses-tokens(protocol-precondition-is-necessary)", "a" not in rest or "X" not in rest, rest)
    g = L.lexer("a = b")
    next(g)
    try:
        g.throw(ValueError, "msg")
        ob("throw-on-suspended-generator-raises-LexerError", False, "no exception")
    except LexerError:
        ob("throw-on-suspended-generator-raises-LexerError", True)
    except Exception as e:
        ob("throw-on-suspended-generator-raises-LexerError", False, repr(e))
    try:
        next(g)
        ob("generator-finished-after-throw", False)
    except StopIteration:
        ob("generator-finished-after-throw", True)
    g = L.lexer("a")
    list(g)
    for what, fn in (("throw-on-finished-generator-raises-the-plain-ValueError", lambda: g.throw(ValueError, "m")),):
        try:
            fn()
            ob(what, False)
        except LexerError:
            ob(what, False, "LexerError")
        except ValueError:
            ob(what, True)
    g = L.lexer("a = 1")
    try:
        g.throw(ValueError, "m")
        ob("throw-on-unstarted-generator-raises-the-plain-ValueError", False)
    except LexerError:
        ob("throw-on-unstarted-generator-raises-the-plain-ValueError", False, "LexerError")
    except ValueError:
        ob("throw-on-unstarted-generator-raises-the-plain-ValueError", True)
    g = L.lexer("a")
    list(g)
    try:
        g.send("x")
        ob("send-on-finished-generator-raises-StopIteration", False)
    except StopIteration:
        ob("send-on-finished-generator-raises-StopIteration", True)
    # structural: every yield of the lexer is inside its try (so a throw at any yield is converted)
    prog = Program(["pvl.lexer"])
    fn = prog.functions["pvl.lexer.lexer"]
    tries = [n for n in ast.walk(fn) if isinstance(n, ast.Try)]
    inside = {id(x) for t in tries for st in t.body for x in ast.walk(st)}
    ys = [n for n in ast.walk(fn) if isinstance(n, ast.Yield)]
    ob("every-yield-is-inside-the-try-that-converts-ValueError", bool(ys) and all(id(y) in inside for y in ys))
    return s


def returned_exprs(fn):
    """The sorted distinct expressions a function returns, with every local that is assigned exactly once (a plain
    `name = expr`, not a parameter, not a loop / with / except target) replaced by its defining expression: the obligation on
    what is returned does not depend on how many temporaries the code uses."""
    params = {a.arg for a in fn.args.args + fn.args.kwonlyargs + fn.args.posonlyargs}
    if fn.args.vararg:
        params.add(fn.args.vararg.arg)
    if fn.args.kwarg:
        params.add(fn.args.kwarg.arg)
    stores = {}
    for n in ast.walk(fn):
        if isinstance(n, ast.Name) and isinstance(n.ctx, (ast.Store, ast.Del)):
            stores[n.id] = stores.get(n.id, 0) + 1
        if isinstance(n, ast.ExceptHandler) and n.name:
            stores[n.name] = stores.get(n.name, 0) + 2
    defs = {}
    for n in ast.walk(fn):
        if (isinstance(n, ast.Assign) and len(n.targets) == 1 and isinstance(n.targets[0], ast.Name)
                and stores.get(n.targets[0].id) == 1 and n.targets[0].id not in params):
            defs[n.targets[0].id] = n.value

    class Sub(ast.NodeTransformer):
        depth = 0

        def visit_Name(self, node):
            if isinstance(node.ctx, ast.Load) and node.id in defs and self.depth < 20:
                self.depth += 1
                try:
                    return self.visit(ast.parse(ast.unparse(defs[node.id]), mode="eval").body)
                finally:
                    self.depth -= 1
            return node
    out = {}
    for n in ast.walk(fn):
        if isinstance(n, ast.Return) and n.value is not None:
            e = Sub().visit(ast.parse(ast.unparse(n.value), mode="eval").body)
            out[ast.unparse(e)] = e
    return [out[k] for k in sorted(out)]


def returned_forms(fn):
    return [ast.unparse(e) for e in returned_exprs(fn)]


def entry_section():
    """C09/C06 entry functions: structural obligations on pvl/__init__.py."""
    s = Section("entry-points", "frame", rule="loads/dump/dumps wiring in pvl/__init__.py (and pvl/new.py)")
    for mod in ("pvl", "pvl.new"):
        prog = Program([mod])

        def ob(name, ok, detail=""):
            s.obl(f"{mod}.{name}", DISCHARGED if ok else FAILED, "frame", detail=str(detail), function=f"{mod}.{name.split(':')[0]}")

        fn = prog.functions.get(f"{mod}.loads")
        rets = returned_exprs(fn)
        text = fn.args.args[0].arg

        def parse_call(e):
            # <parser>.parse(<the text>) where <parser> is the parser argument or a parser constructed here
            return (isinstance(e, ast.Call) and isinstance(e.func, ast.Attribute) and e.func.attr == "parse" and not e.keywords
                    and [ast.unparse(a) for a in e.args] == [text]
                    and (ast.unparse(e.func.value) == "parser" or (isinstance(e.func.value, ast.Call)
                                                                  and ast.unparse(e.func.value.func) == "OmniParser")))
        ob("loads:returns-parser.parse(s)-only", bool(rets) and all(parse_call(e) for e in rets), [ast.unparse(e) for e in rets])
        calls = [ast.unparse(c.func) for c in ast.walk(fn) if isinstance(c, ast.Call)]
        ob("loads:default-parser-is-OmniParser", "OmniParser" in calls, calls)
        fn = prog.functions.get(f"{mod}.dump")
        # every return of dump() is the count reported by one write of exactly dumps(module, **kwargs) (directly, or through
        # names assigned once), as text or as its UTF-8 encoding
        rets = returned_exprs(fn)

        def dumped(e):
            if isinstance(e, ast.IfExp):
                return dumped(e.body) and dumped(e.orelse)
            if isinstance(e, ast.Call) and isinstance(e.func, ast.Attribute) and e.func.attr == "encode" and not e.args and not e.keywords:
                return dumped(e.func.value)
            return ast.unparse(e) == "dumps(module, **kwargs)"

        def write_call(e):
            if not (isinstance(e, ast.Call) and isinstance(e.func, ast.Attribute) and len(e.args) == 1 and not e.keywords and dumped(e.args[0])):
                return None
            target = (e.func.attr, ast.unparse(e.func.value))
            return target if target in (("write_text", "Path(path)"), ("write", "path")) else None
        kinds = [write_call(e) for e in rets]
        ob("dump:writes-exactly-dumps()-and-returns-the-callee-count", bool(rets) and all(kinds) and ("write_text", "Path(path)") in kinds,
           [ast.unparse(e) for e in rets])
        fn = prog.functions.get(f"{mod}.dumps")
        rets = returned_exprs(fn)

        def encode_call(e):
            return (isinstance(e, ast.Call) and isinstance(e.func, ast.Attribute) and e.func.attr == "encode" and not e.keywords
                    and [ast.unparse(a) for a in e.args] == ["module"]
                    and (ast.unparse(e.func.value) == "encoder" or (isinstance(e.func.value, ast.Call)
                                                                   and ast.unparse(e.func.value.func) == "PDSLabelEncoder")))
        ob("dumps:returns-encoder.encode(module)-only", bool(rets) and all(encode_call(e) for e in rets), [ast.unparse(e) for e in rets])
    return s
