"""Deductive sections shared by the value-level properties (C01 C02 C03 C04 C07 C14 C17) and by
C06/C18: decoder and Token contracts (pyvc T_dec) and the regex-language obligations."""
import time

from ..harness import Section
from ..pyvc.verify import verify_contracts
from ..pyvc.dectheory import DecTheory
from ..contracts import decoder as cd

DEC_ASSUMPTIONS = [
    "acceptance languages of int(s, 10), real_cls(str), datetime.strptime per format family and re.fullmatch are "
    "uninterpreted predicates of the token text in these VCs (their languages: regex back end / bounded drivers)",
    "for_try_except(exc, f, *iterables): assumed contract (first successful application, else the exception class)",
    "ODLDecoder.is_identifier, Token.is_space/is_WSC/is_comment, OmniDecoder.decode_datetime (dateutil import inside the "
    "body): not under contract - bounded only",
    "grammar tables (comments, whitespace, reserved characters, keywords) are arbitrary finite collections of strings",
]


def decoder_section(ctx, name="decoder-and-token-contracts"):
    s = Section(name, "smt",
                rule="decode_* methods of the four decoder classes and the Token predicates: permitted exits (raises closure), "
                     "cascade priority of decode_simple_value, predicate == decoder acceptance")
    t0 = time.time()
    verify_contracts(s, cd.contracts(), DecTheory, ["pvl.decoder", "pvl.token"], jobs=ctx.jobs)
    s.assumptions += DEC_ASSUMPTIONS
    s.seconds = time.time() - t0
    return s


def sections_for(pid, ctx):
    out = []
    if pid in ("C17", "C03", "C14"):
        out.append(decoder_section(ctx))
    from . import regexsec
    out += regexsec.sections_for(pid, ctx)
    return out
