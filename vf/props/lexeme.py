"""Deductive sections shared by the value-level properties (C01 C02 C03 C04 C07 C14 C17):
filled in by the regex / decoder back ends (see DESIGN.md §2.5)."""


def sections_for(pid, ctx):
    return []
