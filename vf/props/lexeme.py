"""Deductive sections shared by the value-level properties (C01 C02 C03 C04 C07 C14 C17) and by
C06/C18: decoder and Token contracts (pyvc T_dec) and the regex-language obligations."""
import time

from ..harness import Section
from ..pyvc.verify import verify_contracts
from ..pyvc.dectheory import DecTheory
from ..contracts import decoder as cd

DEC_ASSUMPTIONS = [
    "acceptance languages of int(s, 10), real_cls(str), datetime.strptime per format family and re.fullmatch are "
    "uninterpreted predicates of the token text in these VCs (their languages: regex back end / bounded drivers)",
    "for_try_except(exc, f, *iterables): assumed in T_dec as 'first successful application, else the exception class'; discharged in T_enc "
    "(token-predicate-contracts) as 'the result on some tuple on which f returns, else the exception' - that it is the FIRST such tuple "
    "matters only if two formats of one family accept one text differently (families pairwise disjoint: regex obligations)",
    "Token.is_space/is_WSC, OmniDecoder.decode_datetime (dateutil import inside the body): not under contract - bounded only; "
    "ODLDecoder.is_identifier is an assumed signature in T_dec and discharged as a functional contract in T_enc (token-predicate-contracts)",
    "grammar tables (comments, whitespace, reserved characters, keywords) are arbitrary finite collections of strings",
]


def decoder_section(ctx, name="decoder-and-token-contracts"):
    s = Section(name, "smt",
                rule="decode_* methods of the four decoder classes and the Token predicates: permitted exits (raises closure), "
                     "cascade priority of decode_simple_value, predicate == decoder acceptance")
    t0 = time.time()
    verify_contracts(s, cd.contracts(), DecTheory, ["pvl.decoder", "pvl.token"], jobs=ctx.jobs)
    # ground facts on the live grammar objects that the decode_datetime contract speaks about (C14)
    import datetime as _dt
    import pvl.grammar as G
    from ..harness import DISCHARGED as _D, FAILED as _F
    for gname, gcls, want in (("PVL", G.PVLGrammar, _dt.timezone.utc), ("ODL", G.ODLGrammar, None), ("PDS3", G.PDSGrammar, _dt.timezone.utc),
                              ("ISIS", G.ISISGrammar, _dt.timezone.utc), ("Omni", G.OmniGrammar, _dt.timezone.utc)):
        gobj = gcls()
        fmts = list(gobj.date_formats) + list(gobj.time_formats) + list(gobj.datetime_formats)
        s.obl(f"pvl.grammar.{gcls.__name__}:no-strptime-format-carries-a-zone-directive", _D if fmts and not any("%z" in f or "%Z" in f for f in fmts) else _F,
              "ground", detail=str([f for f in fmts if "%z" in f or "%Z" in f]))
        s.obl(f"pvl.grammar.{gcls.__name__}:default_timezone-is-{'None (unmarked times stay naive)' if want is None else 'UTC'}",
              _D if gobj.default_timezone == want and (want is not None or gobj.default_timezone is None) else _F, "ground",
              detail=repr(gobj.default_timezone))
    s.assumptions += DEC_ASSUMPTIONS
    s.seconds = time.time() - t0
    return s


LEX_ASSUMPTIONS = [
    "strings are values of an uninterpreted sort (concatenation, length, character-at, substring uninterpreted; distinct "
    "literals distinct); the grammar and c_info tables are arbitrary finite sets / maps / pair lists of strings",
    "g.char_allowed(c), Token(text, grammar=g).is_numeric() and token.is_datetime() are total uninterpreted predicates of the text "
    "(their definitions: grammar table contracts of C15, decoder/Token contracts T_dec)",
    "pvl.lexer.lexer: a ONE-ITERATION contract of its main loop (loop-carried lexeme / preserve arbitrary at the head of an arbitrary "
    "iteration, preserve state invariant) - what one character does and when a token is yielded; that the yielded sequence as a whole "
    "is the token sequence of the text (an inductive claim over the loop) is not proved: bounded drivers; the send() protocol of the "
    "generator is observed natively (protocol section); pvl.lexer._prepare_comment_tuples: assumed to build consistent tables",
]


def lexer_sections(ctx, pid):
    """deductive: the per-character helpers of pvl/lexer.py against their contracts (T_lex);
    bounded: the same contract objects evaluated at run time on the real functions"""
    import random
    from ..pyvc.lextheory import LexTheory
    from ..pyvc import lexnative
    from ..contracts import lexer as cl
    s = Section("lexer-helper-contracts", "smt",
                rule="lex_preserve, lex_singlechar_comments, lex_multichar_comments, lex_comment, lex_char, lex_continue, "
                     "_prev_char, _next_char: result == spec function of the arguments, for arbitrary grammar tables; lexer(): per-character "
                     "step - a disallowed next character, white space, a reserved character or the end of the text ends the lexeme; nothing "
                     "is yielded for an empty lexeme or while a look-ahead exception / preserve state holds; a yield restarts the accumulation")
    t0 = time.time()
    contracts = cl.contracts()
    verify_contracts(s, contracts, LexTheory, ["pvl.lexer"], jobs=ctx.jobs)
    # one-iteration contract of the main loop of lexer() (the helpers above are its callees)
    verify_contracts(s, cl.loop_contracts(), LexTheory, ["pvl.lexer", "pvl.exceptions"], jobs=1, only="pvl.lexer.lexer")
    import pvl.grammar as _G
    from ..harness import DISCHARGED as _D, FAILED as _F
    for gcls in (_G.PVLGrammar, _G.ODLGrammar, _G.PDSGrammar, _G.ISISGrammar, _G.OmniGrammar):
        multi = [p for p in gcls().comments if len(p[0]) != 1]
        s.obl(f"pvl.grammar.{gcls.__name__}:multi-character-comments-are-the-supported-pair-only", _D if all(p == ("/*", "*/") for p in multi) else _F,
              "ground", detail=str(multi))
        import pvl.lexer as _L
        ci = _L._prepare_comment_tuples(gcls().comments)
        ok = (set(ci["multi_comments"]) == set(multi) and ci["single_comments"] == {p[0]: p[1] for p in gcls().comments if len(p[0]) == 1}
              and ci["multi_chars"] == {ch for p in multi for part in p for ch in part} and (not ci["multi_chars"] or len(ci["multi_comments"]) > 0)
              and ci["chars"] == set(ci["single_comments"]) | ci["multi_chars"])
        s.obl(f"pvl.lexer._prepare_comment_tuples({gcls.__name__}.comments):tables-consistent-with-the-grammar", _D if ok else _F, "ground",
              detail=repr(ci)[:200])
    s.assumptions += LEX_ASSUMPTIONS
    s.seconds = time.time() - t0
    # run-time evaluation of the same contracts (CPython cross-check of the modelling; failing-input search)
    r = Section("lexer-helper-runtime-contracts", "bounded", bounded=True,
                rule="the real helper is called on enumerated arguments and the contract's when/post formulas are evaluated "
                     "with every uninterpreted symbol interpreted by the real Python operation",
                bounds={"calls_per_function_and_grammar": 800 if not ctx.thorough else 20000,
                        "alphabet": "delimiter characters, white space, sign, digit, letter; lexemes <= 14 chars"})
    t1 = time.time()
    import pvl.lexer as L
    import pvl.grammar as G
    import pvl.decoder as D
    failed = {}
    for o in s.obls:
        if o.status == "failed":
            failed.setdefault(o.function, o.name)
    global _RT
    names = ("PVL", "ODL", "ISIS", "Omni")
    tasks = [(gn, i) for gn in names for i in range(len(contracts))]
    _RT = (contracts, ctx.seed, r.bounds["calls_per_function_and_grammar"], pid)
    import multiprocessing as mp
    with mp.get_context("fork").Pool(min(ctx.jobs, len(tasks))) as pool:
        outs = pool.map(_rt_task, tasks, chunksize=1)
    for (gname, i), (n, keys, sample, notes, bads) in zip(tasks, outs):
        r.merge_counts(n, keys, sample)
        r.notes += [x for x in notes if x not in r.notes][:3]
        for key, what, data in bads:
            r.violation(key, what, data, obligation=failed.get(contracts[i].target, ""), concrete=True)
    r.seconds = time.time() - t1
    return [s, r]


_RT = None


def _rt_task(task):
    import random
    import pvl.lexer as L
    import pvl.grammar as G
    import pvl.decoder as D
    from ..pyvc import lexnative
    gname, i = task
    contracts, seed, limit, pid = _RT
    gcls, dcls = {"PVL": (G.PVLGrammar, D.PVLDecoder), "ODL": (G.ODLGrammar, D.ODLDecoder),
                  "ISIS": (G.ISISGrammar, D.PVLDecoder), "Omni": (G.OmniGrammar, D.OmniDecoder)}[gname]
    g = gcls()
    d = dcls(grammar=g)
    c_info = L._prepare_comment_tuples(g.comments)
    c = contracts[i]
    fn_name = c.target.rsplit(".", 1)[1]
    fn = getattr(L, fn_name)
    rnd = random.Random(seed * 131 + i * 7 + len(gname))
    n, keys, sample, notes, bads = 0, set(), [], [], []
    for args in lexnative.domain(fn_name, g, d, c_info, rnd, limit):
        try:
            bad = lexnative.check_call(c, fn, fn_name, args, g, d, c_info)
        except KeyError as e:
            notes.append(f"run-time evaluation skipped a call of {fn_name}: {e!r}")
            continue
        n += 1
        keys.add((gname, fn_name, repr(args)[:200]))
        if len(sample) < 1:
            sample.append({"grammar": gname, "function": fn_name, "args": repr(args)[:200]})
        if bad and len(bads) < 3:
            what, data = bad
            bads.append((f"{pid}:lexer:{fn_name}:{gname}:{data.get('clause', data.get('raised', 'exit'))}",
                         f"{gname}: {what}", {"grammar": gname, "function": fn_name, "args": repr(args), **data}))
    return n, keys, sample, notes, bads


ENC_ASSUMPTIONS = [
    "strings are values of an uninterpreted sort; grammar tables are arbitrary finite sets of strings; Token(s, grammar=self.grammar, "
    "decoder=self.decoder).is_unquoted_string(), decoder.is_identifier(s), str.isprintable are uninterpreted predicates of the text "
    "(their definitions: T_dec / bounded drivers); a Token built with any other grammar/decoder arguments is a different predicate",
    "isinstance tests on a value of unknown type are uninterpreted type predicates; the only relation assumed is bool => numeric",
    "encode_set / encode_sequence / encode_datetype: signature contracts only (return a str or raise ValueError/TypeError); "
    "encode_time / encode_date / encode_units / format (text building with f-strings and textwrap): bounded drivers only",
    "search loops `for x in TABLE: if P(x): return/raise` and any()/all() over a table: the body is executed for an arbitrary member; "
    "after the loop `forall x in TABLE. not P(x)` is assumed, P read from the body on a bound variable - sound when the body is free "
    "of side effects (no assignment - checked - and the calls in P are the uninterpreted / contracted pure ones); nested loops keep "
    "contract-given fall-through / exit facts with the forall-closure as an obligation",
]


def encoder_sections(ctx, pid):
    """deductive: quoting decision / string rendering / value dispatch of the four encoders (T_enc);
    bounded: the same contract objects evaluated at run time on the real methods"""
    from ..pyvc.enctheory import EncTheory
    from ..pyvc import encnative
    from ..contracts import encoder as ce
    s = Section("encoder-quoting-contracts", "smt",
                rule="needs_quotes, encode_string, is_symbol (PVL/ODL/PDS3/ISIS receivers) == the quoting rule of the statement; "
                     "encode_simple_value dispatches by type in the order None, set, list, date/time, bool, number, str; encode_datetype "
                     "tests datetime before date; ODLEncoder.encode_assignment writes a statement only for a name of at most 30 "
                     "characters that is an (pointer / namespace) identifier; encode_aggregation_block writes '<begin keyword> = <name>', the body "
                     "one level deeper and the end statement of the same family (with the name when aggregation_end); PVLEncoder.encode "
                     "returns only texts whose characters are all allowed by the grammar; ODLEncoder.encode_sequence writes only non-empty, at most "
                     "two-dimensional sequences of scalars; sequences / sets / units are their content between the dialect's delimiters; "
                     "ODLEncoder.encode_value passes a quantity on only when its magnitude is a non-bool number; PVLEncoder.encode_assignment "
                     "appends a quoted value after the statement head was laid out (never wrapped) and lays any other value out with the head")
    t0 = time.time()
    contracts = ce.quoting_contracts()
    verify_contracts(s, contracts, EncTheory, ["pvl.encoder"], jobs=ctx.jobs)
    # date/time dispatch (a datetime is also a date) and ODL parameter-name refusal; own registry: other callee signatures
    verify_contracts(s, ce.dispatch_contracts(), EncTheory, ["pvl.encoder"], jobs=ctx.jobs)
    # the final character-set sweep of PVLEncoder.encode
    verify_contracts(s, ce.sweep_contracts(), EncTheory, ["pvl.encoder"], jobs=2)
    # begin / end statements of a block
    verify_contracts(s, ce.block_contracts(), EncTheory, ["pvl.encoder"], jobs=3)
    # ODL sequence restrictions (nested search loops over the elements) and the text wiring of sequences / sets / units
    verify_contracts(s, ce.collection_contracts(), EncTheory, ["pvl.encoder"], jobs=2)
    verify_contracts(s, ce.wiring_contracts(), EncTheory, ["pvl.encoder"], jobs=2)
    # quantities: dispatch (PVL/ISIS) and 'units only after numbers' (ODL/PDS3): search loops over the quantity-class records
    verify_contracts(s, ce.units_contracts(), EncTheory, ["pvl.encoder"], jobs=2)
    verify_contracts(s, ce.odl_units_contracts(), EncTheory, ["pvl.encoder"], jobs=2)
    # the assignment statement: quoted values bypass the line wrapping
    verify_contracts(s, ce.assignment_contracts(), EncTheory, ["pvl.encoder"], jobs=4)
    s.assumptions += ENC_ASSUMPTIONS
    s.seconds = time.time() - t0
    r = Section("encoder-quoting-runtime-contracts", "bounded", bounded=True,
                rule="the real method is called on a catalogue of strings / values and the contract's when/post formulas are evaluated "
                     "with every uninterpreted symbol interpreted by the real Python operation",
                bounds={"strings": len(encnative.STRINGS), "values": len(encnative.VALUES), "encoders": 7})
    t1 = time.time()
    import pvl.encoder as M
    failed = {}
    for o in s.obls:
        if o.status == "failed":
            failed.setdefault(o.function, o.name)
    for label, enc in encnative.encoders():
        mro = [c.__name__ for c in type(enc).__mro__]
        for c in contracts:
            if c.assumed or c.fn is None:
                continue
            static_cls, mname = c.target.split(".")[-2:]
            if static_cls not in mro:
                continue
            pname = [a.arg for a in c.fn.args.args if a.arg != "self"][0]
            pool = encnative.STRINGS if c.params.get(pname) == "str" else encnative.STRINGS + encnative.VALUES
            for v in pool:
                try:
                    bad = encnative.check_method(c, enc, label, static_cls, mname, v)
                except KeyError as e:
                    r.notes.append(f"run-time evaluation skipped {static_cls}.{mname}: {e!r}") if len(r.notes) < 5 else None
                    continue
                r.case(distinct_key=(label, static_cls, mname, repr(v)[:60]),
                       sample={"encoder": label, "method": f"{static_cls}.{mname}", "value": repr(v)[:60]})
                if bad:
                    what, data = bad
                    r.violation(f"{pid}:encoder:{static_cls}.{mname}:{label}:{data.get('clause', data.get('raised', 'exit'))}",
                                what, {"encoder": label, "function": f"pvl.encoder.{static_cls}.{mname}", "value": repr(v), **data},
                                obligation=failed.get(c.target, ""), concrete=True)
    r.seconds = time.time() - t1
    return [s, r]


def sweep_section(ctx):
    """C15 / C12: PVLEncoder.encode returns a text only if every character of it is allowed by the encoder's grammar"""
    from ..pyvc.enctheory import EncTheory
    from ..contracts import encoder as ce
    s = Section("encoder-character-sweep", "smt",
                rule="PVLEncoder.encode (PVL / ISIS receivers): the returned text is the text that was swept, and the sweep lets a text "
                     "through only if grammar.char_allowed holds for every character (search-loop rule over the characters)")
    t0 = time.time()
    verify_contracts(s, ce.sweep_contracts(), EncTheory, ["pvl.encoder"], jobs=2)
    s.assumptions += [ENC_ASSUMPTIONS[0], "encode_module: signature only; ODLEncoder.encode / PDSLabelEncoder.encode append the configured "
                      "newline / replace tabs after the sweep (their line end is a constructor argument: bounded conformance reader)"]
    s.seconds = time.time() - t0
    return s


def based_int_section(ctx):
    from ..pyvc.timetheory import BasedIntTheory
    from ..contracts import encoder as ce
    from ..harness import DISCHARGED as _D, FAILED as _F
    import pvl.grammar as G
    s = Section("based-integer-decoder-contracts", "smt",
                rule="decode_non_decimal of PVLDecoder / ODLDecoder / OmniDecoder: the value is int(<sign><digits>, base=int(<radix>)) of the "
                     "groups of the pattern that matches; Omni takes the sign from the position that is written and refuses both; no "
                     "KeyError can leave them")
    t0 = time.time()
    verify_contracts(s, ce.based_int_contracts(), BasedIntTheory, ["pvl.decoder"], jobs=3)
    for gname, gcls, res in (("PVL", G.PVLGrammar, ("binary_re", "octal_re", "hex_re")), ("ISIS", G.ISISGrammar, ("binary_re", "octal_re", "hex_re")),
                             ("ODL", G.ODLGrammar, ("nondecimal_re",)), ("PDS3", G.PDSGrammar, ("nondecimal_re",)),
                             ("Omni", G.OmniGrammar, ("nondecimal_re",))):
        for rn in res:
            groups = set(getattr(gcls, rn).groupindex)
            s.obl(f"pvl.grammar.{gcls.__name__}.{rn}:defines-the-groups-sign-radix-non_decimal", _D if {"sign", "radix", "non_decimal"} <= groups else _F,
                  "ground", detail=str(sorted(groups)))
    s.assumptions += ["int(text, base=b) / int(text): uninterpreted acceptance and value functions (languages: regex obligations based:*)",
                      "the match groups are symbolic texts; groupdict('') gives '' for a group that did not take part"]
    s.seconds = time.time() - t0
    return s


def token_sections(ctx, pid):
    from ..pyvc.enctheory import EncTheory
    from ..contracts import encoder as ce
    s = Section("token-predicate-contracts", "smt",
                rule="Token.is_unquoted_string / is_parameter_name / is_numeric / is_string / is_begin_aggregation / is_end_statement / "
                     "is_delimiter / is_comment / is_decimal / is_non_decimal / is_datetime / is_quoted_string / is_simple_value == their "
                     "definitions over the grammar tables and the decoder's acceptance predicates; decode_unquoted_string returns the text "
                     "exactly when it has no comment delimiter, white space or reserved character, is no aggregation keyword or end "
                     "statement in any letter case and does not decode as a date/time (ODL family: and is an identifier); is_identifier; "
                     "for_try_except")
    t0 = time.time()
    s_contracts = ce.token_contracts()
    verify_contracts(s, s_contracts, EncTheory, ["pvl.token"], jobs=ctx.jobs)
    # ODLDecoder.is_identifier (a character loop): assumed in T_dec, discharged here with the search-loop rule over the characters
    verify_contracts(s, ce.identifier_contracts(), EncTheory, ["pvl.decoder"], jobs=1)
    # the decoder's own definition of the unquoted-string class (PVL and ODL families)
    verify_contracts(s, ce.unquoted_contracts(), EncTheory, ["pvl.decoder"], jobs=4)
    # pvl.decoder.for_try_except (assumed contract in T_dec): search loop over the zipped tuples
    verify_contracts(s, ce.for_try_except_contracts(), EncTheory, ["pvl.decoder"], jobs=1)
    s.assumptions += [ENC_ASSUMPTIONS[0], ENC_ASSUMPTIONS[3],
                      "decoder.decode_X(token) returns or raises ValueError as decided by one uninterpreted predicate per method "
                      "(which exceptions can leave a decoder method: T_dec); Token.is_space / is_WSC / __index__ / __float__ are not under contract"]
    s.seconds = time.time() - t0
    # run-time evaluation of the same contracts on real Tokens
    from ..pyvc import encnative
    import pvl.grammar as G
    import pvl.decoder as D
    r = Section("token-predicate-runtime-contracts", "bounded", bounded=True,
                rule="the real Token predicate is called on a catalogue of texts and the contract's post formula is evaluated with "
                     "every uninterpreted symbol interpreted by the real Python operation",
                bounds={"texts": len(encnative.STRINGS) + len(TOKEN_TEXTS), "grammar/decoder pairs": 5})
    t1 = time.time()
    failed = {}
    for o in s.obls:
        if o.status == "failed":
            failed.setdefault(o.function, o.name)
    contracts = [c for c in s_contracts if c.fn is not None]
    for gname, gcls, dcls in (("PVL", G.PVLGrammar, D.PVLDecoder), ("ODL", G.ODLGrammar, D.ODLDecoder), ("PDS3", G.PDSGrammar, D.PDSLabelDecoder),
                              ("ISIS", G.ISISGrammar, D.PVLDecoder), ("Omni", G.OmniGrammar, D.OmniDecoder)):
        g = gcls()
        d = dcls(grammar=g)
        for c in contracts:
            for text in encnative.STRINGS + TOKEN_TEXTS:
                try:
                    bad = encnative.check_token(c, g, d, text)
                except KeyError as e:
                    if len(r.notes) < 5:
                        r.notes.append(f"run-time evaluation skipped {c.target}: {e!r}")
                    continue
                r.case(distinct_key=(gname, c.target, text[:40]), sample={"grammar": gname, "predicate": c.target, "text": text[:40]})
                if bad:
                    what, data = bad
                    r.violation(f"{pid}:token:{c.target.rsplit('.', 1)[1]}:{gname}:{data.get('clause', 'raised')[:40]}", f"{gname}: {what}",
                                {"grammar": gname, "function": c.target, "text": text, **data}, obligation=failed.get(c.target, ""),
                                concrete=True)
    r.seconds = time.time() - t1
    return [s, r]


TOKEN_TEXTS = ["/* c */", "/* c", "# c\n", "# c", "#", "*/", "GROUP", "end_object", "Begin_Group", "END", ";", "=", "(", "{", "<", "a<b",
               "2#1#", "+16#ff#", "1e5", ".5", "2001-366", "12:00:60Z", "2001-01-01T12:00+01:00", "a/*b", "x*/", "\t", " ", "a;b"]


TIME_ASSUMPTIONS = [
    "float arithmetic on the zone offset (abs, divmod, /, round, int) is treated as real arithmetic",
    "a zone is a fixed offset: value.tzinfo.utcoffset(None) == value.utcoffset(); |offset| < 24 h",
    "strftime renders the fields it is given (%H %M %S %f two/six digits) - the format strings are compared literally; "
    "encode_date / encode_datetime (calendar fields) and the decoder side of the instant are bounded (C14 driver)",
]


def time_sections(ctx, pid):
    from ..pyvc.timetheory import TimeTheory
    from ..contracts import encoder as ce
    s = Section("encoder-time-contracts", "smt",
                rule="encode_time of PVLEncoder / ODLEncoder / PDSLabelEncoder: the written fields are the value's fields at its "
                     "precision, the written zone denotes the value's offset (sign * (HH*3600 + MM*60) == utcoffset), or ValueError "
                     "exactly when the dialect cannot represent the value; encode_date writes a four-digit year; encode_datetime is the date text, "
                     "'T' and the time text of the same value")
    t0 = time.time()
    verify_contracts(s, ce.time_contracts(pid), TimeTheory, ["pvl.encoder"], jobs=min(3, ctx.jobs))
    d_own, d_callers = ce.date_contracts()
    verify_contracts(s, d_own, TimeTheory, ["pvl.encoder"], jobs=1)           # encode_date
    verify_contracts(s, d_callers, TimeTheory, ["pvl.encoder"], jobs=4)       # encode_datetime for the four receivers
    s.assumptions += TIME_ASSUMPTIONS
    s.seconds = time.time() - t0
    from ..pyvc.timetheory import OffsetTheory
    o = Section("decoder-zone-offset-contract", "smt",
                rule="ODLDecoder.decode_datetime (ODL and Omni receivers): an offset suffix is attached only to a time / date-time that the "
                     "plain decoder accepts without it and that is not marked Z, and the attached zone is sign * (HH hours + MM minutes); "
                     "PDSLabelDecoder.decode_datetime: the plain cascade's result (no offset branch), refused when microsecond % 1000 != 0")
    t1 = time.time()
    verify_contracts(o, ce.offset_contracts(pid), OffsetTheory, ["pvl.decoder"], jobs=2)
    from ..pyvc.timetheory import PdsDecTheory
    verify_contracts(o, ce.pds_decoder_contracts(), PdsDecTheory, ["pvl.decoder"], jobs=1)
    o.assumptions += ["the groups of the inline offset pattern are symbolic: sign in {+,-}, hour 0..12, minute 0..59 (the pattern's language: "
                      "regex obligations offset:*); int() of a digit group is its number, an absent minute group is the default 0",
                      "super().decode_datetime: returns or raises ValueError (functional contract: T_dec); timezone() refuses offsets of a day or more"]
    o.seconds = time.time() - t1
    return [s, o]


def sections_for(pid, ctx):
    out = []
    if pid in ("C17", "C03", "C14"):
        out.append(decoder_section(ctx))
    if pid in ("C03", "C04"):
        out += lexer_sections(ctx, pid)
    if pid in ("C03",):
        out.append(based_int_section(ctx))
    if pid in ("C01", "C02", "C07", "C12", "C17"):
        out += encoder_sections(ctx, pid)
    if pid in ("C14", "C01"):
        out += time_sections(ctx, pid)
    if pid in ("C17", "C04", "C01", "C02", "C07"):
        # C01/C02/C07: the quoting contracts of the encoders call Token.is_unquoted_string through its contract
        out += token_sections(ctx, pid)
    if pid in ("C17", "C01", "C02", "C07"):
        out.append(keyword_tables_section(pid))
    if pid in ("C17", "C03", "C14"):
        from . import regexsec
        out += regexsec.sections_for(pid, ctx)
    if pid in ("C01", "C02", "C07"):
        from . import regexsec
        out.append(regexsec.substitution_section(pid))
    return out


def replay_lexer(pid, data):
    """re-run the lexer-helper sections on the current tree; -> description of what still fails or None"""
    from ..harness import Ctx
    fn = str(data.get("function", ""))
    secs = lexer_sections(Ctx(pid, "quick", 0), pid)
    for sec in secs:
        for v in sec.violations:
            if not fn or fn in v.key or fn in str(v.data.get("function", "")):
                return v.what
        for o in sec.obls:
            if o.status == "failed" and (not fn or fn in o.name):
                return f"obligation {o.name} failed: {o.detail[:300]}"
    return None


def replay_encoder(pid, data):
    from ..harness import Ctx
    fn = str(data.get("function", ""))
    for sec in encoder_sections(Ctx(pid, "quick", 0), pid):
        for v in sec.violations:
            if not fn or fn == str(v.data.get("function", "")):
                return v.what
        for o in sec.obls:
            if o.status == "failed" and (not fn or fn in o.name):
                return f"obligation {o.name} failed: {o.detail[:300]}"
    return None


def replay_time(pid, data):
    from ..harness import Ctx
    for sec in time_sections(Ctx(pid, "quick", 0), pid):
        for v in sec.violations:
            return v.what
        for o in sec.obls:
            if o.status == "failed":
                return f"obligation {o.name} failed: {o.detail[:300]}"
    return None


GRAMMAR_PAIRS = {"PVL": ("PVLGrammar", "PVLDecoder"), "ODL": ("ODLGrammar", "ODLDecoder"), "PDS3": ("PDSGrammar", "PDSLabelDecoder"),
                 "ISIS": ("ISISGrammar", "PVLDecoder"), "Omni": ("OmniGrammar", "OmniDecoder")}


def keyword_tables_section(pid):
    """Ground obligations on the keyword tables of the bundled grammar classes: the reader recognises block and end keywords
    through aggregation_keywords / end_statements, the writer decides on quotes through reserved_keywords (contract of
    needs_quotes) - the two have to describe the same words, and the default loader's words have to be quoted by every encoder."""
    from ..harness import DISCHARGED as _D, FAILED as _F
    import pvl.grammar as G
    s = Section("grammar-keyword-tables", "ground",
                rule="per grammar class: reserved_keywords (the writer's table) contains every key and value of aggregation_keywords and "
                     "every end statement (the reader's tables), in the letter case the tables are compared in; and the words the "
                     "default loader's grammar reads as keywords are reserved in the grammar of every bundled encoder")

    def words(g):
        return {w.casefold() for w in list(g.aggregation_keywords) + list(g.aggregation_keywords.values()) + list(g.end_statements)}
    classes = [G.PVLGrammar, G.ODLGrammar, G.PDSGrammar, G.ISISGrammar, G.OmniGrammar]
    for gcls in classes:
        g = gcls()
        res = {w.casefold() for w in g.reserved_keywords}
        missing = sorted(words(g) - res)
        s.obl(f"pvl.grammar.{gcls.__name__}:reserved_keywords-contains-the-reader's-block-and-end-keywords", _D if not missing else _F, "ground",
              detail=f"not reserved: {missing}")
        grp = {k.casefold() for k in g.group_keywords} | {k.casefold() for k in g.object_keywords}
        missing = sorted(grp - {k.casefold() for k in g.aggregation_keywords})
        s.obl(f"pvl.grammar.{gcls.__name__}:aggregation_keywords-contains-the-group-and-object-keywords", _D if not missing else _F, "ground",
              detail=f"missing: {missing}")
    omni = words(G.OmniGrammar())
    for gcls in classes[:4]:
        res = {w.casefold() for w in gcls().reserved_keywords}
        missing = sorted(omni - res)
        s.obl(f"pvl.grammar.{gcls.__name__}:the-default-loader's-keywords-are-reserved-for-this-encoder-grammar", _D if not missing else _F,
              "ground", detail=f"read as keywords by OmniGrammar, written bare with this grammar: {missing}")
    s.assumptions.append("the tables are read from the live class objects after import (class attributes, not per-instance state)")
    return s


def is_token_record(data):
    return str(data.get("function", "")).startswith(("pvl.token.", "pvl.decoder.")) and "text" in data and data.get("grammar") in GRAMMAR_PAIRS


def replay_token(pid, data):
    """evaluate the contract of one Token predicate on the recorded text natively, on the current tree"""
    from ..contracts import encoder as ce
    from ..pyvc import encnative
    import pvl.grammar as G
    import pvl.decoder as D
    gn, dn = GRAMMAR_PAIRS[data["grammar"]]
    g = getattr(G, gn)()
    d = getattr(D, dn)(grammar=g)
    for c in ce.token_contracts():
        if c.target == data["function"] and getattr(c, "fn", None) is not None:
            bad = encnative.check_token(c, g, d, data["text"])
            return f"{data['grammar']}: {bad[0]}" if bad else None
    return None


def is_time_record(data):
    return str(data.get("function", "")).endswith((".encode_time", "ODLDecoder.decode_datetime"))


def is_encoder_record(data):
    return str(data.get("function", "")).startswith("pvl.encoder.") and ("clause" in data or "raised" in data or "verifier_output" in data)


def is_lexer_record(data):
    return str(data.get("function", "")).startswith(("pvl.lexer.", "lex_", "_prev_char", "_next_char")) or \
        str(data.get("obligation", "")).startswith("pvl.lexer.")
