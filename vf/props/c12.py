"""C12 — encoder output obeys the surface rules of its dialect.

Whole-text conformance depends on textwrap.wrap (where line breaks fall) and is decided by the
bounded line-level conformance reader (labelled bounded).  Deductive part: ground obligations on
the real grammar/encoder objects that fix the dialect constants the text is built from, and
frame obligations that the PDS3 encoder's line end / delimiter cannot be overridden.
"""
import ast
import inspect
import time

from ..harness import Section, DISCHARGED, FAILED
from ..pyvc.source import Program
from ..rtc import c12_surface as drv

from . import lexeme


def ground_section():
    import pvl.grammar as G
    import pvl.encoder as E
    s = Section("dialect-constants", "ground",
                rule="keyword families, delimiters, line ends and END statement the encoders build their text from")

    def ob(name, ok, detail=""):
        s.obl(name, DISCHARGED if ok else FAILED, "ground", detail=str(detail))

    ob("PVLGrammar.group_pref_keywords == BEGIN_GROUP/END_GROUP", G.PVLGrammar.group_pref_keywords == ("BEGIN_GROUP", "END_GROUP"))
    ob("PVLGrammar.object_pref_keywords == BEGIN_OBJECT/END_OBJECT", G.PVLGrammar.object_pref_keywords == ("BEGIN_OBJECT", "END_OBJECT"))
    for g in (G.ODLGrammar, G.PDSGrammar):
        ob(f"{g.__name__}.group_pref_keywords == GROUP/END_GROUP", g.group_pref_keywords == ("GROUP", "END_GROUP"))
        ob(f"{g.__name__}.object_pref_keywords == OBJECT/END_OBJECT", g.object_pref_keywords == ("OBJECT", "END_OBJECT"))
    ob("ISISGrammar.group_pref_keywords == Group/End_Group", G.ISISGrammar.group_pref_keywords == ("Group", "End_Group"))
    ob("ISISGrammar.object_pref_keywords == Object/End_Object", G.ISISGrammar.object_pref_keywords == ("Object", "End_Object"))
    for g in (G.PVLGrammar, G.ODLGrammar, G.PDSGrammar, G.ISISGrammar):
        ob(f"{g.__name__}.end_statements[0] == END", g.end_statements[0] == "END")
        ob(f"{g.__name__}.delimiters[0] == ;", g.delimiters[0] == ";")
        ob(f"{g.__name__}.units_delimiters == <>", g.units_delimiters == ("<", ">"))
    pvl_e, odl_e, pds_e, isis_e = E.PVLEncoder(), E.ODLEncoder(), E.PDSLabelEncoder(), E.ISISEncoder()
    ob("PVLEncoder defaults: end_delimiter, newline LF", pvl_e.end_delimiter is True and pvl_e.newline == "\n")
    ob("ODLEncoder defaults: no delimiter, CR LF", odl_e.end_delimiter is False and odl_e.newline == "\r\n")
    ob("PDSLabelEncoder: no delimiter, CR LF", pds_e.end_delimiter is False and pds_e.newline == "\r\n")
    ob("ISISEncoder defaults: no delimiter, LF", isis_e.end_delimiter is False and isis_e.newline == "\n")
    for e, g in ((pvl_e, G.PVLGrammar), (odl_e, G.ODLGrammar), (pds_e, G.PDSGrammar), (isis_e, G.ISISGrammar)):
        ob(f"{type(e).__name__}.grammar is a {g.__name__}", type(e.grammar) is g)
    sig = inspect.signature(E.PDSLabelEncoder.__init__)
    ob("PDSLabelEncoder.__init__ offers no newline / end_delimiter parameter",
       "newline" not in sig.parameters and "end_delimiter" not in sig.parameters)
    # the constructor passes the fixed values on
    prog = Program(["pvl.encoder"])
    ci, fn = prog.function("pvl.encoder.PDSLabelEncoder.__init__")
    calls = [c for c in ast.walk(fn) if isinstance(c, ast.Call) and ast.unparse(c.func) == "super().__init__"]
    ok = len(calls) == 1 and any(k.arg == "newline" and ast.unparse(k.value) == "'\\r\\n'" for k in calls[0].keywords) \
        and any(k.arg == "end_delimiter" and ast.unparse(k.value) == "False" for k in calls[0].keywords)
    ob("PDSLabelEncoder.__init__ passes newline='\\r\\n', end_delimiter=False to its base", ok)
    ci, fn = prog.function("pvl.encoder.PDSLabelEncoder.encode")
    rets = [ast.unparse(n.value) for n in ast.walk(fn) if isinstance(n, ast.Return)]
    tail = [ast.unparse(st) for st in fn.body[-2:]]
    ok = ("s = super().encode(module)" in tail[0] if tail else False) and sorted(rets) == sorted(
        ["s.replace('\\t', ' ' * self.tab_replace)", "s"]) and "if self.tab_replace > 0" in tail[-1]
    ob("PDSLabelEncoder.encode:tabs-are-replaced-in-the-WHOLE-finished-text-when-tab_replace>0", ok, (tail, rets))
    for cls in ("PVLEncoder", "ODLEncoder", "PDSLabelEncoder", "ISISEncoder"):
        dcls, f2 = prog.find_method(cls, "encode")
        # the character-set sweep of PVLEncoder.encode runs over the final text of every encoder
        chain = []
        c = cls
        while True:
            d, f3 = prog.find_method(c, "encode")
            if d is None:
                break
            chain.append(d)
            if d == "PVLEncoder":
                break
            mro = prog.mro(cls)
            c_idx = mro.index(d) + 1
            if c_idx >= len(mro):
                break
            # every override must call super().encode(module)
            if "super().encode(module)" not in ast.unparse(f3):
                chain.append("<does-not-delegate>")
                break
            c = mro[c_idx]
        ob(f"{cls}.encode:delegates-to-PVLEncoder.encode(character-set-sweep)", chain[-1] == "PVLEncoder", chain)
    dcls, f4 = prog.find_method("PVLEncoder", "encode")
    src = ast.unparse(f4)
    ob("PVLEncoder.encode:raises-ValueError-unless-every-character-of-the-text-is-allowed",
       "for i, c in enumerate(s):" in src and "if not self.grammar.char_allowed(c):" in src and "raise ValueError(" in src
       and src.strip().endswith("return self.newline.join(lines)"))
    s.assumptions += ["textwrap.wrap places line breaks only at white space (documented); everything that depends on where "
                      "they fall is decided by the bounded conformance reader, not proved"]
    return s


def run(ctx):
    return [ground_section()] + lexeme.sections_for("C12", ctx) + drv.sections(ctx)


def replay(data):
    if lexeme.is_encoder_record(data):
        return lexeme.replay_encoder("C12", data)
    return drv.replay(data)
