"""C16 — parser, decoder and encoder instances carry no state between calls.

Deductive core (frame / initialisation obligations over the real ASTs):
 1. configuration fields are stored only by constructors (and add_quantity_cls);
 2. per-call fields (doc, errors) are assigned by parse() before anything reads them or runs;
 3. nothing stores to module globals, class attributes or the shared default-argument objects;
 4. the returned module does not alias instance state.
(1)-(4) make the result of a call a function of the constructor arguments and the text only.
"""
import ast
import time

from ..harness import Section, DISCHARGED, FAILED
from ..pyvc.source import Program, module_ast
from ..pyvc.frame import FuncFacts, store_sites, ITEM_MUTATORS
from ..rtc import c16_stateless as drv

MODS = ["pvl.parser", "pvl.decoder", "pvl.encoder", "pvl.grammar", "pvl.token", "pvl.lexer", "pvl.exceptions"]
PER_CALL = {"doc", "errors"}
CONFIG_METHODS = {"__init__", "__new__", "add_quantity_cls", "_import_quantities"}


def self_stores(fn):
    """(lineno, field, how) for every store / in-place mutation of self.<field> in fn"""
    out = []
    for n in ast.walk(fn):
        if isinstance(n, (ast.Assign, ast.AugAssign, ast.AnnAssign, ast.Delete)):
            targets = n.targets if isinstance(n, (ast.Assign, ast.Delete)) else [n.target]
            for t in targets:
                for x in ast.walk(t):
                    if isinstance(x, ast.Attribute) and isinstance(x.value, ast.Name) and x.value.id == "self" \
                            and isinstance(x.ctx, (ast.Store, ast.Del)):
                        out.append((x.lineno, x.attr, "assign"))
                    if isinstance(x, ast.Subscript) and isinstance(x.ctx, (ast.Store, ast.Del)):
                        b = x.value
                        if isinstance(b, ast.Attribute) and isinstance(b.value, ast.Name) and b.value.id == "self":
                            out.append((x.lineno, b.attr, "item-store"))
        elif isinstance(n, ast.Call) and isinstance(n.func, ast.Attribute) and n.func.attr in ITEM_MUTATORS:
            b = n.func.value
            if isinstance(b, ast.Attribute) and isinstance(b.value, ast.Name) and b.value.id == "self":
                out.append((n.lineno, b.attr, "mutator:" + n.func.attr))
            if isinstance(b, ast.Name) and b.id == "self":
                out.append((n.lineno, "<self>", "mutator:" + n.func.attr))
        elif isinstance(n, ast.Call) and isinstance(n.func, ast.Name) and n.func.id in ("setattr", "delattr"):
            out.append((n.lineno, "<dynamic>", n.func.id))
    return out


def section_fields():
    s = Section("field-stores", "frame",
                rule="one obligation per store to self.* in every class of parser/decoder/encoder/grammar/token")
    n_sites = 0
    for mod in MODS[:5]:
        prog = Program([mod])
        for key, ci in prog.classes.items():
            if "." not in key:
                continue
            for mname, fn in ci.methods.items():
                q = f"{mod}.{ci.name}.{mname}"
                for line, field, how in self_stores(fn):
                    n_sites += 1
                    name = f"{q}:{how}:self.{field}@+{line - fn.lineno}"
                    if mname in CONFIG_METHODS:
                        s.obl(name + ":constructor-or-configuration-call", DISCHARGED, "frame", function=q)
                    elif field in PER_CALL and mod == "pvl.parser" and (mname in ("parse", "_empty_value")):
                        s.obl(name + ":per-call-field", DISCHARGED, "frame", function=q)
                    else:
                        s.obl(name + ":no-store-outside-constructor", FAILED, "frame", function=q,
                              detail=f"{q} line {line}: {how} of self.{field} survives the call")
    if n_sites == 0:
        s.obl("field-stores:vacuity", FAILED, "frame", detail="no store site found at all")
    return s


def section_percall():
    """per-call fields are dead on entry of parse()."""
    s = Section("per-call-initialisation", "frame",
                rule="def-use walk of every parse(): doc and errors assigned before any read or any other call")
    prog = Program(["pvl.parser"])

    def first_assigns(cls, depth=0):
        """fields definitely assigned (fresh) by cls.parse before it reads them / calls out; or error text"""
        dcls, fn = prog.find_method(cls, "parse")
        if fn is None:
            return None, "no parse()"
        assigned = set()
        q = f"pvl.parser.{dcls}.parse"
        for st in fn.body:
            if isinstance(st, ast.Expr) and isinstance(st.value, ast.Constant):
                continue
            # reads of per-call fields in this statement (excluding the assignment target itself)
            reads = set()
            for x in ast.walk(st):
                if isinstance(x, ast.Attribute) and isinstance(x.value, ast.Name) and x.value.id == "self" \
                        and isinstance(x.ctx, ast.Load) and x.attr in PER_CALL:
                    reads.add(x.attr)
            bad = reads - assigned
            if bad:
                return assigned, f"{q} line {st.lineno}: reads self.{sorted(bad)[0]} before assigning it"
            calls = [c for c in ast.walk(st) if isinstance(c, ast.Call)]
            for c in calls:
                f = c.func
                if isinstance(f, ast.Attribute) and isinstance(f.value, ast.Name) and f.value.id == "self":
                    if assigned >= PER_CALL:
                        return assigned, None
                    return assigned, f"{q} line {st.lineno}: calls self.{f.attr} before both per-call fields are assigned"
                if isinstance(f, ast.Attribute) and isinstance(f.value, ast.Call) and isinstance(f.value.func, ast.Name) \
                        and f.value.func.id == "super" and f.attr == "parse":
                    mro = prog.mro(cls)
                    nxt = mro[mro.index(dcls) + 1] if dcls in mro and mro.index(dcls) + 1 < len(mro) else None
                    if nxt is None:
                        return assigned, f"{q}: super().parse has no target"
                    sub, err = first_assigns(nxt, depth + 1)
                    if err:
                        return assigned, err
                    assigned |= sub or set()
                    if assigned >= PER_CALL:
                        return assigned, None
            if isinstance(st, ast.Assign):
                for t in st.targets:
                    if isinstance(t, ast.Attribute) and isinstance(t.value, ast.Name) and t.value.id == "self" \
                            and t.attr in PER_CALL:
                        fresh_rhs = isinstance(st.value, (ast.List, ast.Constant, ast.Name, ast.Call))
                        if fresh_rhs:
                            assigned.add(t.attr)
            if assigned >= PER_CALL:
                return assigned, None
        return assigned, None if assigned >= PER_CALL else f"{q}: does not assign {sorted(PER_CALL - assigned)}"

    for cls in ("PVLParser", "ODLParser", "OmniParser"):
        assigned, err = first_assigns(cls)
        for fld in sorted(PER_CALL):
            ok = assigned is not None and fld in assigned       # only the field that is not (re)assigned first fails
            s.obl(f"pvl.parser.{cls}.parse:self.{fld}:assigned-before-use", DISCHARGED if ok else FAILED, "frame",
                  detail=err or "", function=f"pvl.parser.{cls}.parse")
    # the returned module must not alias instance state
    dcls, fn = prog.find_method("PVLParser", "parse")
    ok = False
    for st in ast.walk(fn):
        if isinstance(st, ast.Assign) and len(st.targets) == 1 and isinstance(st.targets[0], ast.Attribute) \
                and st.targets[0].attr == "errors" and not (isinstance(st.targets[0].value, ast.Name) and st.targets[0].value.id == "self"):
            ok = isinstance(st.value, ast.Call) and isinstance(st.value.func, ast.Name) and st.value.func.id in ("sorted", "list")
    s.obl("pvl.parser.PVLParser.parse:module.errors-is-a-fresh-list", DISCHARGED if ok else FAILED, "frame",
          function="pvl.parser.PVLParser.parse")
    return s


def section_globals():
    s = Section("globals-and-shared-objects", "frame",
                rule="no global statement, no store to a class or module attribute, no mutation of parameters in lexer.py "
                     "(its default-argument grammar/decoder instances are shared by every call)")
    n = 0
    for mod in MODS:
        tree = module_ast(mod)
        prog = Program([mod])
        classnames = {k for k in prog.classes if "." not in k}
        for fnode in [x for x in ast.walk(tree) if isinstance(x, ast.FunctionDef)]:
            q = f"{mod}.{fnode.name}"
            for x in ast.walk(fnode):
                if isinstance(x, (ast.Global, ast.Nonlocal)):
                    n += 1
                    s.obl(f"{q}:global-statement@{x.lineno}", FAILED, "frame", detail=", ".join(x.names), function=q)
                if isinstance(x, ast.Attribute) and isinstance(x.ctx, (ast.Store, ast.Del)) and isinstance(x.value, ast.Name):
                    base = x.value.id
                    n += 1
                    if base in classnames or base in ("pvl", "cls", "type"):
                        s.obl(f"{q}:class-attribute-store:{base}.{x.attr}@+{x.lineno - fnode.lineno}", FAILED, "frame",
                              detail=f"line {x.lineno}", function=q)
                    else:
                        s.obl(f"{q}:attribute-store:{base}.{x.attr}@+{x.lineno - fnode.lineno}:not-a-class-or-module", DISCHARGED,
                              "frame", function=q)
    # lexer.py: parameters (incl. the shared default grammar/decoder) are never mutated
    prog = Program(["pvl.lexer"])
    for fname, fn in prog.functions.items():
        if "." not in fname:
            continue
        facts = FuncFacts(fn)
        k = 0
        for kind, line, rc, text in store_sites(fn, facts):
            k += 1
            n += 1
            ok = rc == "fresh" or (kind == "mutator-call" and rc in ("fresh", "global") and text.startswith(("m.append", "d[")))
            name = f"{fname}:{kind}@+{line - fn.lineno}:{text[:40]}"
            if rc == "fresh":
                s.obl(name + ":fresh-local", DISCHARGED, "frame", function=fname)
            else:
                s.obl(name + ":does-not-touch-parameters-or-globals", FAILED, "frame",
                      detail=f"{kind} on a {rc} object: {text}", function=fname)
        if k == 0:
            s.obl(f"{fname}:no-store-sites", DISCHARGED, "frame", function=fname)
    if n == 0:
        s.obl("globals:vacuity", FAILED, "frame")
    # default-argument objects exist as expected (so the obligation above is about the right thing)
    import inspect
    import pvl.lexer as L
    sig = inspect.signature(L.lexer)
    s.notes.append(f"lexer defaults: g={type(sig.parameters['g'].default).__name__}, d={type(sig.parameters['d'].default).__name__}")
    return s


def run(ctx):
    t0 = time.time()
    secs = [section_fields(), section_percall(), section_globals()]
    for s in secs:
        s.assumptions += [
            "frame back end: syntactic def-use/store enumeration over the real ASTs (sound for the statements present; "
            "dynamic attribute access via setattr/__dict__ fails the obligation)",
            "state reachable only through C extensions (re cache, strptime cache, warnings registry) is out of model",
            "decoder/encoder methods do not store to arguments (token/value objects are immutable str/num)"]
    secs += drv.sections(ctx)
    return secs


def replay(data):
    return drv.replay(data)
