"""C06 - see DESIGN.md §3.  Deductive core: the parser contracts over the token-stream ghost model
(vf/contracts/parser.py); bounded stand-in: vf/rtc/c06_*.py."""
from .parser_common import parser_section, protocol_section, entry_section
from .lexeme import decoder_section
from ..rtc import c06_termination as drv


def error_construction_section():
    """constructing the documented errors must not raise anything itself (C06: 'fail only with the documented error types')"""
    from ..harness import Section
    from ..pyvc.verify import verify_contracts
    from ..pyvc.objtheory import ObjTheory
    from ..contracts import exceptions as ce
    s = Section("error-construction", "smt",
                rule="firstpos, linecount, LexerError.__init__ return for every (msg, doc, pos, lexeme): no exception can leave them")
    verify_contracts(s, ce.contracts(), ObjTheory, ["pvl.exceptions"], jobs=1)
    s.assumptions += ["str.count / rfind / split / join / slicing never raise; text[i] raises IndexError outside [-len, len)"]
    return s


def run(ctx):
    return [parser_section(ctx), decoder_section(ctx), error_construction_section(), protocol_section(), entry_section()] + drv.sections(ctx)


def replay(data):
    return drv.replay(data)
