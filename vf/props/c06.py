"""C06 - see DESIGN.md §3.  Deductive core: the parser contracts over the token-stream ghost model
(vf/contracts/parser.py); bounded stand-in: vf/rtc/c06_*.py."""
from .parser_common import parser_section, protocol_section, entry_section
from .lexeme import decoder_section
from ..rtc import c06_termination as drv


def run(ctx):
    return [parser_section(ctx), decoder_section(ctx), protocol_section(), entry_section()] + drv.sections(ctx)


def replay(data):
    return drv.replay(data)
