"""C03 - see DESIGN.md §3; bounded driver vf/rtc/c03_denotation.py plus the deductive sections in vf/props/lexeme.py."""
from ..rtc import c03_denotation as drv
from . import lexeme


def run(ctx):
    return lexeme.sections_for("C03", ctx) + drv.sections(ctx)


def replay(data):
    if str(data.get("obligation", "")).startswith("regex:"):
        from . import regexsec
        return regexsec.replay("C03", data)
    if lexeme.is_lexer_record(data):
        return lexeme.replay_lexer("C03", data)
    return drv.replay(data)
