"""Regex-language obligations (back end: z3 sequence/regex solver) for C03, C14 and C17.

Every language is built on each run from the live objects of /repo: the compiled patterns held by
the grammar classes, the strptime format tables of the grammar classes (through CPython's own
`_strptime.TimeRE`, which is what `datetime.strptime` compiles them with) and the inline pattern of
`ODLDecoder.decode_datetime` (taken from its AST).  The spec side of each obligation is a pattern
written here from the property statements / the Blue Book and PDS3 chapter 12 grammar.

Obligation kinds: subset (A and not B unsatisfiable), disjoint (A and B unsatisfiable), nonempty
(vacuity guard: satisfiable, witness accepted natively).  A satisfiable subset/disjoint query gives
a witness string which is replayed on the real decoder before it is reported."""
import ast
import inspect
import random
import re
import textwrap
import time
import _strptime

import z3

from ..harness import Section, DISCHARGED, FAILED, UNDECIDED
from ..pyvc import regexlang as R

HEX = "[0-9A-Fa-f]"
# what int()/float() strip, within latin-1: ASCII white space (NOT \x1c-\x1f, although str.isspace() is true for them) and the
# non-ASCII spaces NEL and NBSP (found by the model validation: int('39\x1c') is refused)
PYWS = "[\t-\r \x85\xa0]"

# ---------------------------------------------------------------- spec languages (Python patterns)


def digits_below(r):
    ds = "0123456789ABCDEF"[:r]
    return "[" + ds + ds[10:].lower() + "]"


def spec_based(dialect):
    """Blue Book 'based integer' / PDS3 12.3.1.3: the digits must be digits of the radix."""
    if dialect in ("PVL", "ISIS"):
        return "[+-]?(?:" + "|".join(f"{r}#{digits_below(r)}+#" for r in (2, 8, 16)) + ")"
    if dialect in ("ODL", "PDS3"):
        return "(?:" + "|".join(f"{r}#[+-]?{digits_below(r)}+#" for r in range(2, 17)) + ")"
    # Omni: either sign position, not both
    a = "|".join(f"[+-]?{r}#{digits_below(r)}+#" for r in range(2, 17))
    b = "|".join(f"{r}#[+-]?{digits_below(r)}+#" for r in range(2, 17))
    return f"(?:{a}|{b})"


SPEC_DECIMAL = r"[+-]?(?:[0-9]+\.?[0-9]*|\.[0-9]+)(?:[eE][+-]?[0-9]+)?"
# what int(s, 10) and float(s) accept (CPython, latin-1 inputs) - an assumed contract of the
# interpreter, cross-checked natively on every run (section regex-model-validation)
_DG = r"\d(?:_?\d)*"
PY_INT = fr"{PYWS}*[+-]?{_DG}{PYWS}*"
PY_FLOAT = (fr"{PYWS}*[+-]?(?:(?:{_DG}\.?(?:{_DG})?|\.{_DG})(?:[eE][+-]?{_DG})?"
            r"|[iI][nN][fF](?:[iI][nN][iI][tT][yY])?|[nN][aA][nN])" + fr"{PYWS}*")
# the ways PY_INT|PY_FLOAT exceeds SPEC_DECIMAL (open findings KF-C03/C17-python-number-syntax)
DEV_WS = "(?:[\t-\r \x85\xa0]+[^\t-\r \x85\xa0]+[\t-\r \x85\xa0]*|[^\t-\r \x85\xa0]+[\t-\r \x85\xa0]+)"
DEV_NONASCII = r"(?:.|\n)*[^\x00-\x7f](?:.|\n)*"
DEV_INFNAN = r"[+-]?(?:[iI][nN][fF](?:[iI][nN][iI][tT][yY])?|[nN][aA][nN])"
DEV_UNDERSCORE = r"[^_]*\d_\d.*"

STD_Y = r"(?!0000)[0-9]{4}"
STD_YMD = STD_Y + r"-(?:0[1-9]|1[0-2])-(?:0[1-9]|[12][0-9]|3[01])"
STD_YJ = STD_Y + r"-(?:00[1-9]|0[1-9][0-9]|[12][0-9][0-9]|3[0-5][0-9]|36[0-6])"
STD_DATE = f"(?:{STD_YMD}|{STD_YJ})"
STD_HM = r"(?:[01][0-9]|2[0-3]):[0-5][0-9]"
STD_TIME = STD_HM + r"(?::[0-5][0-9](?:\.[0-9]{1,6})?)?"
STD_LEAP_TIME = STD_HM + r":60(?:\.[0-9]+)?Z?"
STD_OFF = r"[+-](?:0?[0-9]|1[0-2])(?::[0-5][0-9])?"


# ---------------------------------------------------------------- code languages


def strptime_pattern(fmt):
    """the regular expression CPython compiles *fmt* to (flags IGNORECASE), with the seconds field
    narrowed to what the datetime constructor then accepts (0..59) and year 0000 excluded"""
    p = _strptime.TimeRE().pattern(fmt)
    p = p.replace("(?P<S>6[0-1]|[0-5]\\d|\\d)", "(?P<S>[0-5]\\d|\\d)")
    p = p.replace("(?P<Y>\\d\\d\\d\\d)", "(?P<Y>(?!0000)\\d\\d\\d\\d)")
    return p


def z(pattern, flags=0):
    return R.to_z3(pattern, flags)


def odl_offset_pattern(decoder):
    """the inline pattern of ODLDecoder.decode_datetime, evaluated from its AST"""
    import pvl.decoder as D
    src = textwrap.dedent(inspect.getsource(D.ODLDecoder.decode_datetime))
    tree = ast.parse(src)
    for n in ast.walk(tree):
        if (isinstance(n, ast.Call) and isinstance(n.func, ast.Attribute) and n.func.attr == "fullmatch"
                and isinstance(n.func.value, ast.Name) and n.func.value.id == "re"):
            expr = ast.Expression(n.args[0])
            ast.fix_missing_locations(expr)
            return eval(compile(expr, "<odl-offset>", "eval"), {"self": decoder, "re": re})
    return None


class Dialect:
    def __init__(self, name):
        import pvl.grammar as G
        import pvl.decoder as D
        self.name = name
        g, d = {"PVL": (G.PVLGrammar, D.PVLDecoder), "ODL": (G.ODLGrammar, D.ODLDecoder),
                "PDS3": (G.PDSGrammar, D.PDSLabelDecoder), "ISIS": (G.ISISGrammar, D.PVLDecoder),
                "Omni": (G.OmniGrammar, D.OmniDecoder)}[name]
        self.g = g()
        self.d = d(grammar=self.g)
        self.py = {}     # language name -> native acceptor
        self.L = {}      # language name -> z3 regex
        self.src = {}    # language name -> pattern text (for the evidence)
        self.flags = {}
        self.build()

    def lang(self, name, pattern, native, flags=0):
        self.L[name] = z(pattern, flags)
        self.src[name] = pattern if isinstance(pattern, str) else pattern.pattern
        self.flags[name] = flags
        self.py[name] = native

    def build(self):
        g, d, n = self.g, self.d, self.name

        def ok(fn):
            def f(w):
                try:
                    fn(w)
                    return True
                except ValueError:
                    return False
            return f

        def fm(p, flags=0):
            c = re.compile(p, flags)
            return lambda w: c.fullmatch(w) is not None
        # --- based integers
        if n in ("PVL", "ISIS"):
            pats = [g.binary_re.pattern, g.octal_re.pattern, g.hex_re.pattern]
            code = "(?:" + "|".join(f"(?:{_strip_names(p)})" for p in pats) + ")"
        else:
            code = _strip_names(g.nondecimal_re.pattern)
        # digits must be digits of the radix (int(text, base) - assumed contract, validated)
        sem = "(?:" + "|".join(f"[+-]?{r}#[+-]?{digits_below(r)}+#" for r in range(2, 17)) + ")"
        self.L["based.regex"] = z(code)
        self.src["based.regex"] = code
        self.L["based.code"] = z3.Intersect(z(code), z(sem))
        if n == "Omni":
            self.L["based.code"] = z3.Intersect(self.L["based.code"], z3.Complement(z(r"[+-].*#[+-].*")))
        self.src["based.code"] = f"({code}) & int(sign+digits, base=radix) accepts" + (" & not both signs" if n == "Omni" else "")
        self.py["based.code"] = ok(d.decode_non_decimal)
        self.lang("based.spec", spec_based(n), fm(spec_based(n)))
        self.lang("based.pre", _strip_names(g.nondecimal_pre_re.pattern), fm(g.nondecimal_pre_re.pattern))
        # --- decimal
        self.L["decimal.code"] = z3.Union(z(PY_INT), z(PY_FLOAT))
        self.src["decimal.code"] = f"int(s,10): {PY_INT!r} | float(s): {PY_FLOAT!r}"
        self.py["decimal.code"] = ok(d.decode_decimal)
        self.lang("decimal.spec", SPEC_DECIMAL, fm(SPEC_DECIMAL))
        # --- quoted
        q = "".join(re.escape(c) for c in g.quotes)
        qp = "(?:" + "|".join(f"{re.escape(c)}(?:.|\n)*{re.escape(c)}" for c in g.quotes) + ")"
        self.lang("quoted.code", qp, ok(d.decode_quoted_string))
        # --- date / time
        I = re.IGNORECASE

        def fam(fmts):
            return "(?:" + "|".join("(?:" + _strip_names(strptime_pattern(f)) + ")" for f in fmts) + ")"
        self.lang("date.code", fam(g.date_formats), None, I)
        self.lang("time.code", fam(g.time_formats), None, I)
        self.lang("datetime.code", fam(g.datetime_formats), None, I)
        zs = "Z?"
        self.lang("date.spec", STD_DATE + zs, None)
        self.lang("time.spec", STD_TIME + zs, None)
        self.lang("datetime.spec", STD_DATE + "T" + STD_TIME + zs, None)
        leaps = [r.pattern for r in (g.leap_second_Ymd_re, g.leap_second_Yj_re) if r is not None]
        if leaps:
            lp = "(?:" + "|".join(f"(?:{_strip_names(p)})" for p in leaps) + ")"
            self.lang("leap.code", lp, d.is_leap_seconds)
            self.lang("leap.spec", f"(?:{STD_DATE}T)?{STD_LEAP_TIME}", None)
        self.temporal = z3.Union(self.L["date.code"], self.L["time.code"], self.L["datetime.code"])
        if n in ("ODL", "PDS3", "Omni"):
            op = odl_offset_pattern(d)
            self.offset_pattern = op
            if op is not None:
                m = re.fullmatch(r"\(\?P<dt>\.\+\?\)(.*)", op, re.S)
                self.off_tail = _strip_names(m.group(1)) if m else None
                if self.off_tail:
                    self.lang("offset.tail", self.off_tail, None)
                    self.lang("offset.spec", STD_OFF, None)

    def native_temporal(self, w):
        """what the real decoder's strptime cascade says (PVLDecoder.decode_datetime without subclasses'
        additions): 'date' / 'time' / 'datetime' / 'text' (leap) / None"""
        import datetime as dtm
        import pvl.decoder as D
        try:
            v = D.PVLDecoder.decode_datetime(self.d, w)
        except ValueError:
            return None
        if isinstance(v, dtm.datetime):
            return "datetime"
        if isinstance(v, dtm.date):
            return "date"
        if isinstance(v, dtm.time):
            return "time"
        return "text"


def _strip_names(p):
    """(?P<name>...) -> (?:...) so that patterns can be combined"""
    return re.sub(r"\(\?P<[A-Za-z_0-9]+>", "(?:", p)


# ---------------------------------------------------------------- obligations

_cache = {}


def decide(kind, a, b=None, extra=None):
    key = (kind, a.sexpr(), b.sexpr() if b is not None else None, extra.sexpr() if extra is not None else None)
    if key in _cache:
        st, w, dt = _cache[key]
        return st, w, 0.0
    if kind == "subset":
        r = R.witness_in(a, not_in=b, also_in=extra)
    elif kind == "disjoint":
        r = R.witness_in(a, also_in=b)
    else:
        r = R.witness_in(a)
    if r[0] == "sat":
        r = (r[0], R.unescape(r[1]), r[2])
    _cache[key] = r
    return r


def run_obligations(section, pid, obls):
    """obls: (name, kind, A, B, confirm(w) -> (bool, dict), key, what)"""
    for name, kind, a, b, confirm, key, what in obls:
        st, w, dt = decide(kind, a, b)
        full = f"regex:{name}"
        if kind == "nonempty":
            if st == "sat":
                okc, data = confirm(w) if confirm else (True, {})
                if okc:
                    section.obl(full, DISCHARGED, "z3-seq", dt, detail=f"witness {w!r} accepted natively")
                else:
                    section.obl(full, FAILED, "z3-seq", dt, detail=f"model language is wrong: {w!r} {data}")
                    section.violation(key, f"vacuity guard: {what}", {"witness": w, **data}, full, concrete=True)
            elif st == "unsat":
                section.obl(full, FAILED, "z3-seq", dt, detail="language is empty")
                section.violation(key, f"vacuity guard: {what} - the language is empty", {}, full, concrete=False)
            else:
                section.obl(full, UNDECIDED, "z3-seq", dt, detail=str(w))
            continue
        if st == "unsat":
            section.obl(full, DISCHARGED, "z3-seq", dt)
        elif st == "sat":
            okc, data = confirm(w) if confirm else (True, {})
            if okc:
                section.obl(full, FAILED, "z3-seq", dt, detail=f"counterexample {w!r}")
                section.violation(key, what, {"witness": w, "obligation": full, **data}, full, concrete=True)
            else:
                # the model and the real code disagree on the witness: a modelling gap, not a violation
                section.obl(full, UNDECIDED, "z3-seq", dt,
                            detail=f"solver witness {w!r} not reproduced on the real code: {data}")
        else:
            section.obl(full, UNDECIDED, "z3-seq", dt, detail=str(w))


def U(*xs):
    return z3.Union(*xs) if len(xs) > 1 else xs[0]


def based_obligations(pid, dl):
    n = dl.name
    L = dl.L
    spec_native = re.compile(spec_based(n))
    code_native = dl.py["based.code"]

    def conf_code_not_spec(w):
        return (code_native(w) and spec_native.fullmatch(w) is None,
                {"decode_non_decimal_accepts": code_native(w), "spec_matches": spec_native.fullmatch(w) is not None})

    def conf_spec_not_code(w):
        return (not code_native(w) and spec_native.fullmatch(w) is not None,
                {"decode_non_decimal_accepts": code_native(w), "spec_matches": spec_native.fullmatch(w) is not None})

    pre = re.compile(dl.g.nondecimal_pre_re.pattern)

    def conf_pre(w):
        # some prefix of the based integer (through the '#' and an inner sign) must fullmatch pre_re
        hit = any(pre.fullmatch(w[:i]) for i in range(1, len(w)))
        return (code_native(w) and not hit, {"prefix_match": hit})
    out = [
        (f"{n}:based:nonempty", "nonempty", L["based.code"], None, lambda w: (code_native(w), {}),
         f"{pid}:{n}:regex:based:model", "based-integer language"),
        (f"{n}:based:code-subset-of-spec", "subset", L["based.code"], L["based.spec"], conf_code_not_spec,
         f"{pid}:{n}:regex:based:accepts-non-spec", f"{n} decode_non_decimal accepts a text that is not a based integer of the dialect"),
        (f"{n}:based:spec-subset-of-code", "subset", L["based.spec"], L["based.code"], conf_spec_not_code,
         f"{pid}:{n}:regex:based:rejects-spec", f"{n} decode_non_decimal rejects a based integer of the dialect"),
        (f"{n}:based:lexer-prefix", "subset", L["based.code"],
         z3.Concat(L["based.pre"], z3.Plus(z(HEX)), z3.Re("#")), conf_pre,
         f"{pid}:{n}:regex:based:prefix-not-recognised",
         f"{n}: a based integer whose prefix nondecimal_pre_re (used by the lexer to keep '#' and the sign in the lexeme) does not match"),
    ]
    return out


def class_obligations(pid, dl):
    """pairwise disjointness of the value classes' acceptance languages (so the class of a text
    does not depend on the cascade order)"""
    n = dl.name
    L = dl.L
    temporal = dl.temporal if "leap.code" not in L else z3.Union(dl.temporal, L["leap.code"])
    classes = [("quoted", L["quoted.code"], dl.py["quoted.code"]),
               ("based", L["based.code"], dl.py["based.code"]),
               ("decimal", L["decimal.code"], dl.py["decimal.code"]),
               ("temporal", temporal, lambda w: dl.native_temporal(w) is not None)]
    out = []
    for i in range(len(classes)):
        for j in range(i + 1, len(classes)):
            (na, la, pa), (nb, lb, pb) = classes[i], classes[j]

            def conf(w, pa=pa, pb=pb):
                return (pa(w) and pb(w), {"first": pa(w), "second": pb(w)})
            out.append((f"{n}:classes:{na}-{nb}-disjoint", "disjoint", la, lb, conf,
                        f"{pid}:{n}:regex:classes:{na}+{nb}", f"{n}: a text is accepted both as {na} and as {nb}"))
    return out


def decimal_obligations(pid, dl):
    n = dl.name
    L = dl.L
    code = dl.py["decimal.code"]
    spec = re.compile(SPEC_DECIMAL)
    dev = U(z(DEV_WS), z(DEV_INFNAN), z(DEV_UNDERSCORE), z(DEV_NONASCII))

    def conf_spec(w):
        return (spec.fullmatch(w) is not None and not code(w), {"decode_decimal_accepts": code(w)})

    def conf_new_dev(w):
        return (code(w) and spec.fullmatch(w) is None, {"decode_decimal_accepts": code(w)})
    out = [
        (f"{n}:decimal:nonempty", "nonempty", L["decimal.code"], None, lambda w: (code(w), {}),
         f"{pid}:{n}:regex:decimal:model", "decimal language"),
        (f"{n}:decimal:spec-subset-of-code", "subset", L["decimal.spec"], L["decimal.code"], conf_spec,
         f"{pid}:{n}:regex:decimal:rejects-spec", f"{n} decode_decimal rejects a decimal number of the grammar"),
        (f"{n}:decimal:deviation-is-exactly-the-known-one", "subset", L["decimal.code"], z3.Union(L["decimal.spec"], dev),
         conf_new_dev, f"{pid}:{n}:regex:decimal:new-deviation",
         f"{n} decode_decimal accepts a text outside the grammar's decimal syntax and outside the recorded "
         "deviation classes (white space, inf/nan words, digit-group underscores, non-ASCII digits)"),
    ]
    return out


def temporal_obligations(pid, dl):
    n = dl.name
    L = dl.L
    out = []
    kinds = ("date", "time", "datetime")

    def conf_kind(k):
        def f(w):
            got = dl.native_temporal(w)
            return (got != k, {"decoded_as": got, "expected": k})
        return f
    for k in kinds:
        out.append((f"{n}:{k}:nonempty", "nonempty", L[f"{k}.code"], None, None,
                    f"{pid}:{n}:regex:{k}:model", f"{k} language"))
        # calendar validity (day of month, day 366) is not regular-friendly: the inclusion is syntactic,
        # a witness is confirmed only when the real decoder does not give the type
        out.append((f"{n}:{k}:spec-subset-of-code", "subset", L[f"{k}.spec"], L[f"{k}.code"], conf_kind(k),
                    f"{pid}:{n}:regex:{k}:rejects-spec",
                    f"{n}: a {k} text of the dialect's syntax is not matched by any format of grammar.{k}_formats"))
    for i in range(3):
        for j in range(i + 1, 3):
            a, b = kinds[i], kinds[j]

            def conf(w, a=a, b=b):
                return (True, {"decoded_as": dl.native_temporal(w)})
            out.append((f"{n}:{a}-{b}-formats-disjoint", "disjoint", L[f"{a}.code"], L[f"{b}.code"], conf,
                        f"{pid}:{n}:regex:{a}+{b}", f"{n}: one text is matched by a {a} format and by a {b} format "
                        "(the decoded type would depend on the trial order)"))
    if "leap.code" in L:
        lc = dl.py["leap.code"]
        ls = re.compile(f"(?:{STD_DATE}T)?{STD_LEAP_TIME}")
        out += [
            (f"{n}:leap:nonempty", "nonempty", L["leap.code"], None, lambda w: (lc(w), {}),
             f"{pid}:{n}:regex:leap:model", "leap-second language"),
            (f"{n}:leap:code-subset-of-spec", "subset", L["leap.code"], L["leap.spec"],
             lambda w: (lc(w) and ls.fullmatch(w) is None, {}),
             f"{pid}:{n}:regex:leap:accepts-non-spec", f"{n}: the leap-second regexes accept a text that is not a seconds=60 time"),
            (f"{n}:leap:spec-subset-of-code", "subset", L["leap.spec"], L["leap.code"],
             lambda w: (not lc(w) and ls.fullmatch(w) is not None, {}),
             f"{pid}:{n}:regex:leap:rejects-spec", f"{n}: a seconds=60 time of the grammar is not matched by the leap-second regexes"),
            (f"{n}:leap:disjoint-from-strptime", "disjoint", L["leap.code"], dl.temporal,
             lambda w: (lc(w) and dl.native_temporal(w) in ("date", "time", "datetime"), {"decoded_as": dl.native_temporal(w)}),
             f"{pid}:{n}:regex:leap+strptime", f"{n}: a seconds=60 text is also accepted by a strptime format"),
        ]
    else:
        ok = dl.g.leap_second_Ymd_re is None and dl.g.leap_second_Yj_re is None
        out.append((f"{n}:leap:none", "ground", ok, None, None, f"{pid}:{n}:regex:leap:present",
                    f"{n} grammar defines leap-second regexes although the dialect rejects seconds=60"))
    if "offset.tail" in L and n != "PDS3":      # PDSLabelDecoder.decode_datetime bypasses the ODL offset branch
        sign_once = z(r"[+-][^+-]*")
        tail = re.compile(dl.off_tail)
        import pvl.decoder as D

        def odl_accepts(w):
            try:
                D.ODLDecoder.decode_datetime(dl.d, "10:20" + w)
                return True
            except ValueError:
                return False
        std_off = re.compile(STD_OFF)
        out += [
            (f"{n}:offset:nonempty", "nonempty", L["offset.tail"], None, lambda w: (odl_accepts(w), {}),
             f"{pid}:{n}:regex:offset:model", "offset"),
            (f"{n}:offset:split-unique", "subset", L["offset.tail"], sign_once,
             lambda w: (tail.fullmatch(w) is not None and sum(w.count(c) for c in "+-") > 1, {}),
             f"{pid}:{n}:regex:offset:ambiguous-split",
             f"{n}: the zone-offset suffix pattern admits a second sign, so the lazy split of <time><offset> is not unique"),
            (f"{n}:offset:spec-subset-of-code", "subset", L["offset.spec"], L["offset.tail"],
             lambda w: (std_off.fullmatch(w) is not None and not odl_accepts(w), {"text": "10:20" + w}),
             f"{pid}:{n}:regex:offset:rejects-spec", f"{n}: a zone offset [+-]H[H][:MM] (hour 0-12) is not matched by the suffix pattern"),
            (f"{n}:offset:hours-at-most-12", "subset", L["offset.tail"], z(r"[+-](?:0?\d|1[0-2])(?::?[0-5]\d)?"),
             lambda w: (odl_accepts(w), {"text": "10:20" + w}),
             f"{pid}:{n}:regex:offset:accepts-non-spec", f"{n}: the suffix pattern accepts an offset outside [+-](0-12)[[:]MM]"),
        ]
    return out


def run_ground(section, obls):
    rest = []
    for o in obls:
        if o[1] == "ground":
            name, _, okv, _, _, key, what = o
            section.obl(f"regex:{name}", DISCHARGED if okv else FAILED, "ground")
            if not okv:
                section.violation(key, what, {}, f"regex:{name}", concrete=True)
        else:
            rest.append(o)
    return rest


# ---------------------------------------------------------------- model validation (bounded)


def validation_section(ctx, dialects):
    """bounded cross-check of the translation and of the assumed CPython languages: every model
    language with a native acceptor is compared with that acceptor on solver witnesses, their
    single-character mutations and random strings over the language's own alphabet"""
    s = Section("regex-model-validation", "bounded", bounded=True,
                rule="model language (z3 regex) == native acceptor (re.fullmatch / the real decoder function) on sampled strings",
                bounds={"strings_per_language": 400 if not ctx.thorough else 4000, "mutations": "1 edit of solver witnesses"})
    t0 = time.time()
    rnd = random.Random(ctx.seed * 7919 + 3)
    n_per = s.bounds["strings_per_language"]
    seen = set()
    for dl in dialects:
        for name, lz in dl.L.items():
            nat = dl.py.get(name)
            if nat is None:
                src = dl.src.get(name)
                if src is None or " & " in src:
                    continue
                c = re.compile(src, dl.flags.get(name, 0))
                nat = (lambda c: lambda w: c.fullmatch(w) is not None)(c)
            k = (name, lz.sexpr())
            if k in seen:
                continue
            seen.add(k)
            st, w, _ = decide("nonempty", lz)
            seeds = [w] if st == "sat" else []
            alphabet = sorted(set("".join(seeds)) | set(_alphabet_of(dl.src.get(name, "")))) or list("01")
            pool = list(seeds)
            for _ in range(5):
                st2, w2, _ = R.witness_in(lz, not_in=U(*[z3.Re(x) for x in pool])) if pool else ("unsat", None, 0)
                if st2 == "sat":
                    pool.append(R.unescape(w2))
            tests = set(pool)
            while len(tests) < n_per:
                base = rnd.choice(pool) if pool and rnd.random() < 0.7 else "".join(rnd.choice(alphabet) for _ in range(rnd.randint(0, 8)))
                b = list(base)
                for _ in range(rnd.randint(0, 2)):
                    op = rnd.random()
                    pos = rnd.randint(0, len(b))
                    if op < 0.4 and b:
                        b[min(pos, len(b) - 1)] = rnd.choice(alphabet)
                    elif op < 0.7:
                        b.insert(pos, rnd.choice(alphabet))
                    elif b:
                        del b[min(pos, len(b) - 1)]
                tests.add("".join(b))
            x = z3.String("x")
            for w in sorted(tests):
                if any(ord(ch) > 255 for ch in w):
                    continue
                mv = z3.simplify(z3.InRe(z3.StringVal(w), lz))
                if not (z3.is_true(mv) or z3.is_false(mv)):
                    sv = z3.Solver()
                    sv.add(z3.InRe(z3.StringVal(w), lz))
                    mv = sv.check() == z3.sat
                else:
                    mv = z3.is_true(mv)
                try:
                    nv = bool(nat(w))
                except Exception as e:   # noqa
                    nv = None
                s.case(sample={"language": f"{dl.name}:{name}", "text": w, "in_model": mv, "native": nv},
                       distinct_key=(name, w))
                if nv is not None and nv != mv:
                    s.violation(f"{ctx.pid}:{dl.name}:regex-model:{name}:{w!r}",
                                f"the model language {name} and its native acceptor disagree on {w!r} (model {mv}, native {nv}) - "
                                "checker modelling error or a change of the interpreter's number/date syntax",
                                {"text": w, "in_model": mv, "native": nv, "pattern": dl.src.get(name)}, concrete=True)
    s.seconds = time.time() - t0
    return s


def _alphabet_of(pattern):
    chars = set()
    for ch in pattern:
        if ch.isalnum() or ch in "+-#.:_ TZ'\"":
            chars.add(ch)
    chars |= set("0123456789+-#.:_eEZT") | {"\u0663", "\u00b2", "\u00a0", "\x1c", "\u2003"}      # + a non-ASCII digit, a superscript, odd white space
    return sorted(chars)


# ---------------------------------------------------------------- entry


def all_obligations(pid, dl):
    obls = []
    if pid in ("C03", "C17"):
        obls += based_obligations(pid, dl)
        obls += decimal_obligations(pid, dl)
    if pid == "C17":
        obls += class_obligations(pid, dl)
    if pid in ("C14", "C17"):
        obls += temporal_obligations(pid, dl)
    return obls


def replay(pid, data):
    """re-decide the recorded obligation on the current tree and replay the recorded witness natively"""
    name = str(data.get("obligation", ""))
    if not name.startswith("regex:"):
        return None
    dl = Dialect(name.split(":")[1])
    for o in all_obligations(pid, dl):
        if "regex:" + o[0] != name:
            continue
        if o[1] == "ground":
            return None if o[2] else o[6]
        w = data.get("witness")
        if w is not None and o[4] is not None and o[1] != "nonempty":
            okc, extra = o[4](w)
            if okc:
                return f"{o[6]}: {w!r} {extra}"
        st, w2, _ = decide(o[1], o[2], o[3])
        if o[1] != "nonempty" and st == "sat":
            okc, extra = o[4](w2) if o[4] else (True, {})
            if okc:
                return f"{o[6]}: {w2!r} {extra}"
        return None
    return f"obligation {name} no longer exists"


def sections_for(pid, ctx):
    import pvl  # noqa: F401  (the live objects of /repo)
    names = ("PVL", "ODL", "PDS3", "ISIS", "Omni")
    dialects = [Dialect(n) for n in names]
    s = Section("regex-languages", "regex",
                rule="languages of the grammar's compiled patterns / format tables versus the dialect syntax: "
                     "equivalence, inclusion and disjointness decided for all strings by z3's regex solver")
    t0 = time.time()
    for dl in dialects:
        obls = run_ground(s, all_obligations(pid, dl))
        run_obligations(s, pid, obls)
    s.functions += ["pvl.grammar.PVLGrammar (binary_re octal_re hex_re nondecimal_pre_re leap_second_*_re *_formats)",
                    "pvl.grammar.ODLGrammar (nondecimal_re nondecimal_pre_re)", "pvl.grammar.OmniGrammar (nondecimal_re nondecimal_pre_re)",
                    "pvl.decoder.ODLDecoder.decode_datetime (inline offset pattern)"]
    s.assumptions += [
        "int(s,10) / float(s) accept exactly PY_INT / PY_FLOAT over latin-1 text (assumed CPython contract; validated on sampled strings every run)",
        "int(digits, base=r) accepts exactly [+-]?<digits below r>+ on the texts the based-integer patterns let through",
        "datetime.strptime(text, fmt) matches text against _strptime.TimeRE().pattern(fmt) (IGNORECASE, full match) and then "
        "rejects seconds 60/61 and year 0000 through the datetime constructor; calendar validity of day-of-month and day 366 is "
        "outside the regular model (bounded driver)",
        "real_cls is float (the default); OmniDecoder's dateutil fallback is outside the model",
        "regex translation: \\d / \\s / \\w are the character sets CPython's re gives them (computed from the interpreter over all code "
        "points), IGNORECASE on ASCII letters, universe = all strings (z3 characters); anchors ignored because every use is a full match",
    ]
    s.seconds = time.time() - t0
    return [s, validation_section(ctx, dialects)]


# ---------------------------------------------------------------- substitution patterns (C01 C02 C07 C15)


def _sub_patterns(func, self_obj):
    """first arguments of the re.sub calls of *func*, evaluated with the function's own simple assignments
    (names bound to expressions over self.grammar) -> list of (lineno, pattern text)"""
    src = textwrap.dedent(inspect.getsource(func))
    tree = ast.parse(src)
    ns = {"self": self_obj, "re": re}
    out = []
    for n in ast.walk(tree):
        if isinstance(n, ast.Assign) and len(n.targets) == 1 and isinstance(n.targets[0], ast.Name):
            try:
                ns[n.targets[0].id] = eval(compile(ast.Expression(n.value), "<assign>", "eval"), dict(ns))
            except Exception:
                pass
    for n in ast.walk(tree):
        if (isinstance(n, ast.Call) and isinstance(n.func, ast.Attribute) and n.func.attr == "sub"
                and isinstance(n.func.value, ast.Name) and n.func.value.id == "re"):
            e = ast.Expression(n.args[0])
            ast.fix_missing_locations(e)
            try:
                out.append((n.lineno, eval(compile(e, "<re.sub>", "eval"), dict(ns)), ast.unparse(n.args[1])))
            except Exception as ex:
                out.append((n.lineno, None, repr(ex)))
    return out


def _cls(chars):
    return "[" + "".join(re.escape(c) for c in chars) + "]"


def substitution_section(pid):
    import pvl.parser as P
    import pvl.decoder as D
    import pvl.grammar as G
    s = Section("continuation-and-folding-patterns", "regex",
                rule="the inline substitution patterns of OmniParser.parse (dash continuation) and ODLDecoder.decode_quoted_string "
                     "(dash continuation, white-space folding) denote exactly the documented normalisations, for all strings")
    t0 = time.time()
    PYWS_ALL = "[\t-\r\x1c-\x1f \x85\xa0]"

    def both(name, code_pat, spec_pat, what, native_check):
        a, b = z(code_pat), z(spec_pat)
        for tag, x, y in (("code-subset-of-spec", a, b), ("spec-subset-of-code", b, a)):
            st, w, dt = decide("subset", x, y)
            full = f"regex:{name}:{tag}"
            if st == "unsat":
                s.obl(full, DISCHARGED, "z3-seq", dt)
            elif st == "sat":
                ok, data = native_check(w)
                if ok:
                    s.obl(full, FAILED, "z3-seq", dt, detail=f"counterexample {w!r}")
                    s.violation(f"{pid}:regex:{name}:{tag}", f"{what}: {w!r} {data}", {"witness": w, "obligation": full, **data}, full)
                else:
                    s.obl(full, UNDECIDED, "z3-seq", dt, detail=f"witness {w!r} not reproduced natively {data}")
            else:
                s.obl(full, UNDECIDED, "z3-seq", dt, detail=str(w))

    # OmniParser.parse: a dash, a line-end character (LF, CR, FF), then any white space
    par = P.OmniParser()
    subs = _sub_patterns(P.OmniParser.parse, par)
    cont = [x for x in subs if x[1] is not None and x[2] in ("''", '""')]
    s.obl("regex:omni-continuation:exactly-one-removing-substitution-in-OmniParser.parse", DISCHARGED if len(cont) == 1 and len(subs) == 1 else FAILED,
          "ground", detail=str(subs))
    if cont:
        pat = cont[0][1]
        spec = "-[\n\r\f]" + PYWS_ALL + "*"

        def native(w):
            got = re.fullmatch(pat, w) is not None
            want = re.fullmatch(spec, w) is not None
            try:
                loaded = dict(P.OmniParser().parse("a = x" + w + "y\nEND"))
            except Exception as e:   # noqa
                loaded = repr(e)
            return got != want, {"code_matches": got, "spec_matches": want, "loads('a = x'+w+'y')": repr(loaded)[:80]}
        both("omni-continuation", pat, spec, "default loader: the dash-continuation pattern differs from '-<line end><white space>*'", native)
    # ODLDecoder.decode_quoted_string, for the ODL, PDS3 and Omni decoders
    for dname, dec in (("ODL", D.ODLDecoder()), ("PDS3", D.PDSLabelDecoder()), ("Omni", D.OmniDecoder())):
        g = dec.grammar
        subs = _sub_patterns(D.ODLDecoder.decode_quoted_string, dec)
        rm = [x for x in subs if x[1] is not None and x[2] in ("''", '""')]
        fold = [x for x in subs if x[1] is not None and x[2] in ("' '", '" "')]
        s.obl(f"regex:{dname}:quoted-string:one-continuation-and-one-folding-substitution",
              DISCHARGED if len(rm) == 1 and len(fold) == 1 and len(subs) == 2 else FAILED, "ground", detail=str(subs))
        fe, ws = _cls(g.format_effectors), _cls(g.whitespace)
        if rm:
            def native_c(w, pat=rm[0][1], spec=f"-{fe}{ws}*", dec=dec):
                got, want = re.fullmatch(pat, w) is not None, re.fullmatch(spec, w) is not None
                return got != want, {"code_matches": got, "spec_matches": want,
                                     "decode_quoted_string": repr(dec.decode_quoted_string('"x' + w + 'y"'))[:60]}
            both(f"{dname}:quoted-continuation", rm[0][1], f"-{fe}{ws}*",
                 f"{dname}: the quoted-string continuation pattern differs from '-<format effector><white space of the grammar>*'", native_c)
        if fold:
            def native_f(w, pat=fold[0][1], spec=f"{ws}+", dec=dec):
                got, want = re.fullmatch(pat, w) is not None, re.fullmatch(spec, w) is not None
                return got != want, {"code_matches": got, "spec_matches": want,
                                     "decode_quoted_string": repr(dec.decode_quoted_string('"x' + w + 'y"'))[:60]}
            both(f"{dname}:white-space-folding", fold[0][1], f"{ws}+",
                 f"{dname}: the folding pattern differs from 'one or more white-space characters of the grammar'", native_f)
    s.functions += ["pvl.parser.OmniParser.parse (continuation pre-pass)", "pvl.decoder.ODLDecoder.decode_quoted_string (patterns)"]
    s.assumptions += ["re.sub(pattern, repl, text) replaces the leftmost non-overlapping matches (CPython); only the languages of the "
                      "patterns are decided here, and that each function has exactly these substitutions",
                      "\\s in a str pattern = Python white space within latin-1"]
    s.seconds = time.time() - t0
    return s
