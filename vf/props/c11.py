"""C11 — copies of a container are equal, independent and leave the original intact.

Deductive core: `.copy()` is verified with the C10 engine (result is a *fresh* object of the same
class with an equal list and the original unchanged; together with C10's frames, top-level
mutation of either side cannot show through); ownership obligations (the private list and the
stored value lists never escape) are part of every T_seq contract.  copy.copy / copy.deepcopy /
pickle run CPython's reduction protocol, which is outside the verifier's reach: obligation R1
(ground + structural, on the real class) pins down what `__reduce__` hands to that protocol;
the protocol itself is an assumed contract, validated by the bounded driver.
"""
import ast
import copy
import pickle
import time

from ..harness import Section, DISCHARGED, FAILED
from ..pyvc.verify import verify_contracts
from ..pyvc.seqtheory import SeqTheory
from ..pyvc.source import Program
from ..contracts import collections as cc
from ..rtc import c11_copies as drv

NEEDED = ("copy", "__init__", "extend", "append", "ItemsView.__iter__", "OrderedMultiDict.__len__", "OrderedMultiDict.items",
          "OrderedMultiDict.__iter__")


def smt_section(ctx):
    s = Section("copy-contract", "smt", rule="OrderedMultiDict.copy and the constructor chain it relies on (T_seq)")
    contracts = cc.contracts()
    keep = {"pvl.collections.OrderedMultiDict.copy", "pvl.collections.OrderedMultiDict.__init__",
            "pvl.collections.OrderedMultiDict.extend", "pvl.collections.OrderedMultiDict.append"}
    for c in contracts:
        if c.target not in keep:
            c.assumed = True
            c.note = "verified in the C10 check"
    verify_contracts(s, contracts, SeqTheory, ["pvl.collections"], std=True, jobs=ctx.jobs)
    s.assumptions = ["callee contracts of the other container methods: verified in the C10 check (same engine, same run-time source)",
                     "pyvc encoding; z3 unsat answers; sequence-theory axioms (Lean-checked in the thorough tier of C10)"]
    return s


def reduce_section():
    import pvl.collections as pc
    s = Section("reduction", "ground", rule="R1: what __reduce__ hands to the copy/pickle protocol (structural + on instances)")
    prog = Program(["pvl.collections"])

    def ob(name, ok, detail=""):
        s.obl(name, DISCHARGED if ok else FAILED, "ground", detail=str(detail), function="pvl.collections.OrderedMultiDict.__reduce__")

    ci = prog.classes.get("pvl.collections.OrderedMultiDict")
    fn = ci.methods.get("__reduce__") if ci else None
    ob("OrderedMultiDict.__reduce__:defined-in-the-class", fn is not None)
    for cls in (pc.OrderedMultiDict, pc.PVLModule, pc.PVLAggregation, pc.PVLGroup, pc.PVLObject):
        ob(f"{cls.__name__}.__reduce__:resolves-to-OrderedMultiDict.__reduce__",
           cls.__reduce__ is pc.OrderedMultiDict.__reduce__)
        ob(f"{cls.__name__}:no-__reduce_ex__/__getstate__/__copy__/__deepcopy__-override",
           all(n not in vars(c) for c in cls.__mro__[:-2] if c.__module__ == "pvl.collections"
               for n in ("__reduce_ex__", "__getstate__", "__setstate__", "__copy__", "__deepcopy__", "__getnewargs__")))
    if fn is not None:
        rets = [n for n in ast.walk(fn) if isinstance(n, ast.Return)]
        ok = len(rets) == 1 and isinstance(rets[0].value, ast.Tuple) and len(rets[0].value.elts) == 3
        ob("__reduce__:returns-a-3-tuple", ok)
        if ok:
            a, b, c = rets[0].value.elts
            ob("__reduce__:callable-is-type(self)", ast.unparse(a) == "type(self)")
            ob("__reduce__:args-is-a-fresh-list-of-the-private-list", ast.unparse(b).replace(" ", "") in ("(list(self.__items),)",))
            ob("__reduce__:state-excludes-the-private-list", "_OrderedMultiDict__items" in ast.unparse(fn))
    # on instances: reduce value reconstructs an equal, fresh container (lemma R2 evaluated natively on a spread of shapes)
    shapes = [[], [("a", 1)], [("a", 1), ("b", 2), ("a", 3)], [("g", pc.PVLGroup([("x", [1, 2]), ("x", 3)])), ("g", 4)]]
    for cls in (pc.OrderedMultiDict, pc.PVLModule, pc.PVLGroup, pc.PVLObject):
        for L in shapes:
            m = cls(L)
            m.errors = [1]
            f, args, state = m.__reduce__()
            r = f(*args)
            ok = (f is cls and type(args) is tuple and len(args) == 1 and args[0] == L and args[0] is not m._OrderedMultiDict__items
                  and r == m and list(r) == L and state == {"errors": [1]})
            ob(f"{cls.__name__}.__reduce__({len(L)} items):reconstructs-equal-fresh-container", ok)
    s.assumptions += ["assumed contract of the copy/pickle protocol: copy.copy(x) = cls(*args) with state applied; deepcopy deep-copies "
                      "args and state first; pickle serialises (cls, args, state) — library reference, validated by the bounded driver"]
    return s


def run(ctx):
    return [smt_section(ctx), reduce_section()] + drv.sections(ctx)


def replay(data):
    return drv.replay(data)
