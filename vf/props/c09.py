"""C09 - entry points agree; nothing after END matters.  Deductive core: the END discipline of the
parser contracts (parse_end_statement requests at most one token and marks the stream ended;
parse_module returns at once; every next() site carries the obligation `not after END`), the
lexer's bounded look-ahead, and the wiring of loads/dump/dumps.  Route selection in get_text_from
(exception-driven, depends on pathlib/codecs/stream buffering) is bounded."""
import ast

from ..harness import Section, DISCHARGED, FAILED
from ..pyvc.source import Program
from .parser_common import parser_section, protocol_section, entry_section
from ..rtc import c09_entrypoints as drv


def lookahead_section():
    s = Section("lexer-look-ahead", "frame",
                rule="per iteration the lexer reads the text only at i-1, i, i+1 and one startswith at i+1")
    prog = Program(["pvl.lexer"])
    fn = prog.functions["pvl.lexer.lexer"]
    loop = [n for n in fn.body if isinstance(n, ast.For)][0]
    reads = []
    for n in ast.walk(loop):
        if isinstance(n, ast.Subscript) and isinstance(n.value, ast.Name) and n.value.id == "s":
            reads.append(ast.unparse(n))
        if isinstance(n, ast.Call) and isinstance(n.func, ast.Attribute) and isinstance(n.func.value, ast.Name) \
                and n.func.value.id == "s":
            reads.append(ast.unparse(n))
        if isinstance(n, ast.Call) and isinstance(n.func, ast.Name) and any(isinstance(a, ast.Name) and a.id == "s" for a in n.args):
            reads.append(ast.unparse(n)[:60])
    allowed_prefix = ("enumerate(s)", "_prev_char(s, i)", "_next_char(s, i)", "LexerError(")

    def ok_read(r):
        if r.startswith(allowed_prefix):
            return True
        # s.startswith(<prefixes>, i + 1): reads from position i+1 only (whatever expression builds the prefixes)
        try:
            c = ast.parse(r, mode="eval").body
        except SyntaxError:
            return False
        return (isinstance(c, ast.Call) and isinstance(c.func, ast.Attribute) and c.func.attr == "startswith" and len(c.args) == 2
                and ast.unparse(c.args[1]) == "i + 1")
    bad = [r for r in reads if not ok_read(r)]
    s.obl("pvl.lexer.lexer:text-read-only-at-i-1,i,i+1-and-one-startswith(i+1)", DISCHARGED if reads and not bad else FAILED,
          "frame", detail=str(bad or reads), function="pvl.lexer.lexer")
    for nm, want in (("_prev_char", "s[idx - 1]"), ("_next_char", "s[idx + 1]")):
        f = prog.functions[f"pvl.lexer.{nm}"]
        subs = [ast.unparse(n) for n in ast.walk(f) if isinstance(n, ast.Subscript)]
        s.obl(f"pvl.lexer.{nm}:reads-exactly-{want}", DISCHARGED if subs == [want] else FAILED, "frame", detail=str(subs),
              function=f"pvl.lexer.{nm}")
    s.assumptions.append("enumerate(s) and str.startswith(prefixes, i+1) read no further than i+1+max(len(comment opener))")
    return s


def strict_tail_section(ctx):
    """bounded: data glued to END (no separator) under the strict parsers, whose grammars do not allow the data's characters"""
    import os
    import tempfile
    import pvl
    from pvl.parser import PVLParser, ODLParser
    from pvl.grammar import PVLGrammar, ODLGrammar, PDSGrammar, ISISGrammar
    from pvl.decoder import PVLDecoder, ODLDecoder, PDSLabelDecoder
    s = Section("strict-parsers-data-glued-to-END", "bounded", bounded=True,
                rule="loads/load with an explicit strict parser: text + 'END' + tail (no separator) gives the module of the text alone",
                bounds={"labels": 3, "tails": 9, "parsers": 4, "routes": 2})
    labels = ["a = 1\n", "GROUP = g\n  b = (1, 2)\nEND_GROUP\nc = 'x'\n", ""]
    tails = ["\x00", "\x00\x01\x02data", "\x1a", "\x7f\x80", "\u00e9\u00ff", "\u0100\u2028", "\x00" * 5000, "\x0e=\x0f", "\x01END"]
    cfgs = {"PVL": lambda: PVLParser(grammar=PVLGrammar(), decoder=PVLDecoder(grammar=PVLGrammar())),
            "ODL": lambda: ODLParser(grammar=ODLGrammar(), decoder=ODLDecoder(grammar=ODLGrammar())),
            "PDS3": lambda: ODLParser(grammar=PDSGrammar(), decoder=PDSLabelDecoder(grammar=PDSGrammar())),
            "ISIS": lambda: PVLParser(grammar=ISISGrammar(), decoder=PVLDecoder(grammar=ISISGrammar()))}
    for cname, mk in cfgs.items():
        for lab in labels:
            try:
                want = pvl.loads(lab + "END\n", parser=mk())
            except Exception as e:   # noqa
                s.notes.append(f"{cname}: base label does not load: {e!r}"[:120])
                continue
            g = mk().grammar
            for tail in tails:
                if g.char_allowed(tail[0]):
                    continue          # an allowed character glued to END makes another word: not an END statement
                text = lab + "END" + tail
                for route in ("loads", "load-path"):
                    try:
                        if route == "loads":
                            got = pvl.loads(text, parser=mk())
                        else:
                            with tempfile.NamedTemporaryFile("w", suffix=".lbl", delete=False, encoding="utf-8", newline="") as fh:
                                fh.write(text)
                            try:
                                got = pvl.load(fh.name, parser=mk())
                            finally:
                                os.unlink(fh.name)
                        bad = None if got == want else f"returned {got!r} instead of {want!r}"
                    except Exception as e:   # noqa
                        bad = f"raised {type(e).__name__}: {str(e)[:100]}"
                    s.case(distinct_key=(cname, lab, tail[:8], route), sample={"parser": cname, "text": text[:40], "route": route})
                    if bad:
                        s.violation(f"C09:{cname}:glued-tail:{route}:{tail[:4]!r}",
                                    f"{cname} {route}({text[:60]!r}...): {bad}; the label alone loads",
                                    {"parser": cname, "text": text[:200], "route": route, "kind": "strict-glued-tail"})
    return s


def run(ctx):
    return [parser_section(ctx), protocol_section(), entry_section(), lookahead_section(), strict_tail_section(ctx)] + drv.sections(ctx)


def replay(data):
    if data.get("kind") == "strict-glued-tail":
        from ..harness import Ctx
        sec = strict_tail_section(Ctx("C09", "quick", 0))
        for v in sec.violations:
            if v.data.get("parser") == data.get("parser"):
                return v.what
        return None
    return drv.replay(data)
