"""C09 - entry points agree; nothing after END matters.  Deductive core: the END discipline of the
parser contracts (parse_end_statement requests at most one token and marks the stream ended;
parse_module returns at once; every next() site carries the obligation `not after END`), the
lexer's bounded look-ahead, and the wiring of loads/dump/dumps.  Route selection in get_text_from
(exception-driven, depends on pathlib/codecs/stream buffering) is bounded."""
import ast

from ..harness import Section, DISCHARGED, FAILED
from ..pyvc.source import Program
from .parser_common import parser_section, protocol_section, entry_section
from ..rtc import c09_entrypoints as drv


def _affine(e, idx):
    """offset k if expression e is <idx> + k for an integer literal k (k may be 0 or negative), else None"""
    if isinstance(e, ast.Name) and e.id == idx:
        return 0
    if isinstance(e, ast.BinOp) and isinstance(e.op, (ast.Add, ast.Sub)):
        sign = 1 if isinstance(e.op, ast.Add) else -1
        if isinstance(e.right, ast.Constant) and isinstance(e.right.value, int):
            k = _affine(e.left, idx)
            return None if k is None else k + sign * e.right.value
        if isinstance(e.op, ast.Add) and isinstance(e.left, ast.Constant) and isinstance(e.left.value, int):
            k = _affine(e.right, idx)
            return None if k is None else k + e.left.value
    return None


def text_reads(prog, body, text, idx, depth=0):
    """Where the statements in *body* read the text bound to the name *text*, relative to the position bound to *idx*:
    -> (offsets of single-character reads, offsets of prefix tests, [uses that cannot be placed]).
    Calls that hand the text to another function of pvl.lexer are followed (the callee's own reads, shifted by the index
    argument); len(text), enumerate(text) and the construction of the LexerError (which ends the scan) read nothing the
    look-ahead bound is about."""
    chars, prefixes, unknown = set(), set(), []
    consumed = set()
    nodes = [n for st in body for n in ast.walk(st)]
    for n in nodes:
        if isinstance(n, ast.Subscript) and isinstance(n.value, ast.Name) and n.value.id == text:
            consumed.add(id(n.value))
            k = None if isinstance(n.slice, ast.Slice) else _affine(n.slice, idx)
            if k is None:
                unknown.append(ast.unparse(n))
            else:
                chars.add(k)
        elif isinstance(n, ast.Call):
            f = n.func
            if isinstance(f, ast.Attribute) and isinstance(f.value, ast.Name) and f.value.id == text:
                consumed.add(id(f.value))
                k = _affine(n.args[1], idx) if f.attr == "startswith" and len(n.args) == 2 and not n.keywords else None
                if k is None:
                    unknown.append(ast.unparse(n))
                else:
                    prefixes.add(k)
                continue
            pos = [j for j, a in enumerate(n.args) if isinstance(a, ast.Name) and a.id == text]
            kws = [k for k in n.keywords if isinstance(k.value, ast.Name) and k.value.id == text]
            if not pos and not kws:
                continue
            for j in pos:
                consumed.add(id(n.args[j]))
            for k in kws:
                consumed.add(id(k.value))
            name = ast.unparse(f)
            if name in ("len", "enumerate", "LexerError"):
                continue
            callee = prog.functions.get(f"pvl.lexer.{name}")
            if callee is None or kws or len(pos) != 1 or depth > 3:
                unknown.append(ast.unparse(n)[:80])
                continue
            params = [a.arg for a in callee.args.args]
            tparam = params[pos[0]]
            # the callee's position parameter: the argument that is affine in our index
            shifts = [(params[j], _affine(a, idx)) for j, a in enumerate(n.args) if j < len(params) and _affine(a, idx) is not None]
            if len(shifts) != 1:
                unknown.append(ast.unparse(n)[:80])
                continue
            iparam, shift = shifts[0]
            c2, p2, u2 = text_reads(prog, callee.body, tparam, iparam, depth + 1)
            chars |= {k + shift for k in c2}
            prefixes |= {k + shift for k in p2}
            unknown += [f"{name}: {u}" for u in u2]
    for n in nodes:
        if isinstance(n, ast.Name) and n.id == text and isinstance(n.ctx, ast.Load) and id(n) not in consumed:
            unknown.append(f"the text itself escapes (line {n.lineno})")
    return chars, prefixes, unknown


def lookahead_section():
    s = Section("lexer-look-ahead", "frame",
                rule="per iteration the lexer reads the text only at i-1, i, i+1 and tests prefixes at i+1 (reads inside the "
                     "pvl.lexer helpers it hands the text to are followed)")
    prog = Program(["pvl.lexer"])
    fn = prog.functions["pvl.lexer.lexer"]
    text = fn.args.args[0].arg
    loops = [n for n in fn.body if isinstance(n, ast.For)]
    ok = len(loops) == 1 and isinstance(loops[0].iter, ast.Call) and ast.unparse(loops[0].iter) == f"enumerate({text})" \
        and isinstance(loops[0].target, ast.Tuple) and isinstance(loops[0].target.elts[0], ast.Name)
    detail = "the scan is not a single `for i, char in enumerate(text)` loop"
    if ok:
        idx = loops[0].target.elts[0].id
        chars, prefixes, unknown = text_reads(prog, loops[0].body, text, idx)
        ok = not unknown and chars <= {-1, 0, 1} and prefixes <= {1} and bool(chars | prefixes)
        detail = f"character reads at offsets {sorted(chars)}, prefix tests at {sorted(prefixes)}, not placed: {unknown}"
        outside = [st for st in fn.body if st is not loops[0]]
        c0, p0, u0 = text_reads(prog, outside, text, "<none>")
        if c0 or p0 or [u for u in u0 if "escapes" not in u]:
            ok = False
            detail += f"; reads outside the loop: {sorted(c0)} {sorted(p0)} {u0}"
    s.obl("pvl.lexer.lexer:text-read-only-at-i-1,i,i+1-and-one-startswith(i+1)", DISCHARGED if ok else FAILED,
          "frame", detail=detail, function="pvl.lexer.lexer")
    s.assumptions.append("enumerate(s) and str.startswith(prefixes, i+1) read no further than i+1+max(len(comment opener))")
    return s


def strict_tail_section(ctx):
    """bounded: data glued to END (no separator) under the strict parsers, whose grammars do not allow the data's characters"""
    import os
    import tempfile
    import pvl
    from pvl.parser import PVLParser, ODLParser
    from pvl.grammar import PVLGrammar, ODLGrammar, PDSGrammar, ISISGrammar
    from pvl.decoder import PVLDecoder, ODLDecoder, PDSLabelDecoder
    s = Section("strict-parsers-data-glued-to-END", "bounded", bounded=True,
                rule="loads/load with an explicit strict parser: text + 'END' + tail (no separator) gives the module of the text alone",
                bounds={"labels": 3, "tails": 9, "parsers": 4, "routes": 2})
    labels = ["a = 1\n", "GROUP = g\n  b = (1, 2)\nEND_GROUP\nc = 'x'\n", ""]
    tails = ["\x00", "\x00\x01\x02data", "\x1a", "\x7f\x80", "\u00e9\u00ff", "\u0100\u2028", "\x00" * 5000, "\x0e=\x0f", "\x01END"]
    cfgs = {"PVL": lambda: PVLParser(grammar=PVLGrammar(), decoder=PVLDecoder(grammar=PVLGrammar())),
            "ODL": lambda: ODLParser(grammar=ODLGrammar(), decoder=ODLDecoder(grammar=ODLGrammar())),
            "PDS3": lambda: ODLParser(grammar=PDSGrammar(), decoder=PDSLabelDecoder(grammar=PDSGrammar())),
            "ISIS": lambda: PVLParser(grammar=ISISGrammar(), decoder=PVLDecoder(grammar=ISISGrammar()))}
    for cname, mk in cfgs.items():
        for lab in labels:
            try:
                want = pvl.loads(lab + "END\n", parser=mk())
            except Exception as e:   # noqa
                s.notes.append(f"{cname}: base label does not load: {e!r}"[:120])
                continue
            g = mk().grammar
            for tail in tails:
                if g.char_allowed(tail[0]):
                    continue          # an allowed character glued to END makes another word: not an END statement
                text = lab + "END" + tail
                for route in ("loads", "load-path"):
                    try:
                        if route == "loads":
                            got = pvl.loads(text, parser=mk())
                        else:
                            with tempfile.NamedTemporaryFile("w", suffix=".lbl", delete=False, encoding="utf-8", newline="") as fh:
                                fh.write(text)
                            try:
                                got = pvl.load(fh.name, parser=mk())
                            finally:
                                os.unlink(fh.name)
                        bad = None if got == want else f"returned {got!r} instead of {want!r}"
                    except Exception as e:   # noqa
                        bad = f"raised {type(e).__name__}: {str(e)[:100]}"
                    s.case(distinct_key=(cname, lab, tail[:8], route), sample={"parser": cname, "text": text[:40], "route": route})
                    if bad:
                        s.violation(f"C09:{cname}:glued-tail:{route}:{tail[:4]!r}",
                                    f"{cname} {route}({text[:60]!r}...): {bad}; the label alone loads",
                                    {"parser": cname, "text": text[:200], "route": route, "kind": "strict-glued-tail"})
    return s


def run(ctx):
    return [parser_section(ctx), protocol_section(), entry_section(), lookahead_section(), strict_tail_section(ctx)] + drv.sections(ctx)


def replay(data):
    if data.get("kind") == "strict-glued-tail":
        from ..harness import Ctx
        sec = strict_tail_section(Ctx("C09", "quick", 0))
        for v in sec.violations:
            if v.data.get("parser") == data.get("parser"):
                return v.what
        return None
    return drv.replay(data)
