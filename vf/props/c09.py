"""C09 - entry points agree; nothing after END matters.  Deductive core: the END discipline of the
parser contracts (parse_end_statement requests at most one token and marks the stream ended;
parse_module returns at once; every next() site carries the obligation `not after END`), the
lexer's bounded look-ahead, and the wiring of loads/dump/dumps.  Route selection in get_text_from
(exception-driven, depends on pathlib/codecs/stream buffering) is bounded."""
import ast

from ..harness import Section, DISCHARGED, FAILED
from ..pyvc.source import Program
from .parser_common import parser_section, protocol_section, entry_section
from ..rtc import c09_entrypoints as drv


def lookahead_section():
    s = Section("lexer-look-ahead", "frame",
                rule="per iteration the lexer reads the text only at i-1, i, i+1 and one startswith at i+1")
    prog = Program(["pvl.lexer"])
    fn = prog.functions["pvl.lexer.lexer"]
    loop = [n for n in fn.body if isinstance(n, ast.For)][0]
    reads = []
    for n in ast.walk(loop):
        if isinstance(n, ast.Subscript) and isinstance(n.value, ast.Name) and n.value.id == "s":
            reads.append(ast.unparse(n))
        if isinstance(n, ast.Call) and isinstance(n.func, ast.Attribute) and isinstance(n.func.value, ast.Name) \
                and n.func.value.id == "s":
            reads.append(ast.unparse(n)[:60])
        if isinstance(n, ast.Call) and isinstance(n.func, ast.Name) and any(isinstance(a, ast.Name) and a.id == "s" for a in n.args):
            reads.append(ast.unparse(n)[:60])
    allowed_prefix = ("enumerate(s)", "_prev_char(s, i)", "_next_char(s, i)", "s.startswith(tuple((p[0] for p in g.comments)), i + 1)",
                      "LexerError(")
    bad = [r for r in reads if not r.startswith(allowed_prefix)]
    s.obl("pvl.lexer.lexer:text-read-only-at-i-1,i,i+1-and-one-startswith(i+1)", DISCHARGED if reads and not bad else FAILED,
          "frame", detail=str(bad or reads), function="pvl.lexer.lexer")
    for nm, want in (("_prev_char", "s[idx - 1]"), ("_next_char", "s[idx + 1]")):
        f = prog.functions[f"pvl.lexer.{nm}"]
        subs = [ast.unparse(n) for n in ast.walk(f) if isinstance(n, ast.Subscript)]
        s.obl(f"pvl.lexer.{nm}:reads-exactly-{want}", DISCHARGED if subs == [want] else FAILED, "frame", detail=str(subs),
              function=f"pvl.lexer.{nm}")
    s.assumptions.append("enumerate(s) and str.startswith(prefixes, i+1) read no further than i+1+max(len(comment opener))")
    return s


def run(ctx):
    return [parser_section(ctx), protocol_section(), entry_section(), lookahead_section()] + drv.sections(ctx)


def replay(data):
    return drv.replay(data)
