"""./check entry point."""
import argparse
import importlib
import json
import os
import sys
import time
import traceback

from . import harness


def manifest_entry(pid):
    try:
        with open(os.path.join(harness.ROOT, "MANIFEST.json")) as fh:
            m = json.load(fh)
    except Exception:
        return None
    for c in m.get("checks", []):
        if c["property_id"] == pid:
            return c
    return None


def main(argv=None):
    ap = argparse.ArgumentParser()
    ap.add_argument("pid")
    ap.add_argument("--tier", default=os.environ.get("VERIF_TIER", "quick"),
                    choices=["quick", "thorough"])
    ap.add_argument("--replay", default=None)
    ap.add_argument("--only", default=None, help="run only sections whose name contains this")
    args = ap.parse_args(argv)
    pid = args.pid.upper()
    seed = int(os.environ.get("VERIF_SEED", "0") or 0)
    t0 = time.time()
    try:
        mod = importlib.import_module(f"vf.props.{pid.lower()}")
    except ModuleNotFoundError:
        print(f"no check for {pid}", file=sys.stderr)
        return 3
    if args.replay:
        with open(args.replay) as fh:
            rec = json.load(fh)
        try:
            res = mod.replay(rec.get("data", rec))
        except Exception:
            traceback.print_exc()
            return 3
        if res:
            print(f"VIOLATION property={pid} replay={args.replay}")
            print(f"  {res}")
            return 1
        print(f"replay of {args.replay}: property holds on this tree")
        return 0
    ctx = harness.Ctx(pid, args.tier, seed)
    ctx.only = args.only
    try:
        sections = mod.run(ctx)
        rc = harness.finish(ctx, manifest_entry(pid), sections, getattr(mod, "replay", None), t0)
    except Exception:
        traceback.print_exc()
        print(f"CHECKER-ERROR {pid}", file=sys.stderr)
        return 3
    return rc


if __name__ == "__main__":
    sys.exit(main())
