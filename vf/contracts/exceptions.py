"""Contracts for pvl/exceptions.py (C15: LexerError position attributes)."""
import z3

from ..pyvc.core import Contract, Exit, Z, Conc
from ..pyvc.objtheory import cnt, rfind, strlen, lit

NL = lit("\n")


def ival(v):
    if isinstance(v, Conc):
        return z3.IntVal(v.v)
    return v.t


def contracts():
    firstpos = Contract("pvl.exceptions.firstpos", params={"sub": "str", "pos": "int"}, exits=[
        Exit("return", res="int", post=lambda pre, post, a, r: [
            ("start-of-lexeme", r.t == a["pos"].t - strlen(a["sub"].t) + 1)])], props=("C15",))
    firstpos.pure = True
    linecount = Contract("pvl.exceptions.linecount", exits=[
        Exit("return", res="int", post=lambda pre, post, a, r: [
            ("newlines-before-end-plus-one", r.t == cnt(a["doc"].t, NL, ival(a["start"]), a["end"].t) + 1)])],
        props=("C15", "C08"))
    linecount.cases = [("default-start", {"doc": "str", "end": "int"}), ("start", {"doc": "str", "end": "int", "start": "int"})]
    linecount.pure = True

    def p_of(a):
        return a["pos"].t - strlen(a["lexeme"].t) + 1

    lexerr = Contract("pvl.exceptions.LexerError.__init__",
                      params={"msg": "opaque", "doc": "str", "pos": "int", "lexeme": "str"}, exits=[
        Exit("return", post=lambda pre, post, a, r: [
            ("pos-is-start-of-lexeme", post["self.pos"].t == p_of(a)),
            ("lineno-is-line-of-pos", post["self.lineno"].t == cnt(a["doc"].t, NL, z3.IntVal(0), p_of(a)) + 1),
            ("colno-is-column-of-pos", post["self.colno"].t == p_of(a) - rfind(a["doc"].t, NL, z3.IntVal(0), p_of(a))),
            ("doc-kept", z3.BoolVal(post["self.doc"] is a["doc"])),
            ("lexeme-kept", z3.BoolVal(post["self.lexeme"] is a["lexeme"])),
        ])], props=("C15",))
    return [firstpos, linecount, lexerr]
