"""Contract for PDSLabelEncoder._replace_value (C13): the one place where an encoder changes its
argument.  Verified modularly against the proved C10 contracts of OrderedMultiDict.items / clear /
extend: the item at *index* is replaced, every other item - also the ones that share its key -
keeps its place."""
import z3

from ..pyvc.core import Contract, Exit
from ..pyvc.seqtheory import mk, fst, sub, WF
from . import collections as cc


def contracts():
    def md(ex):
        return ex.theory.new_md(ex, "m", "OrderedMultiDict")

    def req(pre, a):
        L = pre.of(a["module"]).items
        i = a["index"].t
        return [("index-in-range", z3.And(0 <= i, i < z3.Length(L))),
                ("key-is-the-key-at-index", fst(L[i]) == a["key"].t)]

    def post(pre, post, a, r):
        L = pre.of(a["module"]).items
        L2 = post.of(a["module"]).items
        i = a["index"].t
        n = z3.Length(L)
        return [("the item at index is replaced and every other item keeps its place",
                 L2 == z3.Concat(sub(L, 0, i), z3.Unit(mk(a["key"].t, a["value"].t)), sub(L, i + 1, n))),
                ("length-unchanged", z3.Length(L2) == n)]

    c = Contract("pvl.encoder.PDSLabelEncoder._replace_value",
                 params={"module": md, "index": "int", "key": "K", "value": "V"},
                 requires=req, exits=[Exit("return", post=post)], props=("C13", "C12", "C01"))
    return [c]


# ------------------------------------------------------------------------------------------------
# T_enc: quoting decision, string rendering and value dispatch of the encoders (C17, C01, C12)

def quoting_contracts():
    from ..pyvc.core import LoopSpec, Z, Conc, ObjV
    from ..pyvc.objtheory import sval, S, strlen, strcat, lit, casefold
    from ..pyvc.lextheory import set_has, sub_in, tid
    from ..pyvc import enctheory as T
    from ..pyvc.enctheory import (anychar_in, cf_in, sub_any, tok_pred, pred_id, CONFIGURED, ident_ok, printable,
                                  str_of, type_is, type_id, gconst)
    E = "pvl.encoder."
    WS, RK, FE = tid("g.whitespace"), tid("g.reserved_keywords"), tid("g.format_effectors")
    q1, q2 = gconst("quote1"), gconst("quote2")
    APOS = lit("'")
    WIDTH = z3.Const("self_width", z3.IntSort())
    SSQ = z3.Const("self_symbol_single_quote", z3.BoolSort())

    def text(v):
        if isinstance(v, ObjV) and v.role == "pyval":
            return str_of(v.info["id"])
        return sval(v)

    def kw(s):
        c = casefold(s)
        return z3.Or(c == casefold(gconst("none_keyword")), c == casefold(gconst("true_keyword")),
                     c == casefold(gconst("false_keyword")), cf_in(RK, c))

    def nq_pvl(s):
        """the statement's quoting rule: a string is written bare only if it reads back as the same string -
        not empty, no white space, not a keyword in any letter case, and an unquoted string for the
        encoder's own grammar and decoder"""
        return z3.Or(s == lit(""), anychar_in(WS, s), kw(s),
                     z3.Not(tok_pred(pred_id("is_unquoted_string"), CONFIGURED, s)))

    def nq(cls, s):
        if cls in ("ODLEncoder", "PDSLabelEncoder"):
            return z3.Or(z3.Not(ident_ok(s)), nq_pvl(s))
        return nq_pvl(s)

    def sym(s):
        return z3.And(z3.Not(sub_in(APOS, s)), z3.Not(sub_any(FE, s)),
                      z3.Not(z3.ToReal(strlen(s)) > z3.ToReal(WIDTH) / 2), printable(s), strlen(s) > 0)

    def quoted_with(s, q):
        return strcat(strcat(q, s), q)

    def pvl_string_post(cls):
        def post(pre, post_, a, r):
            s = text(a["value"])
            n = nq(a["self"].cls if "self" in a and a["self"].cls else cls, s)
            return [("a string that does not need quotes is written as it is", z3.Implies(z3.Not(n), r.t == s)),
                    ("else it is enclosed in the first quote character it does not contain",
                     z3.Implies(n, z3.If(z3.Not(sub_in(q1, s)), r.t == quoted_with(s, q1), r.t == quoted_with(s, q2))))]
        return post

    def pvl_string_raises(pre, a):
        s = text(a["value"])
        return z3.And(nq(a["self"].cls, s), sub_in(q1, s), sub_in(q2, s))

    out = []
    kwloop = LoopSpec(
        fall_through=lambda env, st, x: [("the member does not casefold-equal s", casefold(x) != casefold(sval(env["s"])))],
        exit=lambda env, st: [("no reserved keyword casefold-equals s", z3.Not(cf_in(RK, casefold(sval(env["s"])))))])
    c = Contract(E + "PVLEncoder.needs_quotes", params={"s": "str"}, loops={0: kwloop}, exits=[
        Exit("return", res="bool", post=lambda pre, post, a, r: [
            ("quoting rule of the statement (C17/C01)", r.t == nq_pvl(sval(a["s"])))])], props=("C17", "C01"))
    c.cases = [(cls, {"s": "str", "__cls__": cls}) for cls in ("PVLEncoder", "ODLEncoder", "PDSLabelEncoder", "ISISEncoder")]
    out.append(c)

    c = Contract(E + "ODLEncoder.needs_quotes", params={"s": "str"}, exits=[
        Exit("return", res="bool", post=lambda pre, post, a, r: [
            ("ODL: only an identifier that passes the PVL rule is written bare", r.t == nq("ODLEncoder", sval(a["s"])))])],
        props=("C17", "C01", "C12"))
    c.cases = [(cls, {"s": "str", "__cls__": cls}) for cls in ("ODLEncoder", "PDSLabelEncoder")]
    out.append(c)

    c = Contract(E + "PVLEncoder.encode_string", params={"value": "pyval"}, exits=[
        Exit("return", res="str", when=lambda pre, a: z3.Not(pvl_string_raises(pre, a)), post=pvl_string_post(None)),
        Exit("ValueError", when=pvl_string_raises)], props=("C17", "C01"))
    c.cases = [(cls, {"value": "pyval", "__cls__": cls}) for cls in ("PVLEncoder", "ODLEncoder", "PDSLabelEncoder", "ISISEncoder")]
    out.append(c)

    feloop = LoopSpec(
        fall_through=lambda env, st, x: [("the format effector is not in the text", z3.Not(sub_in(x, sval(env["value"]))))],
        exit=lambda env, st: [("no format effector in the text", z3.Not(sub_any(FE, sval(env["value"]))))])
    c = Contract(E + "ODLEncoder.is_symbol", params={"value": "str"}, loops={0: feloop}, exits=[
        Exit("return", res="truthy", post=lambda pre, post, a, r: [
            ("truthy exactly for a symbol string: no apostrophe, no format effector, short enough to stay on one line, "
             "printable, not empty", r.t == sym(sval(a["value"])))])], props=("C12", "C01"))
    c.cases = [(cls, {"value": "str", "__cls__": cls}) for cls in ("ODLEncoder", "PDSLabelEncoder")]
    out.append(c)

    def odl_string(cls, single):
        def raises(pre, a):
            s = text(a["value"])
            return z3.And(nq(cls, s), z3.Not(single(s)), sub_in(q1, s), sub_in(q2, s))

        def post(pre, post_, a, r):
            s = text(a["value"])
            n = nq(cls, s)
            return [("bare only when no quotes are needed", z3.Implies(z3.Not(n), r.t == s)),
                    ("a symbol string is single-quoted", z3.Implies(z3.And(n, single(s)), r.t == quoted_with(s, APOS))),
                    ("any other string is enclosed in the first quote character it does not contain",
                     z3.Implies(z3.And(n, z3.Not(single(s))),
                                z3.If(z3.Not(sub_in(q1, s)), r.t == quoted_with(s, q1), r.t == quoted_with(s, q2))))]
        return [Exit("return", res="str", when=lambda pre, a: z3.Not(raises(pre, a)), post=post),
                Exit("ValueError", when=raises)]

    out.append(Contract(E + "ODLEncoder.encode_string", params={"value": "str"}, exits=odl_string("ODLEncoder", sym),
                        props=("C12", "C01", "C17")))
    out.append(Contract(E + "PDSLabelEncoder.encode_string", params={"value": "str"},
                        exits=odl_string("PDSLabelEncoder", lambda s: z3.And(sym(s), SSQ)), props=("C12", "C01", "C17")))

    # value dispatch by Python type (C01 anchor): callee results are opaque constants
    def callee(name, cls="PVLEncoder"):
        k = Contract(E + cls + "." + name, params={"value": "pyval"}, exits=[
            Exit("return", res=lambda ex: Z("str", z3.Const("result_of_" + name, S))), Exit("ValueError"), Exit("TypeError")])
        k.assumed = True
        k.note = "signature only: returns a str or raises ValueError/TypeError (text building: bounded drivers)"
        return k
    for nm in ("encode_set", "encode_sequence", "encode_datetype"):
        out.append(callee(nm))
    out += [callee("encode_set", "ODLEncoder"), callee("encode_sequence", "ODLEncoder"), callee("encode_set", "PDSLabelEncoder")]

    def res(name):
        return z3.Const("result_of_" + name, S)

    def ty(a, name):
        return type_is(a["value"].info["id"], type_id(name))

    def dispatch_post(pre, post, a, r):
        none = ty(a, "NoneType")
        st = z3.Or(ty(a, "set"), ty(a, "frozenset"))
        ls = ty(a, "list")
        dt = z3.Or(ty(a, "datetime.datetime"), ty(a, "datetime.date"), ty(a, "datetime.time"))
        bl = ty(a, "bool")
        num = ty(a, "self.numeric_types")
        earlier = []

        def first(cond):
            f = z3.And(cond, *[z3.Not(e) for e in earlier])
            earlier.append(cond)
            return f
        return [
            ("None is the none keyword", z3.Implies(first(none), r.t == gconst("none_keyword"))),
            ("sets go to encode_set", z3.Implies(first(st), r.t == res("encode_set"))),
            ("lists go to encode_sequence", z3.Implies(first(ls), r.t == res("encode_sequence"))),
            ("dates and times go to encode_datetype", z3.Implies(first(dt), r.t == res("encode_datetype"))),
            ("a bool is a keyword, never the text of a number (bool is an int)",
             z3.Implies(first(bl), z3.Or(r.t == gconst("true_keyword"), r.t == gconst("false_keyword")))),
            ("numbers are written by str()", z3.Implies(first(num), r.t == str_of(a["value"].info["id"]))),
        ]
    c = Contract(E + "PVLEncoder.encode_simple_value", params={"value": "pyval"}, exits=[
        Exit("return", res="str", post=dispatch_post), Exit("ValueError"), Exit("TypeError")], props=("C01", "C18"))
    c.cases = [(cls, {"value": "pyval", "__cls__": cls}) for cls in ("PVLEncoder", "ODLEncoder", "PDSLabelEncoder", "ISISEncoder")]
    out.append(c)
    return out
