"""Contract for PDSLabelEncoder._replace_value (C13): the one place where an encoder changes its
argument.  Verified modularly against the proved C10 contracts of OrderedMultiDict.items / clear /
extend: the item at *index* is replaced, every other item - also the ones that share its key -
keeps its place."""
import z3

from ..pyvc.core import Contract, Exit
from ..pyvc.seqtheory import mk, fst, sub, WF
from . import collections as cc


def contracts():
    def md(ex):
        return ex.theory.new_md(ex, "m", "OrderedMultiDict")

    def req(pre, a):
        L = pre.of(a["module"]).items
        i = a["index"].t
        return [("index-in-range", z3.And(0 <= i, i < z3.Length(L))),
                ("key-is-the-key-at-index", fst(L[i]) == a["key"].t)]

    def post(pre, post, a, r):
        L = pre.of(a["module"]).items
        L2 = post.of(a["module"]).items
        i = a["index"].t
        n = z3.Length(L)
        return [("the item at index is replaced and every other item keeps its place",
                 L2 == z3.Concat(sub(L, 0, i), z3.Unit(mk(a["key"].t, a["value"].t)), sub(L, i + 1, n))),
                ("length-unchanged", z3.Length(L2) == n)]

    c = Contract("pvl.encoder.PDSLabelEncoder._replace_value",
                 params={"module": md, "index": "int", "key": "K", "value": "V"},
                 requires=req, exits=[Exit("return", post=post)], props=("C13", "C12", "C01"))
    return [c]


# ------------------------------------------------------------------------------------------------
# T_enc: quoting decision, string rendering and value dispatch of the encoders (C17, C01, C12)

def quoting_contracts():
    from ..pyvc.core import LoopSpec, Z, Conc, ObjV
    from ..pyvc.objtheory import sval, S, strlen, strcat, lit, casefold
    from ..pyvc.lextheory import set_has, sub_in, tid
    from ..pyvc import enctheory as T
    from ..pyvc.enctheory import (anychar_in, cf_in, sub_any, tok_pred, pred_id, CONFIGURED, ident_ok, printable,
                                  str_of, type_is, type_id, gconst)
    E = "pvl.encoder."
    WS, RK, FE = tid("g.whitespace"), tid("g.reserved_keywords"), tid("g.format_effectors")
    q1, q2 = gconst("quote1"), gconst("quote2")
    APOS = lit("'")
    WIDTH = z3.Const("self_width", z3.IntSort())
    SSQ = z3.Const("self_symbol_single_quote", z3.BoolSort())

    def text(v):
        if isinstance(v, ObjV) and v.role == "pyval":
            return str_of(v.info["id"])
        return sval(v)

    def kw(s):
        c = casefold(s)
        return z3.Or(c == casefold(gconst("none_keyword")), c == casefold(gconst("true_keyword")),
                     c == casefold(gconst("false_keyword")), cf_in(RK, c))

    def nq_pvl(s):
        """the statement's quoting rule: a string is written bare only if it reads back as the same string -
        not empty, no white space, not a keyword in any letter case, and an unquoted string for the
        encoder's own grammar and decoder"""
        return z3.Or(s == lit(""), anychar_in(WS, s), kw(s),
                     z3.Not(tok_pred(pred_id("is_unquoted_string"), CONFIGURED, s)))

    def nq(cls, s):
        if cls in ("ODLEncoder", "PDSLabelEncoder"):
            return z3.Or(z3.Not(ident_ok(s)), nq_pvl(s))
        return nq_pvl(s)

    def sym(s):
        return z3.And(z3.Not(sub_in(APOS, s)), z3.Not(sub_any(FE, s)),
                      z3.Not(z3.ToReal(strlen(s)) > z3.ToReal(WIDTH) / 2), printable(s), strlen(s) > 0)

    def quoted_with(s, q):
        return strcat(strcat(q, s), q)

    def pvl_string_post(cls):
        def post(pre, post_, a, r):
            s = text(a["value"])
            n = nq(a["self"].cls if "self" in a and a["self"].cls else cls, s)
            return [("a string that does not need quotes is written as it is", z3.Implies(z3.Not(n), r.t == s)),
                    ("else it is enclosed in the first quote character it does not contain",
                     z3.Implies(n, z3.If(z3.Not(sub_in(q1, s)), r.t == quoted_with(s, q1), r.t == quoted_with(s, q2))))]
        return post

    def pvl_string_raises(pre, a):
        s = text(a["value"])
        return z3.And(nq(a["self"].cls, s), sub_in(q1, s), sub_in(q2, s))

    out = []
    kwloop = LoopSpec(
        fall_through=lambda env, st, x: [("the member does not casefold-equal s", casefold(x) != casefold(sval(env["s"])))],
        exit=lambda env, st: [("no reserved keyword casefold-equals s", z3.Not(cf_in(RK, casefold(sval(env["s"])))))])
    c = Contract(E + "PVLEncoder.needs_quotes", params={"s": "str"}, exits=[
        Exit("return", res="bool", post=lambda pre, post, a, r: [
            ("quoting rule of the statement (C17/C01)", r.t == nq_pvl(sval(a["s"])))])], props=("C17", "C01"))
    c.cases = [(cls, {"s": "str", "__cls__": cls}) for cls in ("PVLEncoder", "ODLEncoder", "PDSLabelEncoder", "ISISEncoder")]
    out.append(c)

    c = Contract(E + "ODLEncoder.needs_quotes", params={"s": "str"}, exits=[
        Exit("return", res="bool", post=lambda pre, post, a, r: [
            ("ODL: only an identifier that passes the PVL rule is written bare", r.t == nq("ODLEncoder", sval(a["s"])))])],
        props=("C17", "C01", "C12"))
    c.cases = [(cls, {"s": "str", "__cls__": cls}) for cls in ("ODLEncoder", "PDSLabelEncoder")]
    out.append(c)

    c = Contract(E + "PVLEncoder.encode_string", params={"value": "pyval"}, exits=[
        Exit("return", res="str", when=lambda pre, a: z3.Not(pvl_string_raises(pre, a)), post=pvl_string_post(None)),
        Exit("ValueError", when=pvl_string_raises)], props=("C17", "C01"))
    c.cases = [(cls, {"value": "pyval", "__cls__": cls}) for cls in ("PVLEncoder", "ODLEncoder", "PDSLabelEncoder", "ISISEncoder")]
    out.append(c)

    feloop = LoopSpec(
        fall_through=lambda env, st, x: [("the format effector is not in the text", z3.Not(sub_in(x, sval(env["value"]))))],
        exit=lambda env, st: [("no format effector in the text", z3.Not(sub_any(FE, sval(env["value"]))))])
    c = Contract(E + "ODLEncoder.is_symbol", params={"value": "str"}, exits=[
        Exit("return", res="truthy", post=lambda pre, post, a, r: [
            ("truthy exactly for a symbol string: no apostrophe, no format effector, short enough to stay on one line, "
             "printable, not empty", r.t == sym(sval(a["value"])))])], props=("C12", "C01"))
    c.cases = [(cls, {"value": "str", "__cls__": cls}) for cls in ("ODLEncoder", "PDSLabelEncoder")]
    out.append(c)

    def odl_string(cls, single):
        def raises(pre, a):
            s = text(a["value"])
            return z3.And(nq(cls, s), z3.Not(single(s)), sub_in(q1, s), sub_in(q2, s))

        def post(pre, post_, a, r):
            s = text(a["value"])
            n = nq(cls, s)
            return [("bare only when no quotes are needed", z3.Implies(z3.Not(n), r.t == s)),
                    ("a symbol string is single-quoted", z3.Implies(z3.And(n, single(s)), r.t == quoted_with(s, APOS))),
                    ("any other string is enclosed in the first quote character it does not contain",
                     z3.Implies(z3.And(n, z3.Not(single(s))),
                                z3.If(z3.Not(sub_in(q1, s)), r.t == quoted_with(s, q1), r.t == quoted_with(s, q2))))]
        return [Exit("return", res="str", when=lambda pre, a: z3.Not(raises(pre, a)), post=post),
                Exit("ValueError", when=raises)]

    out.append(Contract(E + "ODLEncoder.encode_string", params={"value": "str"}, exits=odl_string("ODLEncoder", sym),
                        props=("C12", "C01", "C17")))
    out.append(Contract(E + "PDSLabelEncoder.encode_string", params={"value": "str"},
                        exits=odl_string("PDSLabelEncoder", lambda s: z3.And(sym(s), SSQ)), props=("C12", "C01", "C17")))

    # value dispatch by Python type (C01 anchor): callee results are opaque constants
    def callee(name, cls="PVLEncoder"):
        k = Contract(E + cls + "." + name, params={"value": "pyval"}, exits=[
            Exit("return", res=lambda ex: Z("str", z3.Const("result_of_" + name, S))), Exit("ValueError"), Exit("TypeError")])
        k.assumed = True
        k.note = "signature only: returns a str or raises ValueError/TypeError (text building: bounded drivers)"
        return k
    for nm in ("encode_set", "encode_sequence", "encode_datetype"):
        out.append(callee(nm))
    out += [callee("encode_set", "ODLEncoder"), callee("encode_sequence", "ODLEncoder"), callee("encode_set", "PDSLabelEncoder")]

    def res(name):
        return z3.Const("result_of_" + name, S)

    def ty(a, name):
        return type_is(a["value"].info["id"], type_id(name))

    def dispatch_post(pre, post, a, r):
        none = ty(a, "NoneType")
        st = z3.Or(ty(a, "set"), ty(a, "frozenset"))
        ls = ty(a, "list")
        dt = z3.Or(ty(a, "datetime.datetime"), ty(a, "datetime.date"), ty(a, "datetime.time"))
        bl = ty(a, "bool")
        num = ty(a, "self.numeric_types")
        earlier = []

        def first(cond):
            f = z3.And(cond, *[z3.Not(e) for e in earlier])
            earlier.append(cond)
            return f
        return [
            ("None is the none keyword", z3.Implies(first(none), r.t == gconst("none_keyword"))),
            ("sets go to encode_set", z3.Implies(first(st), r.t == res("encode_set"))),
            ("lists go to encode_sequence", z3.Implies(first(ls), r.t == res("encode_sequence"))),
            ("dates and times go to encode_datetype", z3.Implies(first(dt), r.t == res("encode_datetype"))),
            ("a bool is a keyword, never the text of a number (bool is an int)",
             z3.Implies(first(bl), z3.Or(r.t == gconst("true_keyword"), r.t == gconst("false_keyword")))),
            ("numbers are written by str()", z3.Implies(first(num), r.t == str_of(a["value"].info["id"]))),
        ]
    c = Contract(E + "PVLEncoder.encode_simple_value", params={"value": "pyval"}, exits=[
        Exit("return", res="str", post=dispatch_post), Exit("ValueError"), Exit("TypeError")], props=("C01", "C18"))
    c.cases = [(cls, {"value": "pyval", "__cls__": cls}) for cls in ("PVLEncoder", "ODLEncoder", "PDSLabelEncoder", "ISISEncoder")]
    out.append(c)
    return out


# ------------------------------------------------------------------------------------------------
# T_time: encode_time of the three dialect families (C14, C01): the written fields are the value's
# fields at its precision, the written zone denotes the value's offset - or the encoder refuses

def time_contracts(pid="C14"):
    from ..pyvc.timetheory import parts_of, fmt
    E = "pvl.encoder."
    TZ = z3.Const("self_time_trailing_z", z3.BoolSort())

    def F(a):
        f = a["value"].info["fields"]
        return tuple(f[k] for k in ("hour", "minute", "second", "microsecond"))

    def off(a):
        return a["value"].info["off"]

    def aware(a):
        return z3.Not(a["value"].info["tz_none"])

    def same(parts, expected):
        """structural equality of two part lists; integer terms compared by z3"""
        if len(parts) != len(expected):
            return z3.BoolVal(False)
        conj = []
        for p, e in zip(parts, expected):
            if p[0] != e[0]:
                return z3.BoolVal(False)
            if p[0] == "lit":
                if p[1] != e[1]:
                    return z3.BoolVal(False)
            elif p[0] == "strftime":
                if p[1] != e[1]:
                    return z3.BoolVal(False)
                conj += [x == y for x, y in zip(p[2], e[2])]
            elif p[0] == "int":
                if p[1] != e[1]:
                    return z3.BoolVal(False)
                conj.append(p[2] == e[2])
            else:
                return z3.BoolVal(False)
        return z3.And(*conj) if conj else z3.BoolVal(True)

    def hms(a, seconds_spec):
        """expected text of the fields: HH:MM, then :SS[.fraction] only when non-zero"""
        f = F(a)
        return [("strftime", "%H:%M", f)] + ([("lit", ":"), ("strftime", seconds_spec, f)] if seconds_spec else [])

    def pvl_time_post(pre, post, a, r):
        p = parts_of(r)
        if p and p[0][0] == "pvl-time-text":
            return []          # call site: the callee's text is the opaque part standing for exactly this postcondition
        sec, us = F(a)[2], F(a)[3]
        return [("fraction written exactly when microsecond != 0", z3.Implies(us != 0, same(p, hms(a, "%S.%f")))),
                ("seconds written when non-zero", z3.Implies(z3.And(us == 0, sec != 0), same(p, hms(a, "%S")))),
                ("HH:MM alone only when seconds and fraction are zero", z3.Implies(z3.And(us == 0, sec == 0), same(p, hms(a, None))))]

    def nonutc(pre, a):
        return z3.And(aware(a), off(a) != 0)

    pvl_time = Contract(E + "PVLEncoder.encode_time", params={"value": "timeval"}, exits=[
        Exit("return", res="fmt", when=lambda pre, a: z3.Not(nonutc(pre, a)), post=pvl_time_post),
        Exit("ValueError", when=nonutc)], props=("C14", "C01"))

    # at a call site the callee's text is one opaque part carrying the fields it was called with
    def pvl_time_value(ex):
        a = ex.st.ghost["call_args"]
        return fmt([("pvl-time-text", "", F(a))])
    pvl_time_call = pvl_time.exits[0]
    pvl_time_call.res = pvl_time_value

    def odl_split(parts):
        """-> (head parts, sign literal, hour term, minute term or None) or None"""
        if len(parts) >= 3 and parts[-2][0] == "lit" and parts[-2][1] in "+-" and parts[-1][0] == "int" and parts[-1][1] == "02d":
            return parts[:-2], parts[-2][1], parts[-1][2], None
        if (len(parts) >= 5 and parts[-4][0] == "lit" and parts[-4][1] in "+-" and parts[-3][0] == "int" and parts[-3][1] == "02d"
                and parts[-2] == ("lit", ":") and parts[-1][0] == "int" and parts[-1][1] == "02d"):
            return parts[:-4], parts[-4][1], parts[-3][2], parts[-1][2]
        return None

    def head_ok(head, a):
        return len(head) == 1 and head[0][0] == "pvl-time-text" and all(x is y or x.eq(y) for x, y in zip(head[0][2], F(a)))

    def odl_refuses(pre, a):
        o = off(a)
        ao = z3.If(o >= 0, o, -o)
        whole_minutes = z3.ToReal(z3.ToInt(ao / 60)) * 60 == ao
        return z3.Or(z3.Not(aware(a)), z3.And(o != 0, z3.Or(z3.Not(whole_minutes), ao >= 13 * 3600)))

    def odl_time_post(pre, post, a, r):
        p = parts_of(r)
        o = off(a)
        out = []
        if p and p[-1] == ("lit", "Z"):
            out.append(("Z only for a zero offset", o == 0))
            out.append(("time text of the value's own fields", z3.BoolVal(head_ok(p[:-1], a))))
            return out
        sp = odl_split(p)
        if sp is None:
            return [("text is <time>Z or <time><sign>HH[:MM]", z3.BoolVal(False))]
        head, sign, h, m = sp
        sgn = 1 if sign == "+" else -1
        mm = m if m is not None else z3.IntVal(0)
        out.append(("time text of the value's own fields", z3.BoolVal(head_ok(head, a))))
        out.append(("the written offset denotes the value's offset", z3.ToReal(sgn * (h * 3600 + mm * 60)) == o))
        out.append(("offset is not zero here", o != 0))
        out.append(("hours 0..12, minutes 0..59", z3.And(h >= 0, h <= 12, mm >= 0, mm <= 59)))
        out.append(("minutes are written exactly when non-zero", z3.BoolVal(m is None) == (mm == 0) if m is None else m != 0))
        return out

    odl_time = Contract(E + "ODLEncoder.encode_time", params={"value": "timeval"}, exits=[
        Exit("return", res="fmt", when=lambda pre, a: z3.Not(odl_refuses(pre, a)), post=odl_time_post),
        Exit("ValueError", when=odl_refuses)], props=("C14", "C01"))

    def pds_refuses(pre, a):
        us = F(a)[3]
        return z3.Or(us % 1000 != 0, nonutc(pre, a))

    def pds_time_post(pre, post, a, r):
        p = list(parts_of(r))
        sec, us = F(a)[2], F(a)[3]
        f = F(a)
        out = []
        hasz = bool(p) and p[-1] == ("lit", "Z")
        out.append(("trailing Z exactly when configured", TZ == z3.BoolVal(hasz)))
        if hasz:
            p = p[:-1]
        with_ms = [("strftime", "%H:%M", f), ("lit", ":"), ("strftime", "%S", f), ("lit", "."), None]
        if len(p) == 5 and p[4][0] == "int":
            ms = p[4][2]
            out.append(("milliseconds written with three digits and denote the value's fraction",
                        z3.And(z3.BoolVal(p[4][1] == "03d"), ms * 1000 == us, same(p[:4], with_ms[:4]))))
            out.append(("fraction written only when non-zero", us != 0))
        else:
            out.append(("no fraction only when microsecond == 0", us == 0))
            out.append(("seconds written when non-zero", z3.Implies(sec != 0, same(p, hms(a, "%S")))))
            out.append(("HH:MM alone only when seconds are zero", z3.Implies(sec == 0, same(p, hms(a, None)))))
        return out

    pds_time = Contract(E + "PDSLabelEncoder.encode_time", params={"value": "timeval"}, exits=[
        Exit("return", res="fmt", when=lambda pre, a: z3.Not(pds_refuses(pre, a)), post=pds_time_post),
        Exit("ValueError", when=pds_refuses)], props=("C14", "C01"))
    def make_replayer(cls_name):
        def replayer(model, args, ex):
            """the verifier's counter-model is a concrete time value: run the real encoder on it and read the text back
            with the dialect's own decoder"""
            import datetime as dt
            import pvl.encoder as M
            import pvl.decoder as D
            v = args["value"]

            def num(t):
                x = model.eval(t, model_completion=True)
                if z3.is_int_value(x):
                    return x.as_long()
                return x.numerator_as_long() / x.denominator_as_long()
            f = {k: num(t) for k, t in v.info["fields"].items()}
            naive = z3.is_true(model.eval(v.info["tz_none"], model_completion=True))
            off = num(v.info["off"])
            tz = None if naive else dt.timezone(dt.timedelta(seconds=off))
            value = dt.time(f["hour"], f["minute"], f["second"], f["microsecond"], tzinfo=tz)
            kw = {}
            if cls_name == "PDSLabelEncoder":
                kw["time_trailing_z"] = z3.is_true(model.eval(TZ, model_completion=True))
            enc = getattr(M, cls_name)(**kw)
            dec = {"PVLEncoder": D.PVLDecoder, "ODLEncoder": D.ODLDecoder, "PDSLabelEncoder": D.PDSLabelDecoder}[cls_name]()
            us = f["microsecond"]
            nonutc_ = (not naive) and off != 0
            if cls_name == "PVLEncoder":
                may_refuse = nonutc_
            elif cls_name == "ODLEncoder":
                may_refuse = naive or (off != 0 and (abs(off) % 60 != 0 or abs(off) >= 13 * 3600))
            else:
                may_refuse = us % 1000 != 0 or nonutc_
            key = f"{pid}:encode_time:{cls_name}:{value!r}"
            try:
                text = enc.encode_time(value)
            except ValueError as e:
                if may_refuse:
                    return None
                return (key, f"{cls_name}().encode_time({value!r}) refuses a value the dialect can represent: {e}",
                        {"value": repr(value), "function": f"pvl.encoder.{cls_name}.encode_time"})
            if may_refuse:
                return (key, f"{cls_name}().encode_time({value!r}) wrote {text!r} for a value the dialect cannot represent",
                        {"value": repr(value), "text": text, "function": f"pvl.encoder.{cls_name}.encode_time"})
            try:
                back = dec.decode_datetime(text)
            except ValueError:
                back = None
            want_off = dt.timedelta(0) if (naive or off == 0) else dt.timedelta(seconds=off)
            ok = (isinstance(back, dt.time) and (back.hour, back.minute, back.second, back.microsecond) ==
                  (value.hour, value.minute, value.second, value.microsecond)
                  and (back.utcoffset() or dt.timedelta(0)) == want_off)
            if ok:
                return None
            return (key, f"{cls_name}().encode_time({value!r}) wrote {text!r}, which the dialect's decoder reads as {back!r}",
                    {"value": repr(value), "text": text, "read_back": repr(back), "function": f"pvl.encoder.{cls_name}.encode_time"})
        return replayer
    pvl_time.replayer = make_replayer("PVLEncoder")
    odl_time.replayer = make_replayer("ODLEncoder")
    pds_time.replayer = make_replayer("PDSLabelEncoder")
    return [pvl_time, odl_time, pds_time]


# ------------------------------------------------------------------------------------------------
# T_enc on pvl/token.py: the table-search predicates of Token (C17)

def token_contracts():
    from ..pyvc.core import LoopSpec
    from ..pyvc.objtheory import S, lit, casefold, prefixof, suffixof
    from ..pyvc.lextheory import set_has, sub_in, tid, pairs_has
    from ..pyvc import enctheory as TE
    from ..pyvc.enctheory import cf_in, sub_any, tok_pred, pred_id, CONFIGURED, pair_part_in, comment_match
    T = "pvl.token.Token."
    RC, WS, RK = tid("g.reserved_characters"), tid("g.whitespace"), tid("g.reserved_keywords")
    ES, DL, CM = tid("g.end_statements"), tid("g.delimiters"), tid("g.comments")
    AK = tid("g.aggregation_keywords.keys")
    NL = lit("\n")

    def t_of(a_or_env):
        v = a_or_env["self"]
        return v.info["text"]

    def dec(name, t):
        return tok_pred(pred_id(name), CONFIGURED, t)

    def numeric(t):
        return z3.Or(dec("decode_decimal", t), dec("decode_non_decimal", t))

    def unq(t):
        """an unquoted string of the grammar: no reserved character, no comment delimiter, no white space, and not
        readable as a number or a date/time (statement: 'text that decodes to a number or a date/time is never
        accepted as an unquoted string or parameter name')"""
        return z3.And(z3.Not(sub_any(RC, t)), z3.Not(pair_part_in(CM, t)), z3.Not(numeric(t)),
                      z3.Not(dec("decode_datetime", t)), z3.Not(sub_any(WS, t)))

    def not_sub(table):
        return LoopSpec(fall_through=lambda env, st, x: [("member not in the text", z3.Not(sub_in(x, t_of(env))))],
                        exit=lambda env, st: [("no member in the text", z3.Not(sub_any(table, t_of(env))))])

    def not_cf(table):
        return LoopSpec(fall_through=lambda env, st, x: [("member does not casefold-equal the text", casefold(x) != casefold(t_of(env)))],
                        exit=lambda env, st: [("no member casefold-equals the text", z3.Not(cf_in(table, casefold(t_of(env)))))])
    pair_loop = LoopSpec(
        fall_through=lambda env, st, x: [("neither delimiter of the pair in the text",
                                          z3.And(z3.Not(sub_in(x[0], t_of(env))), z3.Not(sub_in(x[1], t_of(env)))))],
        exit=lambda env, st: [("no comment delimiter in the text", z3.Not(pair_part_in(CM, t_of(env))))])

    def cm(t, a, b):
        return z3.And(prefixof(t, a), z3.Or(suffixof(t, b), z3.And(b == NL, z3.Not(sub_in(NL, t)))))
    comment_loop = LoopSpec(
        fall_through=lambda env, st, x: [("the pair does not delimit the text", z3.Not(cm(t_of(env), x[0], x[1])))],
        exit=lambda env, st: [("no pair delimits the text", z3.Not(comment_match(CM, t_of(env))))])

    out = []

    def pred(name, spec, loops=None, props=("C17",)):
        c = Contract(T + name, params={}, loops=loops or {}, exits=[
            Exit("return", res="bool", post=lambda pre, post, a, r: [(f"{name} == its definition over the grammar tables and the decoder",
                                                                     r.t == spec(t_of(a)))])], props=props)
        out.append(c)
        return c

    for nm in ("decode_decimal", "decode_non_decimal", "decode_datetime", "decode_quoted_string", "decode_simple_value"):
        pred({"decode_decimal": "is_decimal", "decode_non_decimal": "is_non_decimal", "decode_datetime": "is_datetime",
              "decode_quoted_string": "is_quoted_string", "decode_simple_value": "is_simple_value"}[nm],
             (lambda nm: lambda t: dec(nm, t))(nm))
    pred("is_numeric", numeric)
    pred("is_unquoted_string", unq, loops=None)
    pred("is_parameter_name", lambda t: z3.And(z3.Not(cf_in(RK, casefold(t))), unq(t)), loops=None)
    pred("is_begin_aggregation", lambda t: cf_in(AK, casefold(t)), loops=None, props=("C17", "C03"))
    pred("is_end_statement", lambda t: cf_in(ES, casefold(t)), loops=None, props=("C17", "C03"))
    pred("is_delimiter", lambda t: set_has(DL, t), props=("C03",))
    pred("is_comment", lambda t: comment_match(CM, t), loops=None, props=("C04",))
    pred("is_string", lambda t: z3.Or(dec("decode_quoted_string", t), unq(t)))
    return out


# ------------------------------------------------------------------------------------------------
# T_enc on pvl/decoder.py: ODLDecoder.is_identifier (assumed in T_dec, discharged here)

def identifier_contracts():
    from ..pyvc.core import LoopSpec
    from ..pyvc.objtheory import S, strlen, lit, suffixof, sval
    from ..pyvc.lextheory import charat
    from ..pyvc.enctheory import char_of, all_chars_ident, ascii_ok
    B = z3.BoolSort()
    isalpha = z3.Function("str_isalpha", S, B)
    isdigit = z3.Function("str_isdigit", S, B)
    US = lit("_")

    def identchar(c):
        return z3.Or(isalpha(c), isdigit(c), c == US)

    def spec(s):
        """ODL identifier (PDS3 12.2): ASCII letters, digits and underscores; starts with a letter, does not end with '_'"""
        return z3.And(strlen(s) > 0, ascii_ok(s), isalpha(charat(s, z3.IntVal(0))), z3.Not(suffixof(s, US)), all_chars_ident(s))
    loop = LoopSpec(
        fall_through=lambda env, st, x: [("the character is a letter, a digit or an underscore", identchar(x))],
        exit=lambda env, st: [("every character is a letter, a digit or an underscore", all_chars_ident(sval(env["value"])))])
    c = Contract("pvl.decoder.ODLDecoder.is_identifier", params={"value": "str"}, exits=[
        Exit("return", res="bool", post=lambda pre, post, a, r: [("is_identifier == the ODL identifier rule", r.t == spec(sval(a["value"])))])],
        props=("C17", "C12"))
    return [c]


# ------------------------------------------------------------------------------------------------
# T_enc: date/time dispatch (C14: values keep their type) and ODL parameter-name refusal (C12)

def dispatch_contracts():
    from ..pyvc.core import Z, ObjV
    from ..pyvc.objtheory import S, sval, strlen, lit, prefixof
    from ..pyvc.enctheory import type_is, type_id, assign_ok, tail1
    E = "pvl.encoder."
    out = []

    def callee(cls, name, params=None):
        k = Contract(E + cls + "." + name, params=params or {"value": "pyval"}, exits=[
            Exit("return", res=lambda ex: Z("str", z3.Const("result_of_" + name, S))), Exit("ValueError"), Exit("TypeError")])
        k.assumed = True
        k.note = "signature only: returns a str or raises ValueError/TypeError"
        return k
    for cls, nm in (("PVLEncoder", "encode_date"), ("PVLEncoder", "encode_time"), ("PVLEncoder", "encode_datetime"),
                    ("ODLEncoder", "encode_time"), ("PDSLabelEncoder", "encode_time"), ("PVLEncoder", "encode_value"),
                    ("ODLEncoder", "encode_value")):
        out.append(callee(cls, nm))
    fmtc = Contract(E + "PVLEncoder.format", params={"s": "opaque", "level": "int"}, exits=[
        Exit("return", res=lambda ex: Z("str", z3.Const("result_of_format", S)))])
    fmtc.assumed = True
    fmtc.note = "signature only (indentation and textwrap: bounded conformance reader)"
    out.append(fmtc)
    ias = Contract(E + "ODLEncoder.is_assignment_statement", params={"s": "str"}, exits=[
        Exit("return", res="bool", post=lambda pre, post, a, r: [("deterministic", r.t == assign_ok(sval(a["s"])))])])
    ias.assumed = True
    ias.pure = True
    ias.note = "an uninterpreted predicate of the text here (element / namespace identifier: decoder.is_identifier contract + bounded driver)"
    out.append(ias)

    def res(name):
        return z3.Const("result_of_" + name, S)

    def ty(a, name):
        return type_is(a["value"].info["id"], type_id(name))

    def dt_post(pre, post, a, r):
        isdt, isd, ist = ty(a, "datetime.datetime"), ty(a, "datetime.date"), ty(a, "datetime.time")
        return [("a datetime is written as a date-time (a datetime is also a date: it must be tested first)",
                 z3.Implies(isdt, r.t == res("encode_datetime"))),
                ("a date that is not a datetime is written as a date", z3.Implies(z3.And(z3.Not(isdt), isd), r.t == res("encode_date"))),
                ("a time is written as a time", z3.Implies(z3.And(z3.Not(isdt), z3.Not(isd), ist), r.t == res("encode_time")))]

    def not_temporal(pre, a):
        return z3.Not(z3.Or(ty(a, "datetime.datetime"), ty(a, "datetime.date"), ty(a, "datetime.time")))
    c = Contract(E + "PVLEncoder.encode_datetype", params={"value": "pyval"}, exits=[
        Exit("return", res="str", post=dt_post), Exit("ValueError"),
        Exit("TypeError", when=lambda pre, a: z3.BoolVal(True))], props=("C14", "C01"))
    c.cases = [(cls, {"value": "pyval", "__cls__": cls}) for cls in ("PVLEncoder", "ODLEncoder", "PDSLabelEncoder", "ISISEncoder")]
    out.append(c)

    def name_ok(a):
        k = sval(a["key"])
        return z3.And(strlen(k) <= 30, z3.Or(z3.And(prefixof(k, lit("^")), assign_ok(tail1(k))), assign_ok(k)))
    c = Contract(E + "ODLEncoder.encode_assignment", params={"key": "str", "value": "pyval", "level": "int", "key_len": "int"}, exits=[
        Exit("return", res="str", when=lambda pre, a: name_ok(a),
             post=lambda pre, post, a, r: [("a statement is written only for a name of at most 30 characters that is an ODL "
                                            "(pointer / namespace) identifier", name_ok(a))]),
        Exit("ValueError"), Exit("TypeError")], props=("C12",))
    c.cases = [(f"{cls}{'-default-width' if kl == 'none' else ''}", {"key": "str", "value": "pyval", "level": "int", "key_len": kl, "__cls__": cls})
               for cls in ("ODLEncoder", "PDSLabelEncoder") for kl in ("int", "none")]
    out.append(c)
    return out


# ------------------------------------------------------------------------------------------------
# T_enc: the final character-set sweep of PVLEncoder.encode (C12 / C15): a text is returned only if
# every one of its characters is allowed by the encoder's grammar; ODL / PDS3 wrappers keep that

def sweep_contracts():
    from ..pyvc.core import LoopSpec, Z
    from ..pyvc.objtheory import S, sval, strcat
    from ..pyvc.lextheory import allowed
    from ..pyvc.enctheory import all_chars_allowed, gconst
    E = "pvl.encoder."
    NLc = z3.Const("self_newline", S)
    out = []
    em = Contract(E + "PVLEncoder.encode_module", params={"module": "pyval", "level": "int"}, exits=[
        Exit("return", res=lambda ex: Z("str", z3.Const("result_of_encode_module", S))), Exit("ValueError"), Exit("TypeError")])
    em.assumed = True
    em.note = "signature only: the statements' text (bounded conformance reader, T_enc string contracts)"
    out.append(em)
    loop = LoopSpec(
        fall_through=lambda env, st, x: [("the character is allowed by the grammar", allowed(x))],
        exit=lambda env, st: [("every character of the text is allowed", all_chars_allowed(sval(env["s"])))])
    c = Contract(E + "PVLEncoder.encode", params={"module": "pyval"}, exits=[
        Exit("return", res="str", post=lambda pre, post, a, r: [
            ("the returned text consists of characters of the grammar's character set only", all_chars_allowed(r.t))]),
        Exit("ValueError"), Exit("TypeError")], props=("C12", "C15"))
    c.cases = [(cls, {"module": "pyval", "__cls__": cls}) for cls in ("PVLEncoder", "ISISEncoder")]
    out.append(c)
    return out


# ------------------------------------------------------------------------------------------------
# T_enc: encode_aggregation_block (C12: begin/end statements from the grammar's preferred keywords, the block
# closed by the end statement of the same family, carrying the block name when so configured)

def block_contracts():
    from ..pyvc.core import Z
    from ..pyvc.objtheory import S, sval, strcat, lit
    from ..pyvc.lextheory import tid
    from ..pyvc.enctheory import type_is, type_id, gconst, first_of, fmt_fn, module_text
    E = "pvl.encoder."
    NL = z3.Const("self_newline", S)
    DELIM = first_of(tid("g.delimiters"))
    ED = z3.Const("self_end_delimiter", z3.BoolSort())
    AE = z3.Const("self_aggregation_end", z3.BoolSort())
    out = []
    f = Contract(E + "PVLEncoder.format", params={"s": "str", "level": "int"}, exits=[
        Exit("return", res=lambda ex: Z("str", fmt_fn(sval(ex.st.ghost["call_args"]["s"]), ex.as_int(ex.st.ghost["call_args"]["level"]))))])
    f.assumed = True
    f.note = "a function of (text, level) only (indentation and textwrap: bounded conformance reader)"
    out.append(f)
    em = Contract(E + "PVLEncoder.encode_module", params={"module": "pyval", "level": "int"}, exits=[
        Exit("return", res=lambda ex: Z("str", module_text(ex.st.ghost["call_args"]["module"].info["id"],
                                                          ex.as_int(ex.st.ghost["call_args"]["level"])))),
        Exit("ValueError"), Exit("TypeError")])
    em.assumed = True
    em.note = "a function of (mapping, level) or an exception"
    out.append(em)

    def post(pre, post_, a, r):
        v = a["value"].info["id"]
        key, lvl = sval(a["key"]), a["level"].t
        grp = type_is(v, type_id("self.grpcls"))
        k0 = z3.If(grp, gconst("group_pref_keywords_begin"), gconst("object_pref_keywords_begin"))
        k1 = z3.If(grp, gconst("group_pref_keywords_end"), gconst("object_pref_keywords_end"))

        def named(k):
            return strcat(strcat(k, lit(" = ")), key)

        def delim(t):
            return z3.If(ED, strcat(t, DELIM), t)
        begin = delim(named(k0))
        end = delim(z3.If(AE, named(k1), k1))
        want = strcat(strcat(strcat(strcat(fmt_fn(begin, lvl), NL), module_text(v, lvl + 1)), NL), fmt_fn(end, lvl))
        return [("begin statement '<preferred begin keyword of the family> = <name>', the body one level deeper, and the end statement "
                 "of the same family carrying the name exactly when aggregation_end is set, each followed by the delimiter when "
                 "configured, joined by the encoder's newline", r.t == want)]

    def not_mapping(pre, a):
        v = a["value"].info["id"]
        return z3.And(z3.Not(type_is(v, type_id("self.grpcls"))), z3.Not(type_is(v, type_id("abc.Mapping"))))
    c = Contract(E + "PVLEncoder.encode_aggregation_block", params={"key": "str", "value": "pyval", "level": "int"}, exits=[
        Exit("return", res="str", when=lambda pre, a: z3.Not(not_mapping(pre, a)), post=post),
        Exit("ValueError"), Exit("TypeError")], props=("C12", "C01"))
    c.cases = [(cls, {"key": "str", "value": "pyval", "level": "int", "__cls__": cls}) for cls in ("PVLEncoder", "ODLEncoder", "ISISEncoder")]
    out.append(c)
    return out


# ------------------------------------------------------------------------------------------------
# T_off: ODLDecoder.decode_datetime - an ODL zone offset gives that fixed offset (C14)

def offset_contracts(pid="C14"):
    from ..pyvc.core import ObjV, Z
    I, B = z3.IntSort(), z3.BoolSort()
    SIGN, H, M = z3.Const("group_sign", I), z3.Const("group_hour", I), z3.Const("group_minute", I)
    MATCH = z3.Const("offset_pattern_matches", B)
    DTZ = z3.Const("group_dt_ends_with_Z_or_z", B)
    out = []

    # super().decode_datetime(text): PVLDecoder's cascade - returns a value (temporal or not) or raises ValueError;
    # which of the two texts it is applied to is recorded in the result
    def inner_value(ex):
        a = ex.st.ghost["call_args"]
        tid_ = a["value"].info["id"]
        return ObjV("decoded", info={"of": tid_, "temporal": z3.Const(f"decode_{tid_}_is_a_time_or_datetime", B)})
    inner = Contract("pvl.decoder.PVLDecoder.decode_datetime", params={"value": "text"}, exits=[
        Exit("return", res=inner_value, when=lambda pre, a: z3.Const(f"decode_{a['value'].info['id']}_accepts", B)),
        Exit("ValueError", when=lambda pre, a: z3.Not(z3.Const(f"decode_{a['value'].info['id']}_accepts", B)))])
    inner.assumed = True
    inner.note = "the strptime cascade, functional contract in T_dec (decoder-and-token-contracts)"
    out.append(inner)

    ACC_V = z3.Const("decode_value_accepts", B)
    ACC_DT = z3.Const("decode_group_dt_accepts", B)
    TEMP_DT = z3.Const("decode_group_dt_is_a_time_or_datetime", B)
    sem = z3.And(z3.Or(SIGN == 1, SIGN == -1), H >= 0, H <= 12, M >= 0, M <= 59)

    def accepts_offset(pre, a):
        return z3.And(z3.Not(ACC_V), MATCH, ACC_DT, TEMP_DT, z3.Not(DTZ))

    def post(pre, post_, a, r):
        out_ = []
        if not (isinstance(r, ObjV) and r.role == "decoded"):
            return [("returns a decoded value", z3.BoolVal(False))]
        if r.info.get("rezoned"):
            out_.append(("an offset is attached only to a time / date-time that the plain decoder accepts without the suffix, "
                         "that is not already marked Z, and only after the whole text was refused", accepts_offset(pre, a)))
            out_.append(("the attached zone is the written offset: sign * (HH hours + MM minutes)",
                         r.info["zone"] == z3.ToReal(SIGN * (H * 3600 + M * 60))))
            out_.append(("the value decoded is the part before the sign", z3.BoolVal(r.info["of"] == "group_dt")))
        else:
            out_.append(("without an offset suffix the result is the plain decoder's result for the whole text",
                         z3.And(ACC_V, z3.BoolVal(r.info["of"] == "value"))))
        return out_
    c = Contract("pvl.decoder.ODLDecoder.decode_datetime", params={"value": "text"},
                 requires=lambda pre, a: [("the groups of the offset pattern: sign, hour 0-12, minute 0-59 (regex obligations offset:*)", sem)],
                 exits=[Exit("return", res="any", when=lambda pre, a: z3.Or(ACC_V, accepts_offset(pre, a)), post=post),
                        Exit("ValueError", when=lambda pre, a: z3.Not(z3.Or(ACC_V, accepts_offset(pre, a))))], props=("C14",))
    c.cases = [(cls, {"value": "text", "__cls__": cls}) for cls in ("ODLDecoder", "OmniDecoder")]

    def replayer(model, args, ex):
        """the counter-model fixes sign / hour / minute: write them as a suffix of a plain time and run the real decoder"""
        import datetime as dt
        import pvl.decoder as D

        def num(t):
            return model.eval(t, model_completion=True).as_long()
        sign, h, m = num(SIGN), num(H), num(M)
        if sign not in (1, -1) or not (0 <= h <= 12 and 0 <= m <= 59):
            return None
        text = "12:30" + ("+" if sign == 1 else "-") + f"{h:02d}:{m:02d}"
        want = dt.timedelta(seconds=sign * (h * 3600 + m * 60))
        try:
            got = D.ODLDecoder().decode_datetime(text)
        except ValueError as e:
            return (f"{pid}:decode_datetime:offset:{text}", f"ODLDecoder().decode_datetime({text!r}) raises ValueError: {e}",
                    {"text": text, "function": "pvl.decoder.ODLDecoder.decode_datetime"})
        if isinstance(got, dt.time) and got.utcoffset() == want and (got.hour, got.minute) == (12, 30):
            return None
        return (f"{pid}:decode_datetime:offset:{text}", f"ODLDecoder().decode_datetime({text!r}) gives {got!r}: the zone should be {want}",
                {"text": text, "read_as": repr(got), "function": "pvl.decoder.ODLDecoder.decode_datetime"})
    c.replayer = replayer
    out.append(c)
    return out


def pds_decoder_contracts():
    """PDS3 rejects zone offsets (the ODL offset branch is bypassed) and sub-millisecond precision (C14)"""
    from ..pyvc.core import ObjV
    I, B = z3.IntSort(), z3.BoolSort()
    ACC = z3.Const("decode_value_accepts", B)
    TEMP = z3.Const("decode_value_is_a_time_or_datetime", B)
    US = z3.Const("decode_value_microsecond", I)
    inner = [c for c in offset_contracts() if c.target.endswith("PVLDecoder.decode_datetime")][0]
    fine = z3.And(TEMP, US % 1000 != 0)

    def post(pre, post_, a, r):
        return [("the result is the plain strptime cascade's result for the whole text (no offset branch)",
                 z3.BoolVal(isinstance(r, ObjV) and r.role == "decoded" and r.info["of"] == "value" and not r.info.get("rezoned")))]
    c = Contract("pvl.decoder.PDSLabelDecoder.decode_datetime", params={"value": "text"},
                 requires=lambda pre, a: [("microsecond field range", z3.And(US >= 0, US <= 999999))],
                 exits=[Exit("return", res="any", when=lambda pre, a: z3.And(ACC, z3.Not(fine)), post=post),
                        Exit("ValueError", when=lambda pre, a: z3.Or(z3.Not(ACC), fine))], props=("C14",))
    # the ODL decoder (with its offset branch) as a callee: if the PDS3 decoder ever delegates to it, the result is not the plain one
    odl = Contract("pvl.decoder.ODLDecoder.decode_datetime", params={"value": "text"}, exits=[
        Exit("return", res=lambda ex: ObjV("decoded", info={"of": "ODLDecoder-result-possibly-with-an-offset", "temporal": z3.Const("odl_temporal", B)})),
        Exit("ValueError")])
    odl.assumed = True
    odl.note = "contract in section decoder-zone-offset-contract"
    return [inner, odl, c]


# ------------------------------------------------------------------------------------------------
# T_enc: ODL sequence restrictions (C12) and the text wiring of units / sets / sequences (C01, C12)

def collection_contracts():
    from ..pyvc.core import LoopSpec, Z, ObjV
    from ..pyvc.objtheory import S, sval, strcat, lit
    from ..pyvc.enctheory import (type_is, type_id, elem_of, pylen, scalar_ok, inner_ok, elems_ok, str_of)
    E = "pvl.encoder."
    out = []

    def sig(cls, name, const, params=None):
        k = Contract(E + cls + "." + name, params=params or {"value": "pyval"}, exits=[
            Exit("return", res=lambda ex: Z("str", z3.Const(const, S))), Exit("ValueError"), Exit("TypeError")])
        k.assumed = True
        k.note = "signature only"
        return k
    out += [sig("PVLEncoder", "encode_sequence", "result_of_PVLEncoder_encode_sequence"),
            sig("PVLEncoder", "encode_setseq", "result_of_encode_setseq", {"values": "pyval"}),
            sig("PVLEncoder", "encode_simple_value", "result_of_encode_simple_value"),
            sig("PVLEncoder", "encode_units", "result_of_encode_units", {"value": "str"}),
            sig("ODLEncoder", "encode_units", "result_of_encode_units", {"value": "str"})]
    isc = Contract(E + "ODLEncoder.is_scalar", params={"value": "pyval"}, exits=[
        Exit("return", res="bool", post=lambda pre, post, a, r: [("deterministic", r.t == scalar_ok(a["value"].info["id"]))])])
    isc.assumed = True
    isc.pure = True
    isc.note = "an uninterpreted predicate of the value (numbers, dates, times, strings): bounded conformance reader"
    out.append(isc)

    inner = LoopSpec(
        fall_through=lambda env, st, x: [("the inner element is a scalar and not a list", z3.And(z3.Not(type_is(x, type_id("list"))), scalar_ok(x)))],
        exit=lambda env, st: [("every inner element is a scalar", inner_ok(env["v"].info["id"]))])
    outer = LoopSpec(
        fall_through=lambda env, st, x: [("the element is a scalar, or a list of scalars",
                                          z3.If(type_is(x, type_id("list")), inner_ok(x), scalar_ok(x)))],
        exit=lambda env, st: [("every element is a scalar or a list of scalars", elems_ok(env["value"].info["id"]))])
    c = Contract(E + "ODLEncoder.encode_sequence", params={"value": "pyval"}, loops={0: outer, 1: inner}, exits=[
        Exit("return", res="str", post=lambda pre, post, a, r: [
            ("ODL writes a sequence only if it is not empty and at most two-dimensional with scalar elements",
             z3.And(pylen(a["value"].info["id"]) > 0, elems_ok(a["value"].info["id"]))),
            ("the text is the parent encoder's sequence text", r.t == z3.Const("result_of_PVLEncoder_encode_sequence", S))]),
        Exit("ValueError"), Exit("TypeError")], props=("C12",))
    c.cases = [(cls, {"value": "pyval", "__cls__": cls}) for cls in ("ODLEncoder", "PDSLabelEncoder")]
    out.append(c)

    return out


def wiring_contracts():
    """second registry: bodies whose callees are the signatures of collection_contracts"""
    from ..pyvc.core import Z
    from ..pyvc.objtheory import S, sval, strcat, lit
    from ..pyvc.enctheory import str_of
    E = "pvl.encoder."
    out = []

    def sig(cls, name, const, params=None):
        k = Contract(E + cls + "." + name, params=params or {"value": "pyval"}, exits=[
            Exit("return", res=lambda ex: Z("str", z3.Const(const, S))), Exit("ValueError"), Exit("TypeError")])
        k.assumed = True
        k.note = "signature only"
        return k
    out += [sig("PVLEncoder", "encode_setseq", "result_of_encode_setseq", {"values": "pyval"}),
            sig("PVLEncoder", "encode_simple_value", "result_of_encode_simple_value"),
            sig("ODLEncoder", "encode_units", "result_of_encode_units", {"value": "str"})]
    SS = z3.Const("result_of_encode_setseq", S)
    out.append(Contract(E + "PVLEncoder.encode_sequence", params={"value": "pyval"}, exits=[
        Exit("return", res="str", post=lambda pre, post, a, r: [("a sequence is its elements' text in parentheses",
                                                                 r.t == strcat(strcat(lit("("), SS), lit(")")))]),
        Exit("ValueError"), Exit("TypeError")], props=("C01", "C12")))
    out.append(Contract(E + "PVLEncoder.encode_set", params={"value": "pyval"}, exits=[
        Exit("return", res="str", post=lambda pre, post, a, r: [("a set is its elements' text in braces",
                                                                 r.t == strcat(strcat(lit("{"), SS), lit("}")))]),
        Exit("ValueError"), Exit("TypeError")], props=("C01", "C12")))
    g0, g1 = z3.Const("units_open", S), z3.Const("units_close", S)
    pu = Contract(E + "PVLEncoder.encode_units", params={"value": "str"}, exits=[
        Exit("return", res="str", post=lambda pre, post, a, r: [("units are enclosed in the grammar's units delimiters",
                                                                 r.t == strcat(strcat(g0, sval(a["value"])), g1))])], props=("C01", "C12"))
    pu.cases = [("PVLEncoder", {"value": "str", "__cls__": "PVLEncoder"}), ("ISISEncoder", {"value": "str", "__cls__": "ISISEncoder"})]
    out.append(pu)
    return out


def units_contracts():
    """ODL/PDS3: units only after numbers (C12) - ODLEncoder.encode_value; PVLEncoder.encode_value dispatches quantities"""
    from ..pyvc.core import LoopSpec, Z
    from ..pyvc.objtheory import S
    from ..pyvc.enctheory import inst_of, is_quantity, units_number
    E = "pvl.encoder."
    out = []

    def sig(cls, name, const):
        k = Contract(E + cls + "." + name, params={"value": "pyval"}, exits=[
            Exit("return", res=lambda ex: Z("str", z3.Const(const, S))), Exit("ValueError"), Exit("TypeError")])
        k.assumed = True
        k.note = "signature only"
        return k
    out += [sig("PVLEncoder", "encode_quantity", "result_of_encode_quantity"), sig("PVLEncoder", "encode_simple_value", "result_of_encode_simple_value")]
    notq = LoopSpec(
        fall_through=lambda env, st, x: [("the value is not an instance of this quantity class", z3.Not(inst_of(env["value"].info["id"], x)))],
        exit=lambda env, st: [("the value is not a quantity of any registered class", z3.Not(is_quantity(env["value"].info["id"])))])
    pv_ = Contract(E + "PVLEncoder.encode_value", params={"value": "pyval"}, exits=[
        Exit("return", res="str", post=lambda pre, post, a, r: [
            ("a quantity is written by encode_quantity, anything else by encode_simple_value",
             r.t == z3.If(is_quantity(a["value"].info["id"]), z3.Const("result_of_encode_quantity", S),
                          z3.Const("result_of_encode_simple_value", S)))]),
        Exit("ValueError"), Exit("TypeError")], props=("C01", "C18"))
    pv_.cases = [(cls, {"value": "pyval", "__cls__": cls}) for cls in ("PVLEncoder", "ISISEncoder")]
    out.append(pv_)
    return out


def odl_units_contracts():
    from ..pyvc.core import LoopSpec, Z
    from ..pyvc.objtheory import S
    from ..pyvc.enctheory import inst_of, is_quantity, units_number
    E = "pvl.encoder."
    pve = Contract(E + "PVLEncoder.encode_value", params={"value": "pyval"}, exits=[
        Exit("return", res=lambda ex: Z("str", z3.Const("result_of_PVLEncoder_encode_value", S))), Exit("ValueError"), Exit("TypeError")])
    pve.assumed = True
    pve.note = "contract in the same section (quantities -> encode_quantity)"
    notq = LoopSpec(
        fall_through=lambda env, st, x: [("the value is not an instance of this quantity class", z3.Not(inst_of(env["value"].info["id"], x)))],
        exit=lambda env, st: [("the value is not a quantity of any registered class", z3.Not(is_quantity(env["value"].info["id"])))])
    c = Contract(E + "ODLEncoder.encode_value", params={"value": "pyval"}, exits=[
        Exit("return", res="str", post=lambda pre, post, a, r: [
            ("units are written only after a number: a quantity is passed on only when its magnitude is numeric and not a bool",
             z3.Or(z3.Not(is_quantity(a["value"].info["id"])), units_number(a["value"].info["id"]))),
            ("the text is the parent encoder's", r.t == z3.Const("result_of_PVLEncoder_encode_value", S))]),
        Exit("ValueError"), Exit("TypeError")], props=("C12",))
    c.cases = [(cls, {"value": "pyval", "__cls__": cls}) for cls in ("ODLEncoder", "PDSLabelEncoder")]
    return [pve, c]


def for_try_except_contracts():
    """pvl.decoder.for_try_except (assumed in T_dec): the result of an application that returns, else the exception"""
    from ..pyvc.core import LoopSpec, ObjV, TupV
    from ..pyvc.enctheory import f_ok, any_ok, is_ok_result
    lp = LoopSpec(
        fall_through=lambda env, st, x: [("the function raised the exception on this tuple", z3.Not(f_ok(x[0], x[1])))],
        exit=lambda env, st: [("the function returns on no tuple", z3.Not(any_ok()))])
    c = Contract("pvl.decoder.for_try_except", params={"exception": "excclass", "function": "callable",
                                                      "*iterable": lambda ex: TupV([ObjV("iter1"), ObjV("iter2")])},
                 loops={0: lp}, exits=[
        Exit("return", res="any", when=lambda pre, a: any_ok(), post=lambda pre, post, a, r: [
            ("the result is the function's result on a tuple on which it returns", is_ok_result(r.info["id"]))]),
        Exit("ValueError", when=lambda pre, a: z3.Not(any_ok()))], props=("C14", "C17"))
    return [c]


def assignment_contracts():
    """PVLEncoder.encode_assignment (C01 / C07 anchor: 'quoted values bypass wrapping'): a value that starts with a quote
    character is appended AFTER the statement head was laid out; any other value is laid out together with the head"""
    from ..pyvc.core import Z
    from ..pyvc.objtheory import S, sval, strcat, lit, prefixof
    from ..pyvc.lextheory import tid
    from ..pyvc.enctheory import gconst, first_of, fmt_fn, ljust_fn
    E = "pvl.encoder."
    DELIM = first_of(tid("g.delimiters"))
    ED = z3.Const("self_end_delimiter", z3.BoolSort())
    EV = z3.Const("result_of_encode_value", S)
    out = []
    f = Contract(E + "PVLEncoder.format", params={"s": "str", "level": "int"}, exits=[
        Exit("return", res=lambda ex: Z("str", fmt_fn(sval(ex.st.ghost["call_args"]["s"]), ex.as_int(ex.st.ghost["call_args"]["level"]))))])
    f.assumed = True
    f.note = "a function of (text, level) only (indentation and textwrap: bounded conformance reader)"
    out.append(f)
    ev = Contract(E + "PVLEncoder.encode_value", params={"value": "pyval"}, exits=[
        Exit("return", res=lambda ex: Z("str", EV)), Exit("ValueError"), Exit("TypeError")])
    ev.assumed = True
    ev.note = "signature only (contracts: encode_value / encode_simple_value / encode_string)"
    out.append(ev)

    def post(pre, post_, a, r):
        key, lvl = sval(a["key"]), a["level"].t
        kl = a["key_len"]
        width = kl.t if isinstance(kl, Z) else None
        from ..pyvc.objtheory import strlen
        head = strcat(ljust_fn(key, width if width is not None else strlen(key)), lit(" = "))
        quoted = z3.Or(prefixof(EV, gconst("quote1")), prefixof(EV, gconst("quote2")))

        def delim(t):
            return z3.If(ED, strcat(t, DELIM), t)
        return [("a quoted value is appended after the head was laid out (it is never wrapped); any other value is laid out with the head",
                 r.t == z3.If(quoted, delim(strcat(fmt_fn(head, lvl), EV)), fmt_fn(delim(strcat(head, EV)), lvl)))]
    c = Contract(E + "PVLEncoder.encode_assignment", params={"key": "str", "value": "pyval", "level": "int", "key_len": "int"}, exits=[
        Exit("return", res="str", post=post), Exit("ValueError"), Exit("TypeError")], props=("C01", "C07", "C12"))
    c.cases = [(f"{cls}{'-default-width' if kl == 'none' else ''}", {"key": "str", "value": "pyval", "level": "int", "key_len": kl, "__cls__": cls})
               for cls in ("PVLEncoder", "ISISEncoder") for kl in ("int", "none")]
    out.append(c)
    return out


def based_int_contracts():
    """decode_non_decimal (C03): the value is int(<sign text><digits text>, base=int(<radix text>)) of the groups of the pattern
    that matches; the Omni decoder takes the sign from whichever of the two positions is written and refuses both"""
    from ..pyvc.objtheory import S, strcat, lit
    I, B = z3.IntSort(), z3.BoolSort()
    V = z3.Const("value_text", S)
    fm = z3.Function("re_fullmatch", S, S, B)
    int_ok_b = z3.Function("int_accepts_in_base", S, I, B)
    int_val_b = z3.Function("int_value_in_base", S, I, I)
    int_ok = z3.Function("int_accepts", S, B)
    int_val = z3.Function("int_value", S, I)

    def grp(re_, g):
        return z3.Const(f"{re_}_group_{g}", S)

    def has(re_, g):
        return z3.Const(f"{re_}_has_group_{g}", B)

    def pat(re_):
        return z3.Const("pattern_" + re_, S)

    def based(re_, sign_text):
        digits, radix = grp(re_, "non_decimal"), grp(re_, "radix")
        return int_ok(radix), int_ok_b(strcat(sign_text, digits), int_val(radix)), int_val_b(strcat(sign_text, digits), int_val(radix))

    def groups_present(re_, names):
        return z3.And(*[has(re_, n) for n in names])
    out = []
    # PVL: the first of binary / octal / hex that matches
    names = ("binary_re", "octal_re", "hex_re")

    def pvl_post(pre, post_, a, r):
        conds, prev = [], []
        for n in names:
            rok, vok, val = based(n, grp(n, "sign"))
            conds.append(z3.Implies(z3.And(fm(pat(n), V), *[z3.Not(fm(pat(p), V)) for p in prev]), r.t == val))
            prev.append(n)
        return [("the value of the first matching pattern's groups: int(sign + digits, base=int(radix))", z3.And(*conds)),
                ("a value only when some pattern matches", z3.Or(*[fm(pat(n), V) for n in names]))]
    req = lambda pre, a: [("the three patterns define the groups sign, radix, non_decimal (ground obligation)",   # noqa: E731
                           z3.And(*[groups_present(n, ("sign", "radix", "non_decimal")) for n in names]))]
    out.append(Contract("pvl.decoder.PVLDecoder.decode_non_decimal", params={"value": "text"}, requires=req, exits=[
        Exit("return", res="int", post=pvl_post), Exit("ValueError")], props=("C03",)))
    # ODL
    n = "nondecimal_re"

    def odl_post(pre, post_, a, r):
        rok, vok, val = based(n, grp(n, "sign"))
        return [("the value of the pattern's groups: int(sign + digits, base=int(radix))", z3.And(fm(pat(n), V), r.t == val))]
    out.append(Contract("pvl.decoder.ODLDecoder.decode_non_decimal", params={"value": "text"},
                        requires=lambda pre, a: [("groups", groups_present(n, ("sign", "radix", "non_decimal")))], exits=[
        Exit("return", res="int", post=odl_post), Exit("ValueError")], props=("C03",)))
    # Omni: either sign position, not both

    def omni_post(pre, post_, a, r):
        s1, s2 = grp(n, "sign"), grp(n, "second_sign")
        two = has(n, "second_sign")
        sign = z3.If(two, z3.If(s1 != lit(""), s1, s2), s1)
        rok, vok, val = based(n, sign)
        return [("a value only when the pattern matches and the two sign positions are not both written",
                 z3.And(fm(pat(n), V), z3.Not(z3.And(two, s1 != lit(""), s2 != lit(""))))),
                ("the sign is the one that is written (before the radix or after the '#'); value int(sign + digits, base=int(radix))",
                 r.t == val)]
    out.append(Contract("pvl.decoder.OmniDecoder.decode_non_decimal", params={"value": "text"},
                        requires=lambda pre, a: [("groups", groups_present(n, ("sign", "radix", "non_decimal")))], exits=[
        Exit("return", res="int", post=omni_post), Exit("ValueError")], props=("C03",)))
    return out


def unquoted_contracts():
    """PVLDecoder.decode_unquoted_string / ODLDecoder.decode_unquoted_string (C17): the decoder's definition of the unquoted-string
    class - no comment delimiter, white space or reserved character in it, not an aggregation keyword or END in any letter case,
    not decodable as a date/time (ODL: also an identifier)"""
    from ..pyvc.core import LoopSpec, TupV, ObjV, Z
    from ..pyvc.objtheory import S, casefold
    from ..pyvc.lextheory import sub_in, tid
    from ..pyvc.enctheory import (sub_any, pair_part_in, cf_in, cf_in_flat, tok_pred, pred_id, CONFIGURED, ident_ok)
    D = "pvl.decoder."
    CM, WS, RC, ES = tid("g.comments"), tid("g.whitespace"), tid("g.reserved_characters"), tid("g.end_statements")
    AK = tid("g.aggregation_keywords.items")

    def v_of(env):
        x = env["value"]
        return x.t

    def table_exit(env, st):
        coll = env["coll"]
        tab = coll.items[1] if isinstance(coll, TupV) else None
        if isinstance(tab, ObjV) and tab.role == "flatpairs":
            return [("no comment delimiter in the text", z3.Not(pair_part_in(tab.info["id"], v_of(env))))]
        return [("no member of the table in the text", z3.Not(sub_any(tab.info["id"], v_of(env))))]
    inner = LoopSpec(fall_through=lambda env, st, x: [("the item is not in the text", z3.Not(sub_in(x, v_of(env))))], exit=table_exit)
    kwloop = LoopSpec(fall_through=lambda env, st, x: [("not this aggregation keyword", casefold(x) != casefold(v_of(env)))],
                      exit=lambda env, st: [("no aggregation keyword casefold-equals the text", z3.Not(cf_in_flat(AK, casefold(v_of(env)))))])
    esloop = LoopSpec(fall_through=lambda env, st, x: [("not this end statement", casefold(x) != casefold(v_of(env)))],
                      exit=lambda env, st: [("no end statement casefold-equals the text", z3.Not(cf_in(ES, casefold(v_of(env)))))])

    def unq(v):
        return z3.And(z3.Not(pair_part_in(CM, v)), z3.Not(sub_any(WS, v)), z3.Not(sub_any(RC, v)),
                      z3.Not(cf_in_flat(AK, casefold(v))), z3.Not(cf_in(ES, casefold(v))),
                      z3.Not(tok_pred(pred_id("decode_datetime"), CONFIGURED, v)))
    out = []
    for cls in ("PVLDecoder", "ODLDecoder"):
        dd = Contract(D + cls + ".decode_datetime", params={"value": "str"}, exits=[
            Exit("return", res=lambda ex: ObjV("decoded"), when=lambda pre, a: tok_pred(pred_id("decode_datetime"), CONFIGURED, a["value"].t)),
            Exit("ValueError", when=lambda pre, a: z3.Not(tok_pred(pred_id("decode_datetime"), CONFIGURED, a["value"].t)))])
        dd.assumed = True
        dd.note = "returns or raises ValueError as decided by one uninterpreted predicate (functional contracts: T_dec / T_off)"
        out.append(dd)
    c = Contract(D + "PVLDecoder.decode_unquoted_string", params={"value": "str"}, exits=[
        Exit("return", res="str", when=lambda pre, a: unq(a["value"].t), post=lambda pre, post, a, r: [
            ("the string itself is returned", r.t == a["value"].t)]),
        Exit("ValueError", when=lambda pre, a: z3.Not(unq(a["value"].t)))], props=("C17", "C03"))
    c.cases = [(cls, {"value": "str", "__cls__": cls}) for cls in ("PVLDecoder", "ODLDecoder")]
    out.append(c)
    isid = Contract(D + "ODLDecoder.is_identifier", params={"value": "str"}, exits=[
        Exit("return", res="bool", post=lambda pre, post, a, r: [("deterministic", r.t == ident_ok(a["value"].t))])])
    isid.assumed = True
    isid.pure = True
    isid.note = "functional contract in the same section (identifier rule)"
    out.append(isid)
    o = Contract(D + "ODLDecoder.decode_unquoted_string", params={"value": "str"}, exits=[
        Exit("return", res="str", when=lambda pre, a: z3.And(unq(a["value"].t), ident_ok(a["value"].t)),
             post=lambda pre, post, a, r: [("the string itself is returned", r.t == a["value"].t)]),
        Exit("ValueError", when=lambda pre, a: z3.Not(z3.And(unq(a["value"].t), ident_ok(a["value"].t))))], props=("C17", "C03"))
    o.cases = [(cls, {"value": "str", "__cls__": cls}) for cls in ("ODLDecoder", "PDSLabelDecoder")]
    out.append(o)
    return out


def date_contracts():
    """PVLEncoder.encode_date / encode_datetime (C14): the year is written with four digits, month and day by strftime, and a
    date-time is the date text, 'T', and the time text OF THE SAME VALUE"""
    from ..pyvc.timetheory import parts_of, fmt
    E = "pvl.encoder."
    out = []

    def F(a):
        f = a["value"].info["fields"]
        return tuple(f[k] for k in ("hour", "minute", "second", "microsecond"))

    def date_post(pre, post, a, r):
        p = parts_of(r)
        ok = (len(p) == 3 and p[0][0] == "int" and p[0][1] == "04d" and p[1] == ("lit", "-") and p[2][0] == "strftime" and p[2][1] == "%m-%d")
        out_ = [("the text is <year, four digits>-<month>-<day of the value>", z3.BoolVal(ok))]
        if ok:
            out_.append(("the year written is the value's year", p[0][2] == a["value"].info["year"]))
            out_.append(("month and day are rendered from the value itself", z3.BoolVal(all(x is y or x.eq(y) for x, y in zip(p[2][2], F(a))))))
        return out_
    out.append(Contract(E + "PVLEncoder.encode_date", params={"value": "timeval"}, exits=[Exit("return", res="fmt", post=date_post)],
                        props=("C14", "C01")))

    def atom(name):
        def value(ex):
            a = ex.st.ghost["call_args"]
            return fmt([(name, "", F(a), a["value"].info["year"], a["value"].info["tz_none"], a["value"].info["off"])])
        return value
    for cls, nm in (("PVLEncoder", "encode_date"), ("PVLEncoder", "encode_time"), ("ODLEncoder", "encode_time"), ("PDSLabelEncoder", "encode_time")):
        pass

    def dt_contracts():
        d = Contract(E + "PVLEncoder.encode_date", params={"value": "timeval"}, exits=[Exit("return", res=atom("date-text"))])
        d.assumed = True
        d.note = "contract in the same section"
        ts = []
        for cls in ("PVLEncoder", "ODLEncoder", "PDSLabelEncoder"):
            t = Contract(E + cls + ".encode_time", params={"value": "timeval"}, exits=[Exit("return", res=atom("time-text")), Exit("ValueError")])
            t.assumed = True
            t.note = "contract in section encoder-time-contracts"
            ts.append(t)

        def post(pre, post_, a, r):
            p = parts_of(r)
            ok = (len(p) == 3 and p[0][0] == "date-text" and p[1] == ("lit", "T") and p[2][0] == "time-text")
            out_ = [("the text is <date text>T<time text>", z3.BoolVal(ok))]
            if ok:
                same = lambda q: (all(x is y or x.eq(y) for x, y in zip(q[2], F(a))) and (q[3] is a["value"].info["year"] or q[3].eq(a["value"].info["year"]))   # noqa: E731
                                  and q[4].eq(a["value"].info["tz_none"]) and q[5].eq(a["value"].info["off"]))
                out_.append(("both parts are rendered from the value that was passed in (same fields, same zone)", z3.BoolVal(same(p[0]) and same(p[2]))))
            return out_
        c = Contract(E + "PVLEncoder.encode_datetime", params={"value": "timeval"}, exits=[
            Exit("return", res="fmt", post=post), Exit("ValueError")], props=("C14", "C01"))
        c.cases = [(cls, {"value": "timeval", "__cls__": cls}) for cls in ("PVLEncoder", "ODLEncoder", "PDSLabelEncoder", "ISISEncoder")]
        return [d] + ts + [c]
    return out, dt_contracts()
