"""Contract for PDSLabelEncoder._replace_value (C13): the one place where an encoder changes its
argument.  Verified modularly against the proved C10 contracts of OrderedMultiDict.items / clear /
extend: the item at *index* is replaced, every other item - also the ones that share its key -
keeps its place."""
import z3

from ..pyvc.core import Contract, Exit
from ..pyvc.seqtheory import mk, fst, sub, WF
from . import collections as cc


def contracts():
    def md(ex):
        return ex.theory.new_md(ex, "m", "OrderedMultiDict")

    def req(pre, a):
        L = pre.of(a["module"]).items
        i = a["index"].t
        return [("index-in-range", z3.And(0 <= i, i < z3.Length(L))),
                ("key-is-the-key-at-index", fst(L[i]) == a["key"].t)]

    def post(pre, post, a, r):
        L = pre.of(a["module"]).items
        L2 = post.of(a["module"]).items
        i = a["index"].t
        n = z3.Length(L)
        return [("the item at index is replaced and every other item keeps its place",
                 L2 == z3.Concat(sub(L, 0, i), z3.Unit(mk(a["key"].t, a["value"].t)), sub(L, i + 1, n))),
                ("length-unchanged", z3.Length(L2) == n)]

    c = Contract("pvl.encoder.PDSLabelEncoder._replace_value",
                 params={"module": md, "index": "int", "key": "K", "value": "V"},
                 requires=req, exits=[Exit("return", post=post)], props=("C13", "C12", "C01"))
    return [c]
