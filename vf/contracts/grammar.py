"""Contracts for pvl/grammar.py — C15 character tables.
Top-level postconditions are written from the property statement (PVL: ISO 8859-1 without
0-8, 14-31, 127-159; ODL/PDS3: 7-bit ASCII; Omni: everything), not from the code."""
import z3

from ..pyvc.core import Contract, Exit


def pvl_allowed(o):
    return z3.And(o <= 255, z3.Not(z3.And(0 <= o, o <= 8)), z3.Not(z3.And(14 <= o, o <= 31)),
                  z3.Not(z3.And(127 <= o, o <= 159)))


def ascii_allowed(o):
    return o < 128


def _is_char(pre, a):
    return a["char"].kind == "char"


def _not_char(pre, a):
    return a["char"].kind != "char"


CASES = [("single-char", {"char": "char"}), ("len-not-1", {"char": "strlen"})]


def _mk(target, spec):
    c = Contract(
        target,
        exits=[
            Exit("return", when=_is_char, res="bool",
                 post=lambda pre, post, a, r: [("table", r.t == spec(a["char"].t))]),
            Exit("ValueError", when=_not_char),
        ],
        props=("C15",),
    )
    c.cases = CASES
    c.pure = True
    return c


def contracts():
    pvl = _mk("pvl.grammar.PVLGrammar.char_allowed", pvl_allowed)
    odl = _mk("pvl.grammar.ODLGrammar.char_allowed", ascii_allowed)
    pds = _mk("pvl.grammar.PDSGrammar.char_allowed", ascii_allowed)      # inherited: MRO obligation
    isis = _mk("pvl.grammar.ISISGrammar.char_allowed", pvl_allowed)      # inherited
    omni = Contract(
        "pvl.grammar.OmniGrammar.char_allowed",
        exits=[Exit("return", res="bool", post=lambda pre, post, a, r: [("accepts-all", r.t)])],
        props=("C15",))
    omni.cases = CASES
    omni.pure = True
    return [pvl, odl, pds, isis, omni]
