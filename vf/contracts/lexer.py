"""Contracts for the per-character helpers of pvl/lexer.py (C04, C03, C15).

The top-level clauses come from the property statements: white space is dropped only outside
preserve states (C04), inside a comment only that comment's own end delimiter is significant
(comments do not nest, and the delimiters of the other comment syntax are text - C04), quotes /
units / based integers keep every character up to their end delimiter (C03/C04), and the
look-ahead exceptions that keep signs, exponents, based-integer prefixes and zone offsets in one
lexeme (C03).  The helper clauses below them are the docstrings of the functions."""
import z3

from ..pyvc.core import Contract, Exit, LoopSpec, Z, Conc, TupV, ObjV
from ..pyvc.objtheory import strlen, strcat, lit, sval, S
from ..pyvc import lextheory as T
from ..pyvc.lextheory import (set_has, map_has, map_get, map_hasval, pairs_has, pairs_len, sub_in, charat,
                              re_match, allowed, tok_numeric, tok_datetime, lower, tid, rec_eq, only_c)

P = None


def pv(name):
    global P
    if P is None:
        P = T.preserve_values()
    return z3.IntVal(P[name])


def sv(v):
    if isinstance(v, ObjV) and v.role == "optstr":
        return v.info["val"]
    return sval(v)


def is_str(v, text):
    """the (possibly None) character value equals the literal"""
    if isinstance(v, ObjV) and v.role == "optstr":
        return z3.And(z3.Not(v.info["none"]), v.info["val"] == lit(text))
    if isinstance(v, Conc) and v.v is None:
        return z3.BoolVal(False)
    return sval(v) == lit(text)


class Step:
    """symbols of one helper call: inputs and the returned (lexeme, preserve)"""

    def __init__(self, a, r):
        self.char = sv(a["char"])
        self.lexeme = sv(a["lexeme"])
        self.p = a["preserve"]
        self.state = self.p.info["state"]
        self.end_none = self.p.info["end_none"]
        self.end = self.p.info["end"]
        self.out = sval(r.items[0])
        self.q = r.items[1]

    def unchanged(self):
        return z3.And(self.out == self.lexeme, rec_eq(self.q, self.p))

    def appended(self, what=None):
        return self.out == strcat(self.lexeme, what if what is not None else self.char)

    def same_state(self):
        return rec_eq(self.q, self.p)

    def now(self, state, end=None):
        if end is None:
            return z3.And(self.q.info["state"] == pv(state), self.q.info["end_none"])
        return z3.And(self.q.info["state"] == pv(state), z3.Not(self.q.info["end_none"]), self.q.info["end"] == end)

    # -- spec functions ------------------------------------------------------------------------
    def preserve_step(self):
        """docstring of lex_preserve: always append; reaching the end delimiter leaves the state"""
        hit = z3.And(z3.Not(self.end_none), self.end == self.char)
        return z3.And(self.appended(), z3.If(hit, self.now("FALSE"), self.same_state()))

    def single_step(self, cid):
        in_c = self.state == pv("COMMENT")
        opens = map_has(cid, self.char)
        return z3.If(in_c, self.preserve_step(),
                     z3.If(opens, z3.And(self.appended(), self.now("COMMENT", map_get(cid, self.char))),
                           self.unchanged()))

    def multi_step(self, pid, prev, nxt):
        has = pairs_has(pid, lit("/*"), lit("*/"))
        star, slash = self.char == lit("*"), self.char == lit("/")
        in_c = self.state == pv("COMMENT")
        pslash, nslash = is_str(prev, "/"), is_str(nxt, "/")
        pstar, nstar = is_str(prev, "*"), is_str(nxt, "*")
        inside = z3.If(z3.And(star, nslash),
                       z3.And(self.appended(lit("*/")), self.now("FALSE")),      # the end delimiter
                       z3.And(self.appended(), self.same_state()))               # anything else is comment text
        outside = z3.If(z3.And(star, pslash), z3.And(self.appended(lit("/*")), self.now("COMMENT", lit("*/"))),
                  z3.If(z3.And(star, nslash), z3.And(self.appended(lit("*/")), self.now("FALSE")),
                  z3.If(star, z3.And(self.appended(lit("*")), self.same_state()),
                  z3.If(z3.And(slash, z3.Not(pstar), z3.Not(nstar)), z3.And(self.appended(lit("/")), self.same_state()),
                        self.unchanged()))))
        return z3.If(has, z3.If(in_c, inside, outside), self.unchanged())

    def in_single_comment(self, sc):
        return z3.And(self.state == pv("COMMENT"), z3.Not(self.end_none), map_hasval(sc, self.end))

    def comment_step(self, prev, nxt):
        sc, mc, mp = tid("c_info.single_comments"), tid("c_info.multi_chars"), tid("c_info.multi_comments")
        return z3.If(self.in_single_comment(sc), self.preserve_step(),
                     z3.If(set_has(mc, self.char), self.multi_step(mp, prev, nxt), self.single_step(sc)))


def continue_spec(char, n, lexeme, tokt, preserve):
    """lex_continue: there is an allowed next character and (a preserve state is open or a look-ahead exception applies)"""
    nn, nv = n.info["none"], n.info["val"]
    st = preserve.info["state"]
    nsc = tid("g.numeric_start_chars")
    pre_re = tid("g.nondecimal_pre_re")
    look = z3.Or(
        st != pv("FALSE"),
        z3.And(set_has(nsc, char), tok_numeric(strcat(char, nv))),                       # a sign starting a number
        re_match(pre_re, strcat(lexeme, nv)),                                             # based-integer prefix
        z3.And(lower(char) == lit("e"), set_has(nsc, nv),
               tok_numeric(strcat(strcat(lexeme, nv), lit("2")))),                       # exponent sign
        z3.And(set_has(nsc, nv), tok_datetime(tokt)))                                     # zone offset
    return z3.And(z3.Not(nn), allowed(nv), look)


def multi_errors(pid, only_for_multi_chars=False):
    def empty(pre, a):
        if only_for_multi_chars:      # lex_comment / lex_char reach lex_multichar_comments only for a multi-comment character
            return z3.And(pairs_len(pid(a)) == 0, set_has(tid("c_info.multi_chars"), sv(a["char"])))
        return pairs_len(pid(a)) == 0
    return [Exit("ValueError", when=empty),
            Exit("NotImplementedError", when=lambda pre, a: z3.And(pairs_len(pid(a)) > 0, z3.Not(only_c(pid(a)))))]


def contracts():
    out = []
    step = {"char": "char", "lexeme": "str", "preserve": "preserve"}
    req_char = lambda pre, a: [("char-is-one-character", strlen(sv(a["char"])) == 1)]   # noqa: E731

    out.append(Contract("pvl.lexer.lex_preserve", params=dict(step), requires=req_char, exits=[
        Exit("return", res="lexstep", post=lambda pre, post, a, r: [
            ("always-appends-char", Step(a, r).appended()),
            ("end-delimiter-leaves-the-state-else-unchanged", Step(a, r).preserve_step())])],
        props=("C04", "C03")))

    out.append(Contract("pvl.lexer.lex_singlechar_comments", params=dict(step, comments="strmap"), requires=req_char, exits=[
        Exit("return", res="lexstep", post=lambda pre, post, a, r: [
            ("spec", Step(a, r).single_step(a["comments"].info["id"])),
            ("inside-a-comment-nothing-is-dropped",
             z3.Implies(Step(a, r).state == pv("COMMENT"), Step(a, r).appended())),
        ])], props=("C04",)))

    mparams = dict(step, prev_char="optchar", next_char="optchar", comments="pairs")
    out.append(Contract("pvl.lexer.lex_multichar_comments", params=mparams, requires=req_char, exits=[
        Exit("return", res="lexstep", when=lambda pre, a: pairs_len(a["comments"].info["id"]) > 0,
             post=lambda pre, post, a, r: [
                 ("spec", Step(a, r).multi_step(a["comments"].info["id"], a["prev_char"], a["next_char"])),
                 ("comments-do-not-nest: inside a comment only '*/' changes the state",
                  z3.Implies(z3.And(Step(a, r).state == pv("COMMENT"),
                                    z3.Not(z3.And(Step(a, r).char == lit("*"), is_str(a["next_char"], "/")))),
                             Step(a, r).same_state())),
                 ("inside-a-comment-nothing-is-dropped",
                  z3.Implies(z3.And(Step(a, r).state == pv("COMMENT"),
                                    pairs_has(a["comments"].info["id"], lit("/*"), lit("*/"))),
                             z3.Or(Step(a, r).appended(), Step(a, r).appended(lit("*/"))))),
             ])] + multi_errors(lambda a: a["comments"].info["id"]),
        props=("C04",)))

    cparams = dict(step, prev_char="optchar", next_char="optchar", c_info="cinfo")
    mp = lambda a: tid("c_info.multi_comments")    # noqa: E731
    out.append(Contract("pvl.lexer.lex_comment", params=cparams, requires=req_char, exits=[
        Exit("return", res="lexstep", post=lambda pre, post, a, r: [
            ("spec", Step(a, r).comment_step(a["prev_char"], a["next_char"])),
            ("inside a single-character comment the multi-character delimiters are text",
             z3.Implies(Step(a, r).in_single_comment(tid("c_info.single_comments")), Step(a, r).preserve_step())),
        ])] + multi_errors(mp, True), props=("C04",)))

    def lex_char_post(pre, post, a, r):
        s = Step(a, r)
        st = s.state
        ws, quotes, chars = tid("g.whitespace"), tid("g.quotes"), tid("c_info.chars")
        uo, uc = z3.Const("units_open", S), z3.Const("units_close", S)
        nd = z3.And(s.char == lit("#"), re_match(tid("g.nondecimal_pre_re"), strcat(s.lexeme, s.char)))
        free = z3.If(nd, z3.And(s.appended(), s.now("NONDECIMAL", lit("#"))),
               z3.If(set_has(chars, s.char), s.comment_step(a["prev_char"], a["next_char"]),
               z3.If(sub_in(s.char, uo), z3.And(s.appended(), s.now("UNIT", uc)),
               z3.If(set_has(quotes, s.char), z3.And(s.appended(), s.now("QUOTE", s.char)),
               z3.If(z3.Not(set_has(ws, s.char)), z3.And(s.appended(), s.same_state()), s.unchanged())))))
        kept = z3.Or(st == pv("UNIT"), st == pv("QUOTE"), st == pv("NONDECIMAL"))
        plain_ws = z3.And(st == pv("FALSE"), set_has(ws, s.char), z3.Not(nd), z3.Not(set_has(chars, s.char)),
                          z3.Not(sub_in(s.char, uo)), z3.Not(set_has(quotes, s.char)))
        return [
            ("white space outside quotes, units, based integers and comments is dropped and changes nothing",
             z3.Implies(plain_ws, s.unchanged())),
            ("white space inside quotes, units and based integers is kept",
             z3.Implies(z3.And(kept, set_has(ws, s.char)), s.appended())),
            ("inside quotes, units and based integers every character is kept up to the end delimiter",
             z3.Implies(kept, s.preserve_step())),
            ("inside a comment the step is the comment step", z3.Implies(st == pv("COMMENT"), s.comment_step(a["prev_char"], a["next_char"]))),
            ("outside: '#' after a radix opens a based integer, then comment characters, units, quotes; "
             "any other non-white-space character is appended; white space is dropped",
             z3.Implies(st == pv("FALSE"), free)),
        ]

    def known(st):
        return z3.Or(*[st == pv(n) for n in ("FALSE", "COMMENT", "UNIT", "QUOTE", "NONDECIMAL")])

    out.append(Contract("pvl.lexer.lex_char", params=dict(cparams, g="grammar"), requires=req_char, exits=[
        Exit("return", res="lexstep", when=lambda pre, a: known(a["preserve"].info["state"]), post=lex_char_post),
        Exit("ValueError", when=lambda pre, a: z3.Or(z3.Not(known(a["preserve"].info["state"])),
                                                     z3.And(pairs_len(tid("c_info.multi_comments")) == 0,
                                                            set_has(tid("c_info.multi_chars"), sv(a["char"]))))),
        Exit("NotImplementedError", when=lambda pre, a: z3.And(pairs_len(tid("c_info.multi_comments")) > 0,
                                                               z3.Not(only_c(tid("c_info.multi_comments"))))),
    ], props=("C04", "C03")))

    def cont_post(pre, post, a, r):
        return [("continues exactly when there is an allowed next character and (a preserve state is open or one of "
                 "the look-ahead exceptions applies)",
                 r.t == continue_spec(sv(a["char"]), a["next_char"], sv(a["lexeme"]), a["token"].info["text"], a["preserve"]))]

    def _unused(pre, post, a, r):
        char, lexeme = sv(a["char"]), sv(a["lexeme"])
        n = a["next_char"]
        nn, nv = n.info["none"], n.info["val"]
        st = a["preserve"].info["state"]
        nsc = tid("g.numeric_start_chars")
        pre_re = tid("g.nondecimal_pre_re")
        tokt = a["token"].info["text"]
        look = z3.Or(
            st != pv("FALSE"),
            z3.And(set_has(nsc, char), tok_numeric(strcat(char, nv))),                       # a sign starting a number
            re_match(pre_re, strcat(lexeme, nv)),                                             # based-integer prefix
            z3.And(lower(char) == lit("e"), set_has(nsc, nv),
                   tok_numeric(strcat(strcat(lexeme, nv), lit("2")))),                       # exponent sign
            z3.And(set_has(nsc, nv), tok_datetime(tokt)))                                     # zone offset
        return [("continues exactly when there is an allowed next character and (a preserve state is open or one of "
                 "the look-ahead exceptions applies)", r.t == z3.And(z3.Not(nn), allowed(nv), look))]

    out.append(Contract("pvl.lexer.lex_continue",
                        params={"char": "char", "next_char": "optchar", "lexeme": "str", "token": "token",
                                "preserve": "preserve", "g": "grammar"},
                        requires=req_char, exits=[Exit("return", res="bool", post=cont_post)], props=("C03", "C04")))

    def prev_post(pre, post, a, r):
        s, i = sval(a["s"]), a["idx"].t
        return [("None at the start", r.info["none"] == (i <= 0)),
                ("else the character before idx", z3.Implies(i > 0, r.info["val"] == charat(s, i - 1)))]

    out.append(Contract("pvl.lexer._prev_char", params={"s": "str", "idx": "int"}, exits=[
        Exit("return", res="optchar", when=lambda pre, a: z3.Or(a["idx"].t <= 0, a["idx"].t <= strlen(sval(a["s"]))),
             post=prev_post),
        Exit("IndexError", when=lambda pre, a: a["idx"].t > strlen(sval(a["s"])))], props=("C04",)))

    def next_post(pre, post, a, r):
        s, i = sval(a["s"]), a["idx"].t
        n = strlen(s)
        return [("None at the end", r.info["none"] == (i + 1 >= n)),
                ("else the character after idx", z3.Implies(i + 1 < n, r.info["val"] == charat(s, i + 1)))]

    out.append(Contract("pvl.lexer._next_char", params={"s": "str", "idx": "int"},
                        requires=lambda pre, a: [("idx-not-negative", a["idx"].t >= 0)],
                        exits=[Exit("return", res="optchar", post=next_post)], props=("C04",)))
    return out


def loop_contracts():
    """one-iteration contract of the main loop of pvl.lexer.lexer (C09, C04, C03, C15): what one character does to the
    accumulated lexeme and when a token is yielded"""
    from ..pyvc.core import LoopSpec, ObjV, Conc, Z
    from ..pyvc.lextheory import tok_is
    from . import exceptions as cx
    helpers = contracts()
    for c in helpers:
        c.assumed = True
        c.note = "discharged in the same section (lexer-helper-contracts)"
    fp = [c for c in cx.contracts() if c.target.endswith(".firstpos")]
    for c in fp:
        c.assumed = True
        c.note = "discharged in check C15"
    pct = Contract("pvl.lexer._prepare_comment_tuples", params={"comments": "pairs"}, exits=[
        Exit("return", res=lambda ex: ObjV("cinfo"))])
    pct.assumed = True
    pct.note = "builds the c_info tables (arbitrary tables in T_lex); bounded drivers"

    def step(ex, before, after, yields, action):
        ws, rc = tid("g.whitespace"), tid("g.reserved_characters")
        out = [("at most one token per character", z3.BoolVal(len(yields) <= 1))]
        yielded = len(yields) == 1
        nxt = after.get("next_char")
        if nxt is None or not (isinstance(nxt, ObjV) and nxt.role == "optstr"):
            return out                     # the character was refused before the step (LexerError path ends elsewhere)
        char = sval(after["char"])
        if yielded:
            tok = yields[0]
            out.append(("what is yielded is a Token", z3.BoolVal(isinstance(tok, ObjV) and tok.role == "token")))
            if not (isinstance(tok, ObjV) and tok.role == "token"):
                return out
            L1 = tok.info["text"]
            out.append(("after a yield the accumulation restarts with an empty lexeme",
                        z3.BoolVal(isinstance(after["lexeme"], Conc) and after["lexeme"].v == "")))
        else:
            L1 = sval(after["lexeme"])
        P1 = after["preserve"]
        nn, nv = nxt.info["none"], nxt.info["val"]
        empty = L1 == lit("")
        cont = continue_spec(char, nxt, L1, L1, P1)
        y = z3.BoolVal(yielded)
        ready = z3.And(z3.Not(empty), z3.Not(cont))
        out += [
            ("white space alone yields nothing; a look-ahead exception or an open quote / comment / units keeps accumulating",
             z3.Implies(y, ready)),
            ("the end of the text flushes the accumulated lexeme", z3.Implies(z3.And(z3.Not(empty), nn), y)),
            ("a next character the grammar does not allow ends the lexeme before it (nothing after END is looked at)",
             z3.Implies(z3.And(ready, z3.Not(nn), z3.Not(allowed(nv))), y)),
            ("white space after a lexeme ends it", z3.Implies(z3.And(ready, z3.Not(nn), set_has(ws, nv)), y)),
            ("a reserved character after a lexeme ends it", z3.Implies(z3.And(ready, z3.Not(nn), set_has(rc, nv)), y)),
            ("a reserved character is a lexeme of its own", z3.Implies(z3.And(ready, set_has(rc, L1)), y)),
        ]
        return out
    def known(st):
        return z3.Or(*[st == pv(n) for n in ("FALSE", "COMMENT", "UNIT", "QUOTE", "NONDECIMAL")])
    MP, MC = tid("c_info.multi_comments"), tid("c_info.multi_chars")
    cc = z3.Const("any_char", S)

    def req(pre, a):
        return [("the grammar's multi-character comments are the supported pair only (true of the five grammars: ground obligation)", only_c(MP)),
                ("c_info as built by _prepare_comment_tuples: a multi-comment character implies a multi-comment pair",
                 z3.ForAll([cc], z3.Implies(set_has(MC, cc), pairs_len(MP) > 0), patterns=[set_has(MC, cc)]))]
    inv = lambda env, st, i: [("the preserve state is one of the five Preserve values", known(env["preserve"].info["state"]))]   # noqa: E731
    c = Contract("pvl.lexer.lexer", params={"s": "str", "g": "grammar", "d": "opaque"}, requires=req,
                 loops={0: LoopSpec(step=step, inv=inv), 1: LoopSpec()},
                 exits=[Exit("return"), Exit("LexerError")], props=("C09", "C04", "C03", "C15"))
    c.generator_body = True
    return helpers + fp + [pct, c]
