"""Contracts for pvl/parser.py over the token-stream ghost model (C06, C05, C09, C08).

One specification per method *name*; every override (ODLParser, OmniParser) is verified against
the same specification (behavioural subtyping), so a call on `self` may be bound to any of them.
Escape sets come from C06 (only LexerError / ParseError leave parse/parse_module; ValueError and
StopIteration are internal signals with stated stream post-states), progress measures give
termination, `ended` gives C09's "no token requested beyond END"."""
import z3

from ..pyvc.core import Contract, Exit, LoopSpec, Conc, Z, TupV, ObjV, fresh
from ..pyvc.toktheory import (N, LEXFAIL, tokat, isWSC, isParam, isEndStmt, isDelim, isBegin, memcf, AGGKEYS,
                              GRPKEYS, OBJKEYS, casefold, sub, rem_of, S, I, B, DOC)
from ..pyvc.objtheory import cnt, rfind, find, lit

P = "pvl.parser."
T = z3.BoolVal(True)


def wf(pre, post):
    th = post.th
    return ("stream-well-formed-and-no-token-regained", z3.And(post.rem <= pre.rem, th["cur"] >= 0, th["cur"] <= N,
                                         z3.Implies(z3.Not(th["live"]), z3.Not(th["pbf"])),
                                         z3.Implies(z3.Not(th["started"]), z3.And(th["cur"] == 0, z3.Not(th["pbf"]))),
                                         z3.Implies(th["live"], th["cur"] <= LEXFAIL)))


def sent_back(post):
    return z3.And(post.pbf, post.live, post.started)


def dead(post):
    return z3.And(z3.Not(post.live), z3.Not(post.pbf))


def ready(s):
    return z3.Or(s.pbf, z3.Not(s.live))


def progressed(pre, post):
    return post.rem < pre.rem


def unchanged(pre, post):
    return z3.And(post.cur == pre.cur, post.pbf == pre.pbf, post.pbt == pre.pbt, post.live == pre.live,
                  post.started == pre.started)


def lexerror():
    return Exit("LexerError", post=lambda pre, post, a, r: [("generator-finished", z3.Not(post.live)), wf(pre, post)])


def tokstr(v):
    if isinstance(v, Conc):
        return None if v.v is None else lit(v.v)
    return v.t


def mark_ended(ex):
    ex.st.th["ended"] = z3.BoolVal(True)


def pair_res(ex):
    return TupV([Z("tok", fresh("r_name", S)), ObjV("val")])


def begin_res(ex):
    return TupV([Z("tok", fresh("r_begin", S)), Z("str", fresh("r_block", S))])


def hook_res(flag):
    def mk(ex):
        a = ex.st.ghost.get("call_args") or {}
        m = a.get("module") or ObjV("cont", info={"oid": "hookm"})
        return TupV([m, Conc(flag)])
    return mk


def SPECS():
    sp = {}

    # ---- parse_WSC_until / parse_statement_delimiter -------------------------------------
    def wsc_false_post(pre, post, a, r):
        out = [("token-sent-back", sent_back(post)), ("only-WSC-skipped", post.rem <= pre.rem),
               ("next-token-is-not-WSC", z3.Not(isWSC(post.pbt))), wf(pre, post)]
        t = tokstr(a["token"])
        if t is not None:
            out.append(("next-token-is-not-the-sought-one", post.pbt != t))
        return out

    sp["parse_WSC_until"] = dict(
        cases=[("until-None", {"token": lambda ex: Conc(None), "tokens": "tokens"}),
               ("until-equals", {"token": lambda ex: Conc("="), "tokens": "tokens"}),
               ("until-str", {"token": "str", "tokens": "tokens"})],
        exits=[
            Exit("return", name="return-True", value=Conc(True),
                 when=lambda pre, a: not (isinstance(a["token"], Conc) and a["token"].v is None),
                 post=lambda pre, post, a, r: [("sought-token-consumed", z3.And(z3.Not(post.pbf), post.live, post.started)),
                                               ("progress", progressed(pre, post)), wf(pre, post)]),
            Exit("return", name="return-False", value=Conc(False), post=wsc_false_post),
            Exit("return", name="return-None", value=Conc(None),
                 post=lambda pre, post, a, r: [("exhausted", dead(post)), wf(pre, post)]),
            lexerror()],
        loops={0: LoopSpec(inv=lambda env, st, i: [("no-more-than-WSC-consumed", rem_of(st.th) <= st.ghost["pre"].rem)])})

    sp["parse_statement_delimiter"] = dict(
        params={"tokens": "tokens"},
        exits=[
            Exit("return", name="return-True", value=Conc(True),
                 post=lambda pre, post, a, r: [("delimiter-consumed", z3.And(z3.Not(post.pbf), post.live, post.started)),
                                               ("progress", progressed(pre, post)), wf(pre, post)]),
            Exit("return", name="return-False", value=Conc(False),
                 post=lambda pre, post, a, r: [("token-sent-back", sent_back(post)), ("only-WSC-skipped", post.rem <= pre.rem),
                                               ("next-token-is-not-WSC", z3.Not(isWSC(post.pbt))), wf(pre, post)]),
            Exit("return", name="return-None", value=Conc(None),
                 post=lambda pre, post, a, r: [("exhausted", dead(post)), wf(pre, post)]),
            lexerror()],
        loops={0: LoopSpec(inv=lambda env, st, i: [("no-more-than-WSC-consumed", rem_of(st.th) <= st.ghost["pre"].rem)])})

    # ---- parse_around_equals ----------------------------------------------------------------
    sp["parse_around_equals"] = dict(
        params={"tokens": "tokens"},
        exits=[
            Exit("return", post=lambda pre, post, a, r: [("ready-for-a-value", ready(post)), ("progress", progressed(pre, post)), wf(pre, post)]),
            Exit("ValueError", post=lambda pre, post, a, r: [("stream-restored", sent_back(post)),
                                                              ("only-WSC-skipped", post.rem <= pre.rem),
                                                              ("next-token-is-not-equals", post.pbt != lit("=")), wf(pre, post)]),
            Exit("ParseError", post=lambda pre, post, a, r: [("exhausted", dead(post)), wf(pre, post)]),
            lexerror()])

    # ---- begin / end aggregation -------------------------------------------------------------
    sp["parse_begin_aggregation_statement"] = dict(
        params={"tokens": "tokens"},
        exits=[
            Exit("return", res=begin_res, post=lambda pre, post, a, r: [
                ("first-token-is-a-begin-keyword", isBegin(r.items[0].t)), ("progress", progressed(pre, post)), wf(pre, post)]),
            Exit("ValueError", post=lambda pre, post, a, r: [
                ("stream-restored-or-exhausted", z3.Or(z3.And(sent_back(post), post.rem == pre.rem), dead(post))), wf(pre, post)]),
            Exit("ParseError", post=lambda pre, post, a, r: [("exhausted", dead(post)), wf(pre, post)]),
            lexerror()])

    sp["parse_end_aggregation"] = dict(
        params={"begin_agg": "tok", "block_name": "str", "tokens": "tokens"},
        requires=lambda pre, a: [("begin-keyword", isBegin(a["begin_agg"].t))],
        exits=[
            Exit("return", post=lambda pre, post, a, r: [("progress", progressed(pre, post)), wf(pre, post)]),
            Exit("ValueError", post=lambda pre, post, a, r: [("stream-restored", z3.And(sent_back(post), post.rem == pre.rem)), wf(pre, post)]),
            Exit("StopIteration", post=lambda pre, post, a, r: [("exhausted", dead(post)), wf(pre, post)]),
            lexerror()],
        loops={0: LoopSpec(inv=lambda env, st, i: [
            ("no-earlier-keyword-matches", z3.Not(memcf(sub(AGGKEYS, 0, i), casefold(st.ghost["args"]["begin_agg"].t))))],
            modifies=[])})

    # No claim that a begin keyword always has a class: in ISISGrammar the keyword table used by
    # is_begin_aggregation() lists BEGIN_GROUP/BEGIN_OBJECT, group_keywords/object_keywords do not.
    # parse_aggregation_block must therefore handle the ValueError exit (it throws into the lexer).
    sp["aggregation_cls"] = dict(
        params={"begin": "tok"}, pure=True,
        exits=[
            Exit("return", res="cont", post=lambda pre, post, a, r: [("stream-untouched", unchanged(pre, post))]),
            Exit("ValueError", post=lambda pre, post, a, r: [("stream-untouched", unchanged(pre, post))])],
        loops={0: LoopSpec(inv=lambda env, st, i: [], modifies=[]), 1: LoopSpec(inv=lambda env, st, i: [], modifies=[])})

    # ---- end statement -------------------------------------------------------------------------
    sp["parse_end_statement"] = dict(
        params={"tokens": "tokens"},
        exits=[
            Exit("return", value=Conc(None), effect=mark_ended, post=lambda pre, post, a, r: [
                ("END-consumed-or-exhausted", z3.Or(progressed(pre, post), dead(post))),
                ("at-most-one-token-requested", post.nexts <= pre.nexts + 1), wf(pre, post)]),
            Exit("ValueError", post=lambda pre, post, a, r: [
                ("stream-restored", z3.And(sent_back(post), post.rem == pre.rem)),
                ("next-token-is-not-END", z3.Not(isEndStmt(post.pbt))), wf(pre, post)]),
            lexerror()])

    # ---- assignment ------------------------------------------------------------------------------
    sp["parse_assignment_statement"] = dict(
        params={"tokens": "tokens"},
        exits=[
            Exit("return", res=pair_res, post=lambda pre, post, a, r: [("progress", progressed(pre, post)), wf(pre, post)]),
            Exit("ValueError", post=lambda pre, post, a, r: [
                ("stream-restored-or-exhausted", z3.Or(z3.And(sent_back(post), post.rem == pre.rem), dead(post))), wf(pre, post)]),
            Exit("ParseError", post=lambda pre, post, a, r: [("progress", progressed(pre, post)), wf(pre, post)]),
            lexerror()])

    # ---- values ---------------------------------------------------------------------------------------
    sp["parse_value"] = dict(
        params={"tokens": "tokens"},
        requires=lambda pre, a: [("ready", ready(pre))],
        exits=[
            # no progress claim: the default loader's hook may supply a placeholder without consuming a token
            Exit("return", res="val", post=lambda pre, post, a, r: [wf(pre, post)]),
            Exit("StopIteration", when=lambda pre, a: z3.And(z3.Not(pre.pbf), z3.Not(pre.live)),
                 post=lambda pre, post, a, r: [("exhausted", dead(post)), wf(pre, post)]),
            Exit("ParseError", post=lambda pre, post, a, r: [wf(pre, post)]),
            lexerror()])

    sp["parse_value_post_hook"] = dict(
        params={"tokens": "tokens"},
        requires=lambda pre, a: [("a-token-is-pending", sent_back(pre))],
        exits=[
            Exit("return", res="val", post=lambda pre, post, a, r: [
                ("token-sent-back", z3.And(sent_back(post), post.rem == pre.rem)), wf(pre, post)]),
            Exit("ValueError", post=lambda pre, post, a, r: [
                ("generator-still-suspended", z3.And(post.live, post.started)), ("no-gain", post.rem <= pre.rem), wf(pre, post)])])

    sp["_parse_set_seq"] = dict(
        params={"delimiters": lambda ex: TupV([Z("str", fresh("d_open", S)), Z("str", fresh("d_close", S))]), "tokens": "tokens"},
        requires=lambda pre, a: [("a-token-is-pending", sent_back(pre))],
        exits=[
            Exit("return", res="list", post=lambda pre, post, a, r: [("progress", progressed(pre, post)), wf(pre, post)]),
            Exit("ValueError", post=lambda pre, post, a, r: [("stream-restored", z3.And(sent_back(post), post.rem == pre.rem)), wf(pre, post)]),
            Exit("ParseError", post=lambda pre, post, a, r: [wf(pre, post)]),
            lexerror()],
        loops={0: LoopSpec(inv=lambda env, st, i: [("begin-delimiter-consumed", rem_of(st.th) < st.ghost["pre"].rem)])})

    sp["_parse_set_seq_value"] = dict(
        params={"delimiters": lambda ex: TupV([Z("str", fresh("d_open", S)), Z("str", fresh("d_close", S))]), "tokens": "tokens"},
        requires=lambda pre, a: [("ready", ready(pre))],
        exits=[
            Exit("return", res="val", post=lambda pre, post, a, r: [wf(pre, post)]),
            Exit("ParseError", post=lambda pre, post, a, r: [wf(pre, post)]),
            lexerror()])

    sp["_unterminated_msg"] = dict(
        params={"delimiters": lambda ex: TupV([Z("str", fresh("d_open", S)), Z("str", fresh("d_close", S))])}, pure=True,
        exits=[Exit("return", res="str", post=lambda pre, post, a, r: [("stream-untouched", unchanged(pre, post))])])

    for nm in ("parse_set", "parse_sequence"):
        sp[nm] = dict(
            params={"tokens": "tokens"},
            requires=lambda pre, a: [("a-token-is-pending", sent_back(pre))],
            exits=[
                Exit("return", res="val" if nm == "parse_set" else "list",
                     post=lambda pre, post, a, r: [("progress", progressed(pre, post)), wf(pre, post)]),
                Exit("ValueError", post=lambda pre, post, a, r: [("stream-restored", z3.And(sent_back(post), post.rem == pre.rem)), wf(pre, post)]),
                Exit("ParseError", post=lambda pre, post, a, r: [wf(pre, post)]),
                lexerror()])

    sp["parse_units"] = dict(
        params={"value": "val", "tokens": "tokens"},
        exits=[
            Exit("return", res="val", post=lambda pre, post, a, r: [("progress", progressed(pre, post)), wf(pre, post)]),
            Exit("ValueError", post=lambda pre, post, a, r: [("nothing-consumed", post.rem == pre.rem),
                                                              ("not-finished-by-this", z3.Implies(pre.live, post.live)), wf(pre, post)]),
            Exit("StopIteration", when=lambda pre, a: z3.And(z3.Not(pre.pbf), z3.Or(z3.Not(pre.live), pre.cur >= N)),
                 post=lambda pre, post, a, r: [("exhausted", dead(post)), wf(pre, post)]),
            lexerror()])

    # ---- blocks and module ------------------------------------------------------------------------------
    sp["parse_aggregation_block"] = dict(
        params={"tokens": "tokens"},
        exits=[
            Exit("return", res=lambda ex: TupV([Z("str", fresh("r_block", S)), ObjV("cont", info={"oid": "ragg"})]),
                 post=lambda pre, post, a, r: [("progress", progressed(pre, post)), wf(pre, post)]),
            # only "this is not a block": raised by the begin statement before anything was consumed
            Exit("ValueError", post=lambda pre, post, a, r: [
                ("stream-restored-or-exhausted", z3.Or(z3.And(sent_back(post), post.rem == pre.rem), dead(post))), wf(pre, post)]),
            Exit("ParseError", post=lambda pre, post, a, r: [wf(pre, post)]),
            lexerror()],
        loops={0: LoopSpec(inv=lambda env, st, i: [("begin-statement-consumed", rem_of(st.th) < st.ghost["pre"].rem)],
                           variant=lambda env, st, i: rem_of(st.th))})

    def module_inv(env, st, i):
        p = env["parsing"]
        pt = p.t if isinstance(p, Z) else z3.BoolVal(bool(p.v))
        th = st.th
        return [("a-token-is-pending-when-nothing-parsed", z3.Implies(z3.Not(pt), z3.And(th["pbf"], th["live"], th["started"]))),
                ("no-token-regained", rem_of(th) <= st.ghost["pre"].rem),
                ("not-after-END", z3.Not(th["ended"]))]

    sp["parse_module"] = dict(
        params={"tokens": "tokens"},
        exits=[
            Exit("return", res="cont", effect=mark_ended, post=lambda pre, post, a, r: [wf(pre, post)]),
            Exit("ParseError", post=lambda pre, post, a, r: [wf(pre, post)]),
            lexerror()],
        loops={0: LoopSpec(inv=module_inv, variant=lambda env, st, i: rem_of(st.th), kinds={"parsing": "bool"})})

    def hook_exc_post(pre, post, a, r):
        return [("stream-restored", z3.Implies(sent_back(pre), z3.And(sent_back(post), post.rem == pre.rem))),
                ("no-gain", post.rem <= pre.rem), wf(pre, post)]

    def mlen(snap, a):
        return snap.th.get(f"{a['module'].info['oid']}.len")

    def grew_by_one(pre, post, a):
        l0, l1 = mlen(pre, a), mlen(post, a)
        if l0 is None or l1 is None:
            return []
        return [("repair-keeps-every-statement:one-item-more", l1 == l0 + 1)]

    def grew_by_at_most_one(pre, post, a):
        l0, l1 = mlen(pre, a), mlen(post, a)
        if l0 is None or l1 is None:
            return []
        return [("no-statement-lost", z3.Or(l1 == l0, l1 == l0 + 1))]

    sp["parse_module_post_hook"] = dict(
        params={"module": "cont", "tokens": "tokens"},
        exits=[
            Exit("return", name="return-keep-parsing", res=hook_res(True),
                 post=lambda pre, post, a, r: [("progress", progressed(pre, post)), wf(pre, post)] + grew_by_one(pre, post, a)),
            Exit("return", name="return-stop", res=hook_res(False),
                 post=lambda pre, post, a, r: [("exhausted", dead(post)), wf(pre, post)] + grew_by_at_most_one(pre, post, a)),
            Exit("Exception", post=hook_exc_post),
            Exit("ParseError", post=lambda pre, post, a, r: [wf(pre, post)]),
            lexerror()])

    def empty_value_post(pre, post, a, r):
        d = pre.get("self.doc") or post.get("self.doc")
        doc = d.t if d is not None else DOC
        line = cnt(doc, lit("\n"), z3.IntVal(0), rfind(doc, lit("="), z3.IntVal(0), a["pos"].t)) + 1
        out = [("stream-untouched", unchanged(pre, post))]
        ln = getattr(r, "info", {}).get("lineno") if hasattr(r, "info") else None
        if ln is not None:
            out.append(("placeholder-lineno-is-line-of-the-last-equals-before-pos", ln.t == line))
            last = post.th.get("self.errors_last")
            out.append(("that-line-is-appended-to-errors", z3.BoolVal(last is not None) if last is None else last.t == line))
            if pre.get("self.errors_n") is not None and post.get("self.errors_n") is not None:
                out.append(("exactly-one-error-recorded", post.th["self.errors_n"] == pre.th["self.errors_n"] + 1))
        return out

    sp["_empty_value"] = dict(
        params={"pos": "int"}, pure=True,
        exits=[Exit("return", res="val", post=empty_value_post)])

    sp["parse"] = dict(
        params={"s": "str"},
        exits=[
            Exit("return", res="cont", post=lambda pre, post, a, r: []),
            Exit("ParseError", post=lambda pre, post, a, r: []),
            Exit("LexerError", post=lambda pre, post, a, r: [])])
    return sp


METHODS = {
    "PVLParser": ["parse", "aggregation_cls", "parse_module", "parse_module_post_hook", "parse_aggregation_block",
                  "parse_around_equals", "parse_begin_aggregation_statement", "parse_end_aggregation",
                  "parse_end_statement", "parse_assignment_statement", "parse_WSC_until", "_parse_set_seq",
                  "_unterminated_msg", "_parse_set_seq_value", "parse_set", "parse_sequence",
                  "parse_statement_delimiter", "parse_value", "parse_value_post_hook", "parse_units"],
    "ODLParser": ["parse_set", "parse_units"],
    "OmniParser": ["_empty_value", "parse", "parse_module_post_hook", "parse_assignment_statement",
                   "parse_value_post_hook"],
}


def contracts():
    out = []
    for cls, ms in METHODS.items():
        sp = SPECS()
        for m in ms:
            d = dict(sp[m])
            cases = d.pop("cases", None)
            pure = d.pop("pure", False)
            c = Contract(P + f"{cls}.{m}", props=("C06", "C05", "C09"), **d)
            if cases:
                c.cases = cases
            c.pure = pure
            out.append(c)
    from .exceptions import contracts as exc_contracts
    for c in exc_contracts():
        if c.target.endswith(".linecount"):
            c.assumed = True
            c.note = "verified in the T_str section (C15 lexer-error-attributes / C08)"
            out.append(c)
    return out
