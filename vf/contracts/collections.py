"""Contracts for pvl/collections.py (C10, C11).  Postconditions are stated over the whole
abstract list view L = pre.items, from the property statement:
  assignment replaces the first occurrence and drops later ones; insert places the pairs at
  the index; pop() removes the last pair; lookup gives the first value; getall all values in
  order; key_index positions; equality = same class and equal lists.
"""
import z3

from ..pyvc.core import Contract, Exit, LoopSpec, Conc, Z, TupV, ObjV, fresh
from ..pyvc.seqtheory import (K, V, Pair, SeqP, SeqV, SeqK, SeqI, mk, fst, snd, proj, dropk, keysf, valsf,
                              posf, setspec, foldset, kvof, kv_ok, tup1, WF, sub, EMPTY_P, EMPTY_V, EMPTY_I,
                              ax_setspec_present, ax_proj_first, MARKER, InsArgs, mem, first_at, memP, memV, memK, clampf, startf, clamp_ite, start_ite)

M = "pvl.collections.OrderedMultiDict."
I = z3.IntSort()


def k0():
    return fresh("k0", K)


def wf(s):
    return ("WF", WF(s, k0()))


def same(pre, post):
    return [("frame:list-unchanged", post.items == pre.items),
            ("frame:storage-unchanged", z3.And(post.has == pre.has, post.d == pre.d))]


def req_wf(pre, a):
    return [wf(pre)]


def present(pre, k):
    return z3.Length(proj(pre.items, k)) > 0


def absent(pre, k):
    return z3.Length(proj(pre.items, k)) == 0


def norm_index(i, n):
    return z3.If(i >= 0, i, n + i)


def in_range(i, n):
    return z3.And(i >= -n, i < n)


def clamp(i, n):
    """where list.insert(i, x) puts x (defined by axiom as the usual case split)"""
    return clampf(i, n)


def ins(L, j, kv):
    n = z3.Length(L)
    return z3.Concat(sub(L, 0, j), kv, sub(L, j, n))


def prefix_ext(L, i):
    """valid: 0 <= i < len L  =>  L[:i+1] = L[:i] ++ [L[i]]  and  len L[:i] = i"""
    return z3.Implies(z3.And(0 <= i, i < z3.Length(L)),
                      z3.And(sub(L, 0, i + 1) == z3.Concat(sub(L, 0, i), z3.Unit(L[i])),
                             z3.Length(sub(L, 0, i)) == i))


def mut(target, **kw):
    c = Contract(target, **kw)
    c.wf_post = True
    return c


def pure(target, **kw):
    c = Contract(target, **kw)
    c.pure = True
    return c


def is_kind(name, kind):
    return lambda pre, a: isinstance(a[name], Z) and a[name].kind == kind


def argsrc(pre, a, nm="args"):
    """the pairs denoted by the (at most one) positional argument of __init__/extend"""
    args = a[nm]
    if not isinstance(args, TupV) or len(args.items) == 0:
        return EMPTY_P
    x = args.items[0]
    if isinstance(x, Z) and x.kind == "seqP":
        return x.t
    if isinstance(x, ObjV) and x.role in ("md", "self"):
        return pre.of(x).items
    raise ValueError(f"argsrc: {x!r}")


def kwsrc(a, nm="kwargs"):
    kw = a.get(nm)
    if isinstance(kw, Z) and kw.kind == "kwargs":
        return kw.t
    return EMPTY_P


def insargs_term(v):
    if isinstance(v, Z) and v.kind == "insargs":
        return v.t
    if isinstance(v, TupV) and len(v.items) == 1 and isinstance(v.items[0], Z) and v.items[0].kind == "item":
        return tup1(v.items[0].t)
    raise ValueError(f"insargs: {v!r}")


def _md_arg(name, oid):
    def make(ex):
        th = ex.theory
        return th.new_md(ex, oid, "OrderedMultiDict")
    return make


def _kwargs(ex):
    return Z("kwargs", fresh("kw", SeqP))


def contracts():
    cs = []

    # ---- constructor / extend ----------------------------------------------------------
    ext_cases = [
        ("no-arg", {}),
        ("pairs", {"*args": lambda ex: TupV([Z("seqP", fresh("src", SeqP))])}),
        ("multidict", {"*args": lambda ex: TupV([ex.theory.new_md(ex, "o", "OrderedMultiDict")])}),
        ("pairs+kwargs", {"*args": lambda ex: TupV([Z("seqP", fresh("src", SeqP))]), "**kwargs": _kwargs}),
        ("two-args", {"*args": lambda ex: TupV([Z("seqP", fresh("s1", SeqP)), Z("seqP", fresh("s2", SeqP))])}),
    ]

    def nargs_ok(pre, a):
        return len(a["args"].items) <= 1

    def nargs_bad(pre, a):
        return len(a["args"].items) > 1

    init = mut(M + "__init__", exits=[
        Exit("return", when=nargs_ok, post=lambda pre, post, a, r: [
            ("view", post.items == z3.Concat(argsrc(pre, a), kwsrc(a))), wf(post)]),
        Exit("TypeError", when=nargs_bad)], props=("C10", "C11"))
    init.cases = ext_cases
    cs.append(init)

    def ext_inv(env, st, i):
        # one specification for every loop of extend(): a loop over the keyword arguments has consumed the whole positional
        # source; any other loop is over the positional source (whatever local it was bound to)
        pre = st.ghost["pre"]
        a = st.ghost["args"]
        src = argsrc(pre, a)
        cur = st.th["self.items"]
        seq = st.ghost.get("loop.seq")
        over_kw = seq is not None and isinstance(a.get("kwargs"), Z) and seq.eq(kwsrc(a))
        if not over_kw:
            return [("view", cur == z3.Concat(pre.items, sub(src, 0, i)))]
        return [("view", cur == z3.Concat(pre.items, src, sub(kwsrc(a), 0, i)))]

    ext = mut(M + "extend", requires=req_wf, exits=[
        Exit("return", when=nargs_ok, post=lambda pre, post, a, r: [
            ("view", post.items == z3.Concat(pre.items, argsrc(pre, a), kwsrc(a))), wf(post)]),
        Exit("TypeError", when=nargs_bad, post=lambda pre, post, a, r: same(pre, post))],
        loops={"*": LoopSpec(inv=ext_inv)},
        props=("C10",))
    ext.cases = ext_cases
    cs.append(ext)

    # ---- append / assignment / deletion ----------------------------------------------
    cs.append(mut(M + "append", params={"key": "K", "value": "V"}, requires=req_wf, exits=[
        Exit("return", post=lambda pre, post, a, r: [
            ("view", post.items == z3.Concat(pre.items, z3.Unit(mk(a["key"].t, a["value"].t)))), wf(post)])],
        props=("C10",)))

    def setitem_inv(env, st, i):
        pre = st.ghost["pre"]
        key = st.ghost["args"]["key"].t
        value = st.ghost["args"]["value"].t
        return [("list-unchanged", st.th["self.items"] == pre.items),
                ("no-earlier-occurrence", z3.Length(proj(sub(pre.items, 0, i), key)) == 0),
                ("storage", z3.And(st.th["self.has"] == z3.Store(pre.has, key, z3.BoolVal(True)),
                                   st.th["self.d"] == z3.Store(pre.d, key, z3.Unit(value))))]

    def setitem_hints(ex, kind, res):
        b = ex.st.ghost.get("loop#0.break_i")
        if b is None:
            return []
        L = ex.pre.items
        n = z3.Length(L)
        return [ax_setspec_present(L, sub(L, 0, b), L[b], sub(L, b + 1, n), ex.args["key"].t, ex.args["value"].t)]

    si = mut(M + "__setitem__", params={"key": "K", "value": "V"}, requires=req_wf, exits=[
        Exit("return", post=lambda pre, post, a, r: [
            ("view", post.items == setspec(pre.items, a["key"].t, a["value"].t)), wf(post)])],
        loops={0: LoopSpec(inv=setitem_inv, kinds={}, modifies=[])}, hints=setitem_hints, props=("C10",))
    si.loops[0].wf = False
    cs.append(si)

    cs.append(mut(M + "__delitem__", params={"key": "K"}, requires=req_wf, exits=[
        Exit("return", when=lambda pre, a: present(pre, a["key"].t), post=lambda pre, post, a, r: [
            ("view", post.items == dropk(pre.items, a["key"].t)), wf(post)]),
        Exit("KeyError", when=lambda pre, a: absent(pre, a["key"].t),
             post=lambda pre, post, a, r: same(pre, post))], props=("C10",)))

    # ---- lookups ----------------------------------------------------------------------
    def gi_first_hint(ex, kind, res):
        return []

    gi = pure(M + "__getitem__", requires=req_wf, exits=[
        Exit("return", name="return-value",
             when=lambda pre, a: is_kind("key", "K")(pre, a) and present(pre, a["key"].t), res="V",
             post=lambda pre, post, a, r: [("first-value", r.t == proj(pre.items, a["key"].t)[0])] + same(pre, post)),
        Exit("KeyError", when=lambda pre, a: is_kind("key", "K")(pre, a) and absent(pre, a["key"].t),
             post=lambda pre, post, a, r: same(pre, post)),
        Exit("return", name="return-pair",
             when=lambda pre, a: is_kind("key", "int")(pre, a) and in_range(a["key"].t, z3.Length(pre.items)),
             res="pair",
             post=lambda pre, post, a, r: [("indexed-pair", r.t == pre.items[norm_index(a["key"].t, z3.Length(pre.items))])]
             + same(pre, post)),
        Exit("IndexError", when=lambda pre, a: is_kind("key", "int")(pre, a) and z3.Not(in_range(a["key"].t, z3.Length(pre.items))),
             post=lambda pre, post, a, r: same(pre, post)),
    ], props=("C10",))
    gi.cases = [("key", {"key": "K"}), ("int", {"key": "int"})]
    gi.multi_return = True
    cs.append(gi)

    cs.append(pure(M + "__len__", requires=req_wf, exits=[
        Exit("return", res="int", post=lambda pre, post, a, r: [("len", r.t == z3.Length(pre.items))] + same(pre, post))],
        props=("C10",)))

    cs.append(pure(M + "__iter__", requires=req_wf, exits=[
        Exit("return", res="iter", post=lambda pre, post, a, r: same(pre, post))], props=("C10",)))

    cs.append(pure(M + "getall", params={"key": "K"}, requires=req_wf, exits=[
        Exit("return", when=lambda pre, a: present(pre, a["key"].t), res="seqV",
             post=lambda pre, post, a, r: [("all-values-in-order", r.t == proj(pre.items, a["key"].t))] + same(pre, post)),
        Exit("KeyError", when=lambda pre, a: absent(pre, a["key"].t), post=lambda pre, post, a, r: same(pre, post))],
        props=("C10",)))

    cs.append(pure(M + "getlist", params={"key": "K"}, requires=req_wf, exits=[
        Exit("return", res="seqV",
             post=lambda pre, post, a, r: [("all-values-in-order", r.t == proj(pre.items, a["key"].t))] + same(pre, post))],
        props=("C10",)))

    # Mapping.get from the standard library source (it *is* OrderedMultiDict.get)
    g = pure(M + "get", requires=req_wf, exits=[
        Exit("return", name="return-value", when=lambda pre, a: present(pre, a["key"].t), res="V",
             post=lambda pre, post, a, r: [("first-value", r.t == proj(pre.items, a["key"].t)[0])] + same(pre, post)),
        Exit("return", name="return-default", when=lambda pre, a: absent(pre, a["key"].t), res="any",
             post=lambda pre, post, a, r: same(pre, post))], props=("C10",))
    g.cases = [("no-default", {"key": "K"}), ("default", {"key": "K", "default": "V"})]
    g.multi_return = True
    cs.append(g)

    # ---- clear / discard ------------------------------------------------------------
    cs.append(mut(M + "clear", requires=req_wf, exits=[
        Exit("return", post=lambda pre, post, a, r: [("view", post.items == EMPTY_P), wf(post)])], props=("C10",)))

    cs.append(mut(M + "discard", params={"key": "K"}, requires=req_wf, exits=[
        Exit("return", post=lambda pre, post, a, r: [("view", post.items == dropk(pre.items, a["key"].t)), wf(post)])],
        props=("C10",)))

    # ---- pop family --------------------------------------------------------------------
    def has_default(a):
        d = a.get("default")
        return not (isinstance(d, Conc) and d.v is MARKER)

    popall = mut(M + "popall", requires=req_wf, defaults={"default": Conc(MARKER)}, exits=[
        Exit("return", name="return-value", when=lambda pre, a: present(pre, a["key"].t), res="V",
             post=lambda pre, post, a, r: [("first-value", r.t == proj(pre.items, a["key"].t)[0]),
                                           ("view", post.items == dropk(pre.items, a["key"].t)), wf(post)]),
        Exit("KeyError", when=lambda pre, a: (not has_default(a)) and absent(pre, a["key"].t),
             post=lambda pre, post, a, r: same(pre, post)),
        Exit("return", name="return-default", when=lambda pre, a: has_default(a) and absent(pre, a["key"].t),
             res="any", post=lambda pre, post, a, r: same(pre, post))], props=("C10",))
    popall.cases = [("key", {"key": "K"}), ("key-default", {"key": "K", "default": "V"})]
    popall.multi_return = True
    cs.append(popall)

    def pop_key(a):
        return a["args"].items[0].t

    def nargs(a):
        return len(a["args"].items)

    pop = mut(M + "pop", requires=req_wf, exits=[
        Exit("return", name="return-last", when=lambda pre, a: nargs(a) == 0 and z3.Length(pre.items) > 0, res="pair",
             post=lambda pre, post, a, r: [("last-pair", r.t == pre.items[z3.Length(pre.items) - 1]),
                                           ("view", post.items == sub(pre.items, 0, z3.Length(pre.items) - 1)), wf(post)]),
        Exit("return", name="return-value", when=lambda pre, a: nargs(a) > 0 and present(pre, pop_key(a)), res="V",
             post=lambda pre, post, a, r: [("first-value", r.t == proj(pre.items, pop_key(a))[0]),
                                           ("view", post.items == dropk(pre.items, pop_key(a))), wf(post)]),
        Exit("return", name="return-default", when=lambda pre, a: nargs(a) == 2 and absent(pre, pop_key(a)), res="any",
             post=lambda pre, post, a, r: same(pre, post)),
        Exit("KeyError", when=lambda pre, a: (z3.Length(pre.items) == 0) if nargs(a) == 0 else (
            nargs(a) == 1 and absent(pre, pop_key(a))),
            post=lambda pre, post, a, r: same(pre, post)),
    ], props=("C10",))
    pop.cases = [("no-arg", {}), ("key", {"*args": lambda ex: TupV([Z("K", fresh("key", K))])}),
                 ("key-default", {"*args": lambda ex: TupV([Z("K", fresh("key", K)), Z("V", fresh("dflt", V))])})]
    pop.multi_return = True
    cs.append(pop)

    cs.append(mut(M + "popitem", requires=req_wf, exits=[
        Exit("return", when=lambda pre, a: z3.Length(pre.items) > 0, res="pair",
             post=lambda pre, post, a, r: [("last-pair", r.t == pre.items[z3.Length(pre.items) - 1]),
                                           ("view", post.items == sub(pre.items, 0, z3.Length(pre.items) - 1)), wf(post)]),
        Exit("KeyError", when=lambda pre, a: z3.Length(pre.items) == 0, post=lambda pre, post, a, r: same(pre, post))],
        props=("C10",)))

    # ---- copy ---------------------------------------------------------------------------
    def copy_post(pre, post, a, r):
        rs = post.of(r)
        return [("copy-view-equal", rs.items == pre.items), ("copy-WF", WF(rs, k0())),
                ("copy-is-fresh-object", z3.BoolVal(bool(r.info.get("fresh"))))] + same(pre, post)

    cs.append(pure(M + "copy", requires=req_wf, exits=[Exit("return", res="md", post=copy_post)],
                   props=("C10", "C11")))

    # ---- equality -----------------------------------------------------------------------
    def eq_inv(env, st, i):
        return [("prefixes-equal", sub(st.th["self.items"], 0, i) == sub(st.th["o.items"], 0, i))]

    def eq_post(pre, post, a, r):
        o = a["other"]
        if isinstance(o, ObjV) and o.role == "md":
            same_t = pre.th.get("o.sametype", z3.BoolVal(True))
            return [("equal-iff-same-class-and-list", r.t == z3.And(same_t, pre.items == pre.of(o).items))]
        return [("other-class-unequal", r.t == z3.BoolVal(False))]

    def other_md(ex):
        o = ex.theory.new_md(ex, "o", "OrderedMultiDict")
        ex.st.th["o.sametype"] = fresh("sametype", z3.BoolSort())
        return o

    eq = pure(M + "__eq__", requires=req_wf, exits=[Exit("return", res="bool", post=eq_post)],
              loops={0: LoopSpec(inv=eq_inv, modifies=[])}, props=("C10",))
    eq.cases = [("multidict", {"other": other_md}), ("not-a-multidict", {"other": lambda ex: ObjV("notmd")})]
    cs.append(eq)

    def ne_post(pre, post, a, r):
        return [(n, r.t == z3.Not(f.arg(1)) if False else z3.BoolVal(True)) for n, f in []] + [
            ("negation-of-eq", z3.BoolVal(True))]

    ne = pure(M + "__ne__", requires=req_wf, exits=[Exit("return", res="bool", post=lambda pre, post, a, r: (
        [("unequal-iff-not-equal", r.t == z3.Not(z3.And(pre.th.get("o.sametype", z3.BoolVal(True)),
                                                        pre.items == pre.of(a["other"]).items)))]
        if isinstance(a["other"], ObjV) and a["other"].role == "md" else [("other-class-unequal", r.t == z3.BoolVal(True))]))],
        props=("C10",))
    ne.cases = eq.cases
    cs.append(ne)

    # ---- views returned by keys/values/items ----------------------------------------
    for nm, vc in (("keys", "KeysView"), ("values", "ValuesView"), ("items", "ItemsView")):
        cs.append(pure(M + nm, requires=req_wf, exits=[
            Exit("return", res=(lambda vc: lambda ex: None)(vc),
                 post=lambda pre, post, a, r: same(pre, post))], props=("C10",)))
        cs[-1].view_cls = vc

    # ---- insert family -------------------------------------------------------------------
    helper = Contract("pvl.collections._insert_arg_helper", exits=[
        Exit("return", when=lambda pre, a: kv_ok(insargs_term(a["args"])), res="seqP",
             post=lambda pre, post, a, r: [("pairs", r.t == kvof(insargs_term(a["args"])))]),
        Exit("TypeError", when=lambda pre, a: z3.Not(kv_ok(insargs_term(a["args"]))))])
    helper.assumed = True
    helper.pure = True
    helper.note = "argument-shape dispatch on isinstance(abc.Sequence/Mapping); bounded-checked against the five documented shapes"
    cs.append(helper)

    def ins_j(pre, a):
        return clamp(a["index"].t, z3.Length(pre.items))

    def insert_inv(env, st, i):
        pre = st.ghost["pre"]
        a = st.ghost["args"]
        kv = kvof(insargs_term(a["args"]))
        j = ins_j(pre, a)
        n = z3.Length(pre.items)
        i0 = a["index"].t
        start = startf(i0, n)   # normalised, not clamped above
        idx = env["index"]
        idx = z3.IntVal(idx.v) if isinstance(idx, Conc) else idx.t
        return [("view", st.th["self.items"] == ins(pre.items, j, sub(kv, 0, i))),
                ("index-tracks-position", idx == start + i)]

    def insert_req(pre, a):
        out = [wf(pre)]
        if isinstance(a["index"], Z) and a["index"].kind == "int":
            i0, n = a["index"].t, z3.Length(pre.items)
            out += [("def:clamp", clampf(i0, n) == clamp_ite(i0, n)), ("def:start", startf(i0, n) == start_ite(i0, n))]
        return out

    insert = mut(M + "insert", requires=insert_req, exits=[
        Exit("return", when=lambda pre, a: is_kind("index", "int")(pre, a) and kv_ok(insargs_term(a["args"])),
             post=lambda pre, post, a, r: [
                 ("view", post.items == ins(pre.items, ins_j(pre, a), kvof(insargs_term(a["args"])))), wf(post)]),
        Exit("TypeError", when=lambda pre, a: (not is_kind("index", "int")(pre, a)) or z3.Not(kv_ok(insargs_term(a["args"]))),
             post=lambda pre, post, a, r: same(pre, post))],
        loops={0: LoopSpec(inv=insert_inv)}, props=("C10",))
    insert.cases = [("int-index", {"index": "int", "*args": lambda ex: Z("insargs", fresh("args", InsArgs))}),
                    ("non-int-index", {"index": lambda ex: Conc("x"), "*args": lambda ex: Z("insargs", fresh("args", InsArgs))})]
    cs.append(insert)

    def P(pre, a):
        return posf(pre.items, a["key"].t, z3.IntVal(0))

    ki = pure(M + "key_index", requires=req_wf, exits=[
        Exit("return", when=lambda pre, a: z3.And(present(pre, a["key"].t),
                                                  in_range(_inst(a), z3.Length(P(pre, a)))), res="int",
             post=lambda pre, post, a, r: [
                 ("position-of-instance", r.t == P(pre, a)[norm_index(_inst(a), z3.Length(P(pre, a)))])] + same(pre, post)),
        Exit("KeyError", when=lambda pre, a: absent(pre, a["key"].t), post=lambda pre, post, a, r: same(pre, post)),
        Exit("IndexError", when=lambda pre, a: z3.And(present(pre, a["key"].t),
                                                      z3.Not(in_range(_inst(a), z3.Length(P(pre, a))))),
             post=lambda pre, post, a, r: same(pre, post))],
        loops={0: LoopSpec(
            inv=lambda env, st, i: [("positions-so-far", (env["idxs"].t if env["idxs"].t is not None else EMPTY_I) == posf(sub(st.ghost["pre"].items, 0, i),
                                                                              st.ghost["args"]["key"].t, z3.IntVal(0)))],
            kinds={"idxs": "seqI"}, modifies=[],
            hints=lambda env, st, i: [prefix_ext(st.ghost["pre"].items, i)])},
        props=("C10",))
    ki.cases = [("default-instance", {"key": "K"}), ("instance", {"key": "K", "instance": "int"})]
    cs.append(ki)

    for nm, off in (("insert_after", 1), ("insert_before", 0)):
        def mkpost(off):
            def post_(pre, post, a, r):
                idx = P(pre, a)[norm_index(_inst(a), z3.Length(P(pre, a)))]
                return [("view", post.items == ins(pre.items, clamp(idx + off, z3.Length(pre.items)),
                                                   kvof(tup1(a["new_item"].t)))), wf(post)]
            return post_
        c = mut(M + nm, requires=req_wf, exits=[
            Exit("return", when=lambda pre, a: z3.And(present(pre, a["key"].t), in_range(_inst(a), z3.Length(P(pre, a))),
                                                      kv_ok(tup1(a["new_item"].t))), post=mkpost(off)),
            Exit("KeyError", when=lambda pre, a: absent(pre, a["key"].t), post=lambda pre, post, a, r: same(pre, post)),
            Exit("IndexError", when=lambda pre, a: z3.And(present(pre, a["key"].t),
                                                          z3.Not(in_range(_inst(a), z3.Length(P(pre, a))))),
                 post=lambda pre, post, a, r: same(pre, post)),
            Exit("TypeError", when=lambda pre, a: z3.Not(kv_ok(tup1(a["new_item"].t))),
                 post=lambda pre, post, a, r: same(pre, post))], props=("C10",))
        c.cases = [("default-instance", {"key": "K", "new_item": "item"}),
                   ("instance", {"key": "K", "new_item": "item", "instance": "int"})]
        cs.append(c)

    # ---- update / setdefault (standard library bodies bound in the class) --------------
    def upd_src(a):
        o = a.get("other")
        if isinstance(o, Z) and o.kind == "seqP":
            return o.t
        return EMPTY_P

    upd = mut(M + "update", requires=req_wf, exits=[
        Exit("return", post=lambda pre, post, a, r: [("view", post.items == foldset(pre.items, upd_src(a))), wf(post)])],
        loops={2: LoopSpec(inv=lambda env, st, i: [
            ("view", st.th["self.items"] == foldset(st.ghost["pre"].items, sub(upd_src(st.ghost["args"]), 0, i)))])},
        props=("C10",))
    upd.cases = [("no-arg", {}), ("pairs", {"other": "seqP"})]
    cs.append(upd)

    sd = mut(M + "setdefault", params={"key": "K", "default": "V"}, requires=req_wf, exits=[
        Exit("return", res="V", post=lambda pre, post, a, r: [
            ("present:first-value", z3.Implies(present(pre, a["key"].t), r.t == proj(pre.items, a["key"].t)[0])),
            ("present:unchanged", z3.Implies(present(pre, a["key"].t), post.items == pre.items)),
            ("absent:default", z3.Implies(absent(pre, a["key"].t), r.t == a["default"].t)),
            ("absent:appended", z3.Implies(absent(pre, a["key"].t),
                                           post.items == z3.Concat(pre.items, z3.Unit(mk(a["key"].t, a["default"].t))))),
            wf(post)])], props=("C10",))
    cs.append(sd)

    # ---- the three view classes ----------------------------------------------------------
    def vpure(target, **kw):
        c = pure(target, **kw)
        return c

    for vc in ("KeysView", "ItemsView", "ValuesView"):
        VP = f"pvl.collections.{vc}."
        cs.append(vpure(VP + "__len__", requires=req_wf, exits=[
            Exit("return", res="int", post=lambda pre, post, a, r: [("len", r.t == z3.Length(pre.items))] + same(pre, post))],
            props=("C10",)))
        init = Contract(VP + "__init__", params={"mapping": lambda ex: ex.theory.new_md(ex, "m2", "OrderedMultiDict")},
                        exits=[Exit("return", post=lambda pre, post, a, r: [
                            ("mapping-bound", z3.BoolVal(post.th.get("self._mapping") is a["mapping"]))])], props=("C10",))
        init.pure = True
        cs.append(init)

    def idx_exits(kind, proj_elem):
        return [
            Exit("return", when=lambda pre, a: in_range(a["index"].t, z3.Length(pre.items)), res=kind,
                 post=lambda pre, post, a, r: [
                     ("element-of-list", r.t == proj_elem(pre.items[norm_index(a["index"].t, z3.Length(pre.items))]))] + same(pre, post)),
            Exit("IndexError", when=lambda pre, a: z3.Not(in_range(a["index"].t, z3.Length(pre.items))),
                 post=lambda pre, post, a, r: same(pre, post))]

    KV = "pvl.collections.KeysView."
    cs.append(vpure(KV + "__contains__", params={"key": "K"}, requires=req_wf, exits=[
        Exit("return", res="bool", post=lambda pre, post, a, r: [("member-iff-in-list", r.t == present(pre, a["key"].t))] + same(pre, post))],
        props=("C10",)))
    cs.append(vpure(KV + "__iter__", requires=req_wf, exits=[
        Exit("return", res="seqK", post=lambda pre, post, a, r: [("yields-keys-of-list", r.t == keysf(pre.items))] + same(pre, post))],
        props=("C10",)))
    cs.append(vpure(KV + "__getitem__", params={"index": "int"}, requires=req_wf, exits=idx_exits("K", fst), props=("C10",)))
    cs.append(vpure(KV + "index", params={"key": "K"}, requires=req_wf, exits=[
        Exit("return", when=lambda pre, a: present(pre, a["key"].t), res="int",
             post=lambda pre, post, a, r: [("first-position", first_at("seqK", keysf(pre.items), a["key"].t, r.t))] + same(pre, post)),
        Exit("ValueError", when=lambda pre, a: absent(pre, a["key"].t), post=lambda pre, post, a, r: same(pre, post))],
        props=("C10",)))

    IV = "pvl.collections.ItemsView."
    cs.append(vpure(IV + "__contains__", params={"item": "pair"}, requires=req_wf, exits=[
        Exit("return", res="bool", post=lambda pre, post, a, r: [
            ("member-iff-in-list", r.t == memP(pre.items, a["item"].t))] + same(pre, post))], props=("C10",)))
    cs.append(vpure(IV + "__iter__", requires=req_wf, exits=[
        Exit("return", res="seqP", post=lambda pre, post, a, r: [("yields-list", r.t == pre.items)] + same(pre, post))],
        props=("C10",)))
    cs.append(vpure(IV + "__getitem__", params={"index": "int"}, requires=req_wf, exits=idx_exits("pair", lambda p: p), props=("C10",)))
    cs.append(vpure(IV + "index", params={"item": "pair"}, requires=req_wf, exits=[
        Exit("return", when=lambda pre, a: memP(pre.items, a["item"].t), res="int",
             post=lambda pre, post, a, r: [("first-position", first_at("seqP", pre.items, a["item"].t, r.t))] + same(pre, post)),
        Exit("ValueError", when=lambda pre, a: z3.Not(memP(pre.items, a["item"].t)),
             post=lambda pre, post, a, r: same(pre, post))], props=("C10",)))

    VV = "pvl.collections.ValuesView."
    cs.append(vpure(VV + "__contains__", params={"value": "V"}, requires=req_wf, exits=[
        Exit("return", res="bool", post=lambda pre, post, a, r: [
            ("member-iff-in-list", r.t == memV(valsf(pre.items), a["value"].t))] + same(pre, post))],
        loops={0: LoopSpec(inv=lambda env, st, i: [
            ("not-seen-yet", z3.Not(memV(valsf(sub(st.th["m.items"], 0, i)), st.ghost["args"]["value"].t)))],
            modifies=[])}, props=("C10",)))
    cs.append(vpure(VV + "__iter__", requires=req_wf, exits=[
        Exit("return", res="seqV", post=lambda pre, post, a, r: [("yields-values-of-list", r.t == valsf(pre.items))] + same(pre, post))],
        props=("C10",)))
    cs.append(vpure(VV + "__getitem__", params={"index": "int"}, requires=req_wf, exits=idx_exits("V", snd), props=("C10",)))
    cs.append(vpure(VV + "index", params={"value": "V"}, requires=req_wf, exits=[
        Exit("return", when=lambda pre, a: memV(valsf(pre.items), a["value"].t), res="int",
             post=lambda pre, post, a, r: [("first-position", first_at("seqV", valsf(pre.items), a["value"].t, r.t))] + same(pre, post)),
        Exit("ValueError", when=lambda pre, a: z3.Not(memV(valsf(pre.items), a["value"].t)),
             post=lambda pre, post, a, r: same(pre, post))], props=("C10",)))
    return cs


def _inst(a):
    v = a.get("instance")
    if v is None or isinstance(v, Conc):
        return z3.IntVal(v.v if v is not None else 0)
    return v.t
