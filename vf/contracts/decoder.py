"""Contracts for pvl/decoder.py and pvl/token.py (C17 classification, C06 raises closure, C18).

Acceptance languages of int / real_cls / strptime / re are uninterpreted predicates of the text
(their languages are the regex back end's business).  Proved here: (a) the only exception a
decode_* method lets out is ValueError (QuantityError for decode_quantity); (b) decode_simple_value
is a classification with priority keyword > quoted > based > decimal > date/time > unquoted: it
returns the result of a decoder only after every earlier one has refused; (c) each Token
predicate returns True exactly when the corresponding decoder call returns; (d) a token accepted as
unquoted string / parameter name is refused by the numeric and date/time decoders."""
import z3

from ..pyvc.core import Contract, Exit, LoopSpec, Conc, Z, TupV, ObjV, fresh
from ..pyvc.dectheory import (int_ok, intval, real_ok, matches, has_sub, inner, g, date_ok, time_ok, dt_ok)
from ..pyvc.objtheory import S, I, B, casefold, strlen, prefixof, suffixof, lit

D = "pvl.decoder."
T = "pvl.token.Token."


def txt(v):
    if isinstance(v, ObjV) and "text" in v.info:
        return v.info["text"]
    return v.t


def log(name, outcome):
    def eff(ex):
        ex.st.th["__calls__"] = ex.st.th.get("__calls__", []) + [(name, outcome)]
    return eff


def quoted(v):
    return z3.And(z3.Or(z3.And(prefixof(v, g("quote1")), suffixof(v, g("quote1"))),
                        z3.And(prefixof(v, g("quote2")), suffixof(v, g("quote2")))), strlen(v) > 1)


def dec_spec():
    sp = {}
    V = {"value": "tok"}
    sp["decode_quoted_string"] = dict(params=V, exits=[
        Exit("return", when=lambda pre, a: quoted(txt(a["value"])), res="str", effect=log("decode_quoted_string", "returned"),
             post=lambda pre, post, a, r: [] if a.get("self") is not None and getattr(a["self"], "cls", "") != "PVLDecoder" else
             [("the string is the text between the quote characters, unchanged", r.t == inner(txt(a["value"])))]),
        Exit("ValueError", when=lambda pre, a: z3.Not(quoted(txt(a["value"]))), effect=log("decode_quoted_string", "raised"))])
    sp["decode_non_decimal"] = dict(params=V, exits=[
        Exit("return", res="int", effect=log("decode_non_decimal", "returned")),
        Exit("ValueError", effect=log("decode_non_decimal", "raised"))])
    sp["decode_decimal"] = dict(params=V, exits=[
        Exit("return", name="return-int", when=lambda pre, a: int_ok(txt(a["value"])), res="int",
             post=lambda pre, post, a, r: [("integers-stay-int", r.t == intval(txt(a["value"])))],
             effect=log("decode_decimal", "returned")),
        Exit("return", name="return-real", when=lambda pre, a: z3.And(z3.Not(int_ok(txt(a["value"]))), real_ok(txt(a["value"]))),
             res="real", post=lambda pre, post, a, r: [
                 ("real-built-from-the-token-text-unaltered", z3.BoolVal(r.info.get("text") is not None) if r.info.get("text") is None
                  else r.info["text"] == txt(a["value"]))],
             effect=log("decode_decimal", "returned")),
        Exit("ValueError", when=lambda pre, a: z3.And(z3.Not(int_ok(txt(a["value"]))), z3.Not(real_ok(txt(a["value"])))),
             effect=log("decode_decimal", "raised"))])
    sp["decode_datetime"] = dict(params=V, exits=[
        Exit("return", res="any", effect=log("decode_datetime", "returned")),
        Exit("ValueError", effect=log("decode_datetime", "raised"))])

    def leap(v):
        B_ = z3.BoolSort()
        return z3.Or(z3.And(z3.Not(z3.Const(str(g("leap_second_Ymd_re")) + "_is_none", B_)), matches(g("leap_second_Ymd_re"), v)),
                     z3.And(z3.Not(z3.Const(str(g("leap_second_Yj_re")) + "_is_none", B_)), matches(g("leap_second_Yj_re"), v)))
    sp["is_leap_seconds"] = dict(params=V, exits=[Exit("return", res="bool", post=lambda pre, post, a, r: [
        ("true exactly when one of the grammar's leap-second patterns (if the grammar has them) matches the whole text",
         r.t == leap(txt(a["value"])))])])

    # PVLDecoder.decode_datetime (the strptime cascade every decoder starts with): type and zone of the result (C14)
    NO_TZ = z3.Const("grammar_default_timezone_is_none", z3.BoolSort())
    ZS = lit("Z")

    def pvl_dt_post(pre, post, a, r):
        v = txt(a["value"])
        D, T_, DT = date_ok(v), time_ok(v), dt_ok(v)
        out = []
        if isinstance(r, ObjV) and r.role == "dtval":
            fam, kind, tz = r.info.get("family"), r.info.get("kind"), r.info.get("tz")
            if kind == "date":
                out.append(("a date only when a date format accepts the text; dates stay naive",
                            z3.And(D, z3.BoolVal(fam == "date_formats" and tz is None))))
            else:
                out.append(("a time only when no date format but a time format accepts; a date-time only when neither does",
                            z3.And(z3.Not(D), T_) if kind == "time" and fam == "time_formats" else
                            z3.And(z3.Not(D), z3.Not(T_), DT) if kind is None and fam == "datetime_formats" else z3.BoolVal(False)))
                out.append(("a trailing Z gives UTC", z3.BoolVal(tz == "utc") == suffixof(v, ZS)))
                out.append(("an unmarked time gets the grammar's default zone when it has one, else it stays naive",
                            z3.Implies(z3.Not(suffixof(v, ZS)), z3.If(NO_TZ, z3.BoolVal(tz is None), z3.BoolVal(tz == "default")))))
        else:
            out.append(("text is returned only for a seconds=60 time that no strptime format accepts, unchanged",
                        z3.And(z3.Not(D), z3.Not(T_), z3.Not(DT), leap(v),
                               (r.t == v) if isinstance(r, Z) else z3.BoolVal(False))))
        return out
    sp["decode_datetime:PVLDecoder"] = dict(params=V, exits=[
        Exit("return", res="any", post=pvl_dt_post, effect=log("decode_datetime", "returned")),
        Exit("ValueError", when=lambda pre, a: z3.And(z3.Not(date_ok(txt(a["value"]))), z3.Not(time_ok(txt(a["value"]))),
                                                      z3.Not(dt_ok(txt(a["value"]))), z3.Not(leap(txt(a["value"])))),
             effect=log("decode_datetime", "raised"))])
    sp["decode_unquoted_string"] = dict(params=V, exits=[
        Exit("return", res="str", effect=log("decode_unquoted_string", "returned"), post=lambda pre, post, a, r: [
            ("returns-its-argument", r.t == txt(a["value"])),
            ("only-after-decode_datetime-refused",
             z3.BoolVal(("decode_datetime", "raised") in post.get("__calls__", [("decode_datetime", "raised")])))]),
        Exit("ValueError", effect=log("decode_unquoted_string", "raised"))])
    sp["decode_quantity"] = dict(params={"value": "val", "unit": "str"}, exits=[
        Exit("return", res="any"), Exit("QuantityError")])
    sp["decode"] = dict(params=V, exits=[Exit("return", res="any"), Exit("ValueError")])
    sp["is_identifier"] = dict(params=V, pure=True, assumed=True, exits=[Exit("return", res="bool")])

    ORDER = ["decode_quoted_string", "decode_non_decimal", "decode_decimal", "decode_datetime", "decode_unquoted_string"]

    def cascade_ok(calls):
        """the call log is a prefix of ORDER, every call but the last refused, the last one returned"""
        names = [n for n, _ in calls]
        if names != ORDER[:len(names)]:
            return False
        return all(o == "raised" for _, o in calls[:-1])

    def dsv_return(pre, post, a, r):
        calls = post.get("__calls__", [])
        v = txt(a["value"])
        kw = z3.Or(casefold(v) == casefold(g("none_keyword")), casefold(v) == casefold(g("true_keyword")),
                   casefold(v) == casefold(g("false_keyword")))
        out = []
        if not calls:
            out.append(("keyword-class-decided-by-case-folded-comparison", kw))
        else:
            out.append(("not-a-keyword", z3.Not(kw)))
            out.append(("priority-order:earlier-classes-refused-before-this-one-answered",
                        z3.BoolVal(cascade_ok(calls) and calls[-1][1] == "returned")))
        return out

    def dsv_raise(pre, post, a, r):
        calls = post.get("__calls__", [])
        return [("not-a-value-only-after-every-class-refused",
                 z3.BoolVal([n for n, _ in calls] == ORDER and all(o == "raised" for _, o in calls)))]

    sp["decode_simple_value"] = dict(params=V, exits=[
        Exit("return", res="any", post=dsv_return, effect=log("decode_simple_value", "returned")),
        Exit("ValueError", post=dsv_raise, effect=log("decode_simple_value", "raised"))])
    return sp


DEC_METHODS = {
    "PVLDecoder": ["decode", "decode_simple_value", "decode_unquoted_string", "decode_quoted_string", "decode_decimal",
                   "decode_non_decimal", "decode_datetime", "is_leap_seconds", "decode_quantity"],
    "ODLDecoder": ["decode_datetime", "decode_non_decimal", "decode_quoted_string", "decode_unquoted_string", "is_identifier"],
    "PDSLabelDecoder": ["decode_datetime"],
    "OmniDecoder": ["decode_non_decimal", "decode_unquoted_string"],
}


def tok_spec():
    sp = {}

    def pred(callee):
        def post(pre, post, a, r):
            calls = post.get("__calls__", [])
            mine = [o for n, o in calls if n == callee]
            ok = len(mine) == 1
            return [("true-exactly-when-the-decoder-accepts",
                     z3.BoolVal(ok and isinstance(r, Z)) if not ok else
                     (r.t == z3.BoolVal(mine[0] == "returned")))]
        return dict(params={}, exits=[Exit("return", res="bool", post=post)])
    sp["is_quoted_string"] = pred("decode_quoted_string")
    sp["is_decimal"] = pred("decode_decimal")
    sp["is_non_decimal"] = pred("decode_non_decimal")
    sp["is_datetime"] = pred("decode_datetime")
    sp["is_simple_value"] = pred("decode_simple_value")
    return sp


def contracts():
    out = []
    for cls, ms in DEC_METHODS.items():
        sp = dec_spec()
        for m in ms:
            d = dict(sp.get(f"{m}:{cls}", sp[m]))
            assumed = d.pop("assumed", False)
            pure = d.pop("pure", False)
            c = Contract(D + f"{cls}.{m}", props=("C17", "C06", "C18"), **d)
            c.assumed, c.pure = assumed, pure
            if assumed:
                c.note = "character loop over the text (isalpha/isdigit): bounded-checked by the C17 driver"
            if m in ("decode_simple_value", "decode_unquoted_string"):
                c.ghost_calls = True
            out.append(c)
    sp = tok_spec()
    for m, d in sp.items():
        c = Contract(T + m, props=("C17",), **d)
        c.ghost_calls = True
        out.append(c)
    return out
