"""Shared machinery of the bounded round-trip drivers C01 / C02 / C07 (never counted as proved).

* abstract, JSON-able module descriptions + builder (fresh containers for every dump: the PDS3
  encoder may convert a GROUP of its argument in place);
* boundary value pool, key pool, encoder option grids (full product / pairwise cover);
* ``equiv``: the spec relation "equal up to the five normalisations named in C01";
* one-case runner (strict loader / default loader / load-dump-load-dump), shrinker, classifier
  (narrow violation keys), fork-pool workers, text generator and token mutator for C07.
"""
import datetime as dt
import hashlib
import itertools
import json
import multiprocessing as mp
import os
import random
import re
import signal
import threading
import time as _time
import warnings
from collections import namedtuple

# =====================================================================================
# 1. abstract descriptions
# =====================================================================================
# value description (lists after a JSON round trip):
#   ["none"] ["bool", b] ["int", n] ["float", repr] ["str", s] ["emptyvalue", lineno]
#   ["date", y, m, d] ["time", h, mi, s, us, tz] ["datetime", y, m, d, h, mi, s, us, tz]   tz: None | offset minutes
#   ["qty", vd, units] ["seq", [vd..]] ["set", [vd..]] ["fset", [vd..]]
#   ["group", [[key, vd]..]] ["object", [[key, vd]..]]
# module description: [[key, vd], ...]

SCALAR_KINDS = ("none", "bool", "int", "float", "str", "emptyvalue", "date", "time", "datetime")


def _tz(t):
    if t is None:
        return None
    if t == 0:
        return dt.timezone.utc
    return dt.timezone(dt.timedelta(minutes=t))


def build_value(vd):
    import pvl
    from pvl.parser import EmptyValueAtLine
    k = vd[0]
    if k == "none":
        return None
    if k == "bool":
        return bool(vd[1])
    if k == "int":
        return int(vd[1])
    if k == "float":
        return float(vd[1])
    if k == "str":
        return str(vd[1])
    if k == "emptyvalue":
        return EmptyValueAtLine(int(vd[1]))
    if k == "date":
        return dt.date(vd[1], vd[2], vd[3])
    if k == "time":
        return dt.time(vd[1], vd[2], vd[3], vd[4], tzinfo=_tz(vd[5]))
    if k == "datetime":
        return dt.datetime(vd[1], vd[2], vd[3], vd[4], vd[5], vd[6], vd[7], tzinfo=_tz(vd[8]))
    if k == "qty":
        return pvl.Quantity(build_value(vd[1]), vd[2])
    if k == "seq":
        return [build_value(x) for x in vd[1]]
    if k == "set":
        return set(build_value(x) for x in vd[1])
    if k == "fset":
        return frozenset(build_value(x) for x in vd[1])
    if k == "group":
        return pvl.PVLGroup([(kk, build_value(v)) for kk, v in vd[1]])
    if k == "object":
        return pvl.PVLObject([(kk, build_value(v)) for kk, v in vd[1]])
    raise AssertionError(f"unknown value description {vd!r}")


def build_module(desc):
    import pvl
    return pvl.PVLModule([(k, build_value(v)) for k, v in desc])


def _tzmin(x):
    off = x.utcoffset()
    if off is None:
        return None
    return int(off.total_seconds() // 60)


def describe_value(x):
    import pvl
    from pvl.parser import EmptyValueAtLine
    if x is None:
        return ["none"]
    if type(x) is bool:
        return ["bool", x]
    if type(x) is int:
        return ["int", x]
    if type(x) is float:
        return ["float", repr(x)]
    if isinstance(x, EmptyValueAtLine):
        return ["emptyvalue", x.lineno]
    if isinstance(x, str):
        return ["str", str(x)]
    if isinstance(x, dt.datetime):
        return ["datetime", x.year, x.month, x.day, x.hour, x.minute, x.second, x.microsecond, _tzmin(x)]
    if isinstance(x, dt.date):
        return ["date", x.year, x.month, x.day]
    if isinstance(x, dt.time):
        return ["time", x.hour, x.minute, x.second, x.microsecond, _tzmin(x)]
    if isinstance(x, pvl.Quantity):
        return ["qty", describe_value(x.value), str(x.units)]
    if type(x) is list:
        return ["seq", [describe_value(e) for e in x]]
    if type(x) is set:
        return ["set", sorted((describe_value(e) for e in x), key=repr)]
    if type(x) is frozenset:
        return ["fset", sorted((describe_value(e) for e in x), key=repr)]
    if isinstance(x, pvl.PVLGroup):
        return ["group", [[k, describe_value(v)] for k, v in x]]
    if isinstance(x, pvl.PVLObject):
        return ["object", [[k, describe_value(v)] for k, v in x]]
    raise AssertionError(f"value outside the description language: {type(x).__name__} {x!r}")


def describe_module(m):
    return [[k, describe_value(v)] for k, v in m]


def py_src(vd):
    """Python source text of a value description (for reproducers)."""
    k = vd[0]
    if k == "none":
        return "None"
    if k == "bool":
        return repr(bool(vd[1]))
    if k == "int":
        return repr(int(vd[1]))
    if k == "float":
        return repr(float(vd[1]))
    if k == "str":
        return repr(vd[1])
    if k == "emptyvalue":
        return f"EmptyValueAtLine({vd[1]})"
    tzs = lambda t: "" if t is None else (", tzinfo=timezone.utc" if t == 0 else f", tzinfo=timezone(timedelta(minutes={t}))")
    if k == "date":
        return f"date({vd[1]}, {vd[2]}, {vd[3]})"
    if k == "time":
        return f"time({vd[1]}, {vd[2]}, {vd[3]}, {vd[4]}{tzs(vd[5])})"
    if k == "datetime":
        return f"datetime({vd[1]}, {vd[2]}, {vd[3]}, {vd[4]}, {vd[5]}, {vd[6]}, {vd[7]}{tzs(vd[8])})"
    if k == "qty":
        return f"Quantity({py_src(vd[1])}, {vd[2]!r})"
    if k == "seq":
        return "[" + ", ".join(py_src(x) for x in vd[1]) + "]"
    if k == "set":
        return "set([" + ", ".join(py_src(x) for x in vd[1]) + "])"
    if k == "fset":
        return "frozenset([" + ", ".join(py_src(x) for x in vd[1]) + "])"
    if k in ("group", "object"):
        cls = "PVLGroup" if k == "group" else "PVLObject"
        return f"{cls}([" + ", ".join(f"({kk!r}, {py_src(v)})" for kk, v in vd[1]) + "])"
    return repr(vd)


def py_module_src(desc):
    return "PVLModule([" + ", ".join(f"({k!r}, {py_src(v)})" for k, v in desc) + "])"


def jkey(x):
    return json.dumps(x, sort_keys=True, ensure_ascii=True, separators=(",", ":"))


def case_hash(*parts):
    return int.from_bytes(hashlib.blake2b(jkey(parts).encode(), digest_size=8).digest(), "big")


# =====================================================================================
# 2. pools
# =====================================================================================
KEY30 = "abcdefghij_abcdefghij_abcdefghi"[:30]
KEY31 = KEY30 + "j"
KEYS = ["a", "b_c", "LongerKeyName", KEY30, KEY31, "^PTR", "ns:key", "mixedCase"]
assert len(KEY30) == 30 and len(KEY31) == 31

WORD100 = ("abcdefghij" * 10)
SENTENCE200 = ("the quick brown fox jumps over the lazy dog " * 5)[:200].rstrip() + "."
SENTENCE200 = (SENTENCE200 + " pad" * 10)[:200]


def S(s):
    return ["str", s]


STRINGS = [
    "abc", "a b", "", "null", "NULL", "True", "end", "End_Group", "OBJECT", "inf", "nan", "1e5",
    "2001-01-01", "12:00", "it's", 'say "hi"', "both ' and \"", "tab\there", "line1\nline2",
    "trailing space ", "dash-\n  continued", "#notcomment", "a#b", "/*c*/", "x;y", "<u>",
    WORD100, SENTENCE200, "café", "5 €",
    # additions: unquoted spellings that interact with the default loader's dash-continuation
    "-", "abc-", "a  b",
    # a dash that is NOT a continuation: blanks between the dash and the line end
    "range: 5 - \n10",
    # look like a time/date-time WITH a zone offset: the PVL decoder knows no offsets, the default loader does
    "12:00+01", "12:00-07", "2001-001T12:00-05:30", "2001-01-01T10:00-03",
    # a comment END delimiter without the begin delimiter; block keywords only some grammars know
    "calib*/", "Begin_Object", "BEGIN_GROUP",
    # Unicode white space that is NOT white space for the grammars, at the edges of an unquoted value
    # (longer than the narrow width option, and than the default width: the statement has to be wrapped)
    "\xa0lead", "trail\xa0", "\xa0" + "wrapped" * 4, "wrapped" * 4 + "\xa0", "\xa0" + "w" * 90,
]

# long sentence of hyphenated compounds (no white space after any hyphen); padded variants put some compound
# across the wrap column whatever the width / key length / nesting
HYPHEN_SENTENCE = ("high-resolution multi-spectral near-infrared wide-angle push-broom line-scan cross-track "
                   "along-track short-wave long-wave narrow-band")


def hyphen_strings():
    return [("p" * n + " " if n else "") + HYPHEN_SENTENCE for n in range(0, 31)]


STRINGS += [hyphen_strings()[0], hyphen_strings()[11]]


# zone offsets whose minutes part is not zero, both signs (-03:30, -00:30, -09:30, -05:45, +05:45, +09:30)
OFFSETS_WITH_MINUTES = (-210, -30, -570, -345, 345, 570)


def _times():
    out = []
    for tz in (None, 0, 330, -420):
        for us in (0, 5000, 123456):
            out.append(["time", 12, 30, 0, us, tz])
    out.append(["time", 1, 2, 3, 0, 0])
    out.append(["time", 1, 2, 3, 0, None])
    for tz in OFFSETS_WITH_MINUTES:
        out.append(["time", 12, 0, 0, 0, tz])
    return out


def _datetimes():
    out = []
    for tz in (None, 0, 330, -420):
        for us in (0, 5000, 123456):
            out.append(["datetime", 2001, 1, 1, 12, 30, 0, us, tz])
    out.append(["datetime", 999, 12, 31, 1, 2, 3, 0, 0])
    for tz in OFFSETS_WITH_MINUTES:
        out.append(["datetime", 2001, 1, 1, 10, 0, 0, 0, tz])
    return out


SEQ30 = ["seq", [S(f"quoted string {i:02d}") for i in range(30)]]

VALUE_POOL = (
    [["none"], ["bool", True], ["bool", False], ["int", 0], ["int", -1], ["int", 10 ** 20]]
    + [["float", repr(x)] for x in (0.0, -1.5, 1e-7, 1e22, 123456.789)]
    + [S(s) for s in STRINGS]
    + [["date", 1, 1, 1], ["date", 999, 12, 31], ["date", 2000, 2, 29], ["date", 9999, 12, 31]]
    + _times() + _datetimes()
    + [["qty", ["int", 1], "m"], ["qty", ["float", "1.5"], "m/s**2"], ["qty", S("x"), "m"],
       ["qty", ["seq", [["int", 1], ["int", 2]]], "m"]]
    + [["seq", []], ["seq", [["int", 1]]], ["seq", [["int", 1], S("a b"), ["float", "2.5"]]],
       ["seq", [["seq", [["int", 1], ["int", 2]]], ["seq", [["int", 3]]]]],
       ["seq", [["seq", [["seq", [["int", 1]]]]]]], SEQ30]
    + [["set", []], ["set", [["int", 1], ["int", 2]]], ["set", [S("a"), S("b c")]],
       ["fset", [["int", 1], ["int", 2]]], ["fset", [S("a"), S("b c")]]]
)

SCALAR_POOL = [v for v in VALUE_POOL if v[0] in SCALAR_KINDS]

AGG_POOL = [
    ["group", [["x", ["int", 1]]]],
    ["object", [["x", ["int", 1]]]],
    ["group", []],
    ["object", []],
    ["group", [["x", ["int", 1]], ["x", ["int", 2]]]],
    ["object", [["g", ["group", [["x", ["int", 1]]]]]]],
    ["group", [["o", ["object", [["x", ["int", 1]]]]]]],
    ["group", [["h", ["group", [["x", S("a b")]]]]]],
    ["group", [["^PTR", ["int", 5]]]],
    ["group", [["^PTR", S("FILE.DAT")]]],
]

# item pool of the exhaustive small-module universe: (key, value description)
ITEM_POOL = [
    ["a", ["none"]], ["a", ["bool", True]], ["a", ["int", 1]], ["a", ["float", "-1.5"]],
    ["a", S("abc")], ["a", S("a b")], ["a", S("")], ["a", S("it's")], ["a", S("line1\nline2")],
    ["a", ["date", 2000, 2, 29]], ["a", ["time", 12, 30, 0, 0, 0]], ["a", ["time", 12, 30, 0, 0, None]],
    ["a", ["datetime", 2001, 1, 1, 12, 30, 0, 5000, 0]], ["a", ["qty", ["int", 1], "m"]],
    ["a", ["seq", [["int", 1], S("a b"), ["float", "2.5"]]]], ["a", ["set", [["int", 1], ["int", 2]]]],
    ["b_c", ["int", 1]], ["^PTR", ["int", 5]],
    ["g", ["group", [["x", ["int", 1]]]]], ["g", ["group", [["x", ["int", 1]], ["x", ["int", 2]]]]],
    ["g", ["group", []]], ["o", ["object", [["x", ["int", 1]]]]],
    ["o", ["object", [["g", ["group", [["x", ["int", 1]]]]]]]], ["g", ["group", [["o", ["object", [["x", ["int", 1]]]]]]]],
    ["g", ["group", [["^PTR", ["int", 5]]]]],
]

# =====================================================================================
# 3. dialects and option grids
# =====================================================================================
DIALECTS = ("PVL", "ODL", "PDS3", "ISIS")

_COMMON = {"indent": [2, 0, 4], "width": [80, 20, 40, 120], "aggregation_end": [True, False]}
GRID = {
    "PVL": dict(_COMMON, end_delimiter=[True, False], newline=["\n", "\r\n"]),
    "ODL": dict(_COMMON, end_delimiter=[False, True], newline=["\r\n", "\n"]),
    "ISIS": dict(_COMMON, end_delimiter=[False, True], newline=["\n", "\r\n"]),
    "PDS3": dict(_COMMON, convert_group_to_object=[True, False], tab_replace=[4, 0],
                 symbol_single_quote=[True, False], time_trailing_z=[True, False]),
}
DEFAULTS = {d: {k: v[0] for k, v in g.items()} for d, g in GRID.items()}   # first entry = encoder default


def full_grid(dialect):
    g = GRID[dialect]
    names = sorted(g)
    return [dict(zip(names, vals)) for vals in itertools.product(*(g[n] for n in names))]


def pairwise_grid(dialect):
    """Deterministic greedy pairwise cover of the option grid; the default configuration comes first."""
    g = GRID[dialect]
    names = sorted(g)
    rows = full_grid(dialect)
    unc = set()
    for i, j in itertools.combinations(range(len(names)), 2):
        for a in g[names[i]]:
            for b in g[names[j]]:
                unc.add((i, repr(a), j, repr(b)))

    def pairs(row):
        return {(i, repr(row[names[i]]), j, repr(row[names[j]])) for i, j in itertools.combinations(range(len(names)), 2)}
    out = [dict(DEFAULTS[dialect])]
    unc -= pairs(out[0])
    while unc:
        best, bestn = None, -1
        for r in rows:
            n = len(pairs(r) & unc)
            if n > bestn:
                best, bestn = r, n
        out.append(best)
        unc -= pairs(best)
    return out


def make_encoder(dialect, opts=None):
    from pvl.encoder import PVLEncoder, ODLEncoder, PDSLabelEncoder, ISISEncoder
    cls = {"PVL": PVLEncoder, "ODL": ODLEncoder, "PDS3": PDSLabelEncoder, "ISIS": ISISEncoder}[dialect]
    with warnings.catch_warnings():
        warnings.simplefilter("ignore")
        return cls(**(opts or {}))


def strict_parser(dialect):
    from pvl.parser import PVLParser, ODLParser, OmniParser
    from pvl.grammar import PVLGrammar, ODLGrammar, PDSGrammar, ISISGrammar
    from pvl.decoder import PVLDecoder, ODLDecoder, PDSLabelDecoder, OmniDecoder
    if dialect == "PVL":
        g = PVLGrammar()
        return PVLParser(grammar=g, decoder=PVLDecoder(g))
    if dialect == "ODL":
        g = ODLGrammar()
        return ODLParser(grammar=g, decoder=ODLDecoder(g))
    if dialect == "PDS3":
        g = PDSGrammar()
        return ODLParser(grammar=g, decoder=PDSLabelDecoder(g))
    if dialect == "ISIS":
        return OmniParser(grammar=ISISGrammar(), decoder=OmniDecoder(grammar=ISISGrammar()))
    raise AssertionError(dialect)


# =====================================================================================
# 4. the spec relation: equal up to the five normalisations of C01
# =====================================================================================
Difference = namedtuple("Difference", "path kind detail o l", defaults=(None, None))
Difference.__str__ = lambda self: f"at {self.path or '/'}: {self.detail}"

UPPERCASING_ENCODERS = ("ODL", "PDS3")                 # (1) parameter names are written upper-cased
FOLDING_LOADERS = ("ODL", "PDS3", "ISIS", "OMNI")      # (2) decoders of the ODL family fold white space in quoted text
DEFAULT_ZONE_LOADERS = ("PVL", "PDS3", "ISIS", "OMNI")  # (3) grammars with a default zone (UTC); ODL has none
_WS = " \t\n\r\v\f"


def fold(s):
    """ODL text-string reading: a hyphen directly before a line end joins the lines (hyphen, line end and the
    leading white space of the next line vanish); leading/trailing white space is dropped; every run of white
    space (spacing characters and format effectors) reads as one space."""
    s = re.sub("-[\n\r\v\f][ \t\n\r\v\f]*", "", s)
    s = s.strip(_WS)
    return re.sub("[ \t\n\r\v\f]+", " ", s)


def is_pds_group(items):
    """PDS3 restrictions on a GROUP (Standards Reference 12.4.5.2 as quoted in the encoder documentation): only
    assignments (no nested GROUP/OBJECT), no data location pointer (^NAME = integer [units]), no repeated name."""
    import pvl
    names = []
    for k, v in items:
        if isinstance(v, (pvl.PVLGroup, pvl.PVLObject)):
            return False
        if k.startswith("^"):
            # "integer" as the encoder documents and tests it: isinstance(v, int), so Python's True/False count too
            if isinstance(v, int) or (isinstance(v, pvl.Quantity) and isinstance(v.value, int)):
                return False
        names.append(k.upper())      # PDS3 writes names in upper case: 'a' and 'A' are the same keyword in the label
    return len(names) == len(set(names))


def equiv(original, loaded, dialect, loader=None, opts=None):
    """None when *loaded* equals *original* up to exactly the normalisations C01 names for text written by the
    *dialect* encoder (with options *opts*) and read by *loader* ('PVL'/'ODL'/'PDS3'/'ISIS' strict pair, or 'OMNI'
    = pvl.loads default); otherwise a Difference(path, kind, detail) for the first difference.

      1. ODL/PDS3 encoders may upper-case names;   2. ODL-family decoders fold white space in strings;
      3. a naive time/datetime may come back as UTC where the loader's grammar has a default zone;
      4. PDS3 with convert_group_to_object: a GROUP that is not a valid PDS GROUP - or any top-level GROUP of a
         label without a top-level OBJECT - may come back as an OBJECT;   5. set and frozenset are interchangeable.
    Everything else must agree exactly: container class, order, multiplicity, Python type and value."""
    import pvl
    loader = loader or dialect
    convert = dialect == "PDS3" and (opts or {}).get("convert_group_to_object", True)
    upper = dialect in UPPERCASING_ENCODERS
    folding = loader in FOLDING_LOADERS
    zone = loader in DEFAULT_ZONE_LOADERS

    def tn(x):
        return type(x).__name__

    def names(o, l):
        return l == o or (upper and l == o.upper())

    def tzcheck(o, l, path):
        oo, lo = o.utcoffset(), l.utcoffset()
        if oo == lo:
            return None
        if oo is None and zone and lo == dt.timedelta(0):
            return None
        return Difference(path, "tz", f"zone offset {oo} came back as {lo} ({o!r} -> {l!r})")

    def mapping(o, l, path, top):
        if len(o) != len(l):
            return Difference(path, "length", f"{len(o)} items came back as {len(l)} "
                                                f"(names {[k for k, _ in o]} -> {[k for k, _ in l]})")
        no_top_object = top and not any(isinstance(v, pvl.PVLObject) for _, v in o)
        for i, ((ok, ov), (lk, lv)) in enumerate(zip(o, l)):
            p = f"{path}/{ok}[{i}]"
            if not (type(lk) is str and names(ok, lk)):
                return Difference(p, "key", f"name {ok!r} came back as {lk!r}")
            d = value(ov, lv, p, no_top_object)
            if d:
                return d
        return None

    def value(o, l, path, may_convert_any_group=False):
        if isinstance(o, pvl.PVLObject):
            if type(l) is not pvl.PVLObject:
                return Difference(path, f"class-PVLObject-{tn(l)}", f"PVLObject came back as {tn(l)}")
            return mapping(o, l, path, False)
        if isinstance(o, pvl.PVLGroup):
            if type(l) is pvl.PVLGroup:
                return mapping(o, l, path, False)
            if type(l) is pvl.PVLObject and convert and (may_convert_any_group or not is_pds_group(list(o))):
                return mapping(o, l, path, False)
            return Difference(path, f"class-PVLGroup-{tn(l)}", f"PVLGroup came back as {tn(l)}")
        if o is None:
            return None if l is None else Difference(path, f"type-NoneType-{tn(l)}", f"None came back as {l!r}")
        if type(o) is bool or type(o) is int:
            if type(l) is not type(o):
                return Difference(path, f"type-{tn(o)}-{tn(l)}", f"{o!r} came back as {tn(l)} {l!r}")
            return None if l == o else Difference(path, "value", f"{o!r} came back as {l!r}")
        if type(o) is float:
            if type(l) is not float:
                return Difference(path, f"type-float-{tn(l)}", f"{o!r} came back as {tn(l)} {l!r}")
            if l == o or (o != o and l != l):
                return None
            return Difference(path, "value", f"{o!r} came back as {l!r}")
        if isinstance(o, str):            # EmptyValueAtLine is documented as an empty string
            if not isinstance(l, str):
                return Difference(path, f"type-str-{tn(l)}", f"{str(o)!r} came back as {tn(l)} {l!r}")
            so, sl = str(o), str(l)
            if sl == so or (folding and sl == fold(so)):
                return None
            return Difference(path, "value", f"{so!r} came back as {sl!r}"
                              + (f" (folded form would be {fold(so)!r})" if folding else ""), so, sl)
        if isinstance(o, dt.datetime):
            if type(l) is not dt.datetime:
                return Difference(path, f"type-datetime-{tn(l)}", f"{o!r} came back as {tn(l)} {l!r}")
            if o.replace(tzinfo=None) != l.replace(tzinfo=None):
                return Difference(path, "value", f"{o!r} came back as {l!r}")
            return tzcheck(o, l, path)
        if isinstance(o, dt.date):
            if type(l) is not dt.date:
                return Difference(path, f"type-date-{tn(l)}", f"{o!r} came back as {tn(l)} {l!r}")
            return None if o == l else Difference(path, "value", f"{o!r} came back as {l!r}")
        if isinstance(o, dt.time):
            if type(l) is not dt.time:
                return Difference(path, f"type-time-{tn(l)}", f"{o!r} came back as {tn(l)} {l!r}")
            if o.replace(tzinfo=None) != l.replace(tzinfo=None):
                return Difference(path, "value", f"{o!r} came back as {l!r}")
            return tzcheck(o, l, path)
        if isinstance(o, pvl.Quantity):
            if type(l) is not pvl.Quantity:
                return Difference(path, f"type-Quantity-{tn(l)}", f"{o!r} came back as {tn(l)} {l!r}")
            if not (type(l.units) is str and l.units == str(o.units)):
                return Difference(path + "/units", "units", f"units {o.units!r} came back as {l.units!r}",
                                  str(o.units), str(l.units))
            return value(o.value, l.value, path + "/value")
        if type(o) is list:
            if type(l) is not list:
                return Difference(path, f"type-list-{tn(l)}", f"{o!r} came back as {tn(l)} {l!r}")
            if len(o) != len(l):
                return Difference(path, "length", f"sequence of {len(o)} came back with {len(l)} elements: {l!r}")
            for i, (a, b) in enumerate(zip(o, l)):
                d = value(a, b, f"{path}({i})")
                if d:
                    return d
            return None
        if type(o) in (set, frozenset):
            if type(l) not in (set, frozenset):
                return Difference(path, f"type-set-{tn(l)}", f"{o!r} came back as {tn(l)} {l!r}")
            oe = sorted(o, key=repr)
            le = sorted(l, key=repr)
            if len(oe) > len(le):
                # elements that an allowed normalisation makes equal collapse into one element of the loaded set:
                # folded strings (ODL-family readers), a naive time and the same time in UTC (readers with a default zone)
                def canon_elem(a):
                    if isinstance(a, str) and folding:
                        return fold(a)
                    if zone and isinstance(a, (dt.time, dt.datetime)) and a.utcoffset() is None:
                        return a.replace(tzinfo=dt.timezone.utc)
                    return a
                seen, ded = set(), []
                for a in oe:
                    f = canon_elem(a)
                    if (type(f).__name__, f) not in seen:
                        seen.add((type(f).__name__, f))
                        ded.append(a)
                oe = ded
            if len(oe) != len(le):
                return Difference(path, "length", f"set of {len(o)} came back with {len(l)} elements: {l!r}")

            def match(i, free):
                if i == len(oe):
                    return True
                for j in free:
                    if value(oe[i], le[j], path) is None and match(i + 1, [x for x in free if x != j]):
                        return True
                return False
            if len(oe) <= 7 and match(0, list(range(len(le)))):
                return None
            free = list(range(len(le)))
            left = []
            for a in oe:
                hit = next((j for j in free if value(a, le[j], path) is None), None)
                if hit is None:
                    left.append(a)
                else:
                    free.remove(hit)
            if not left:
                return None
            if len(left) == len(free):       # report the first unmatched pair (sorted by repr on both sides)
                for a, j in zip(left, free):
                    d = value(a, le[j], path + "{}")
                    if d:
                        return d
            return Difference(path, "value", f"set {sorted(map(repr, o))} came back as {sorted(map(repr, l))}")
        raise AssertionError(f"equiv: original value outside the generator's language: {o!r}")

    if type(loaded) is not pvl.PVLModule:
        return Difference("", f"class-PVLModule-{tn(loaded)}", f"the loader returned {tn(loaded)}")
    return mapping(original, loaded, "", True)


# =====================================================================================
# 5. running one case
# =====================================================================================
class _Timeout(BaseException):
    pass


def _on_alarm(signum, frame):
    raise _Timeout()


class time_limit:
    def __init__(self, seconds):
        self.seconds = seconds
        self.active = threading.current_thread() is threading.main_thread()

    def __enter__(self):
        if self.active:
            self.old = signal.signal(signal.SIGALRM, _on_alarm)
            signal.setitimer(signal.ITIMER_REAL, self.seconds)

    def __exit__(self, *a):
        if self.active:
            signal.setitimer(signal.ITIMER_REAL, 0)
            signal.signal(signal.SIGALRM, self.old)
        return False


CASE_TIMEOUT = 20.0
MODES = {"strict": "C01", "omni": "C02", "stable": "C07"}


def _split_top(s, sep=","):
    out, depth, q, cur = [], 0, None, []
    for c in s:
        if q:
            cur.append(c)
            if c == q:
                q = None
            continue
        if c in "\"'":
            q = c
        elif c in "({":
            depth += 1
        elif c in ")}":
            depth -= 1
        if c == sep and depth == 0:
            out.append("".join(cur))
            cur = []
        else:
            cur.append(c)
    out.append("".join(cur))
    return out


def norm_sets(text):
    """Canonical form for the byte comparison of two dumps 'up to the order of set elements': only used when the
    text has a '{' outside quotes; then white space outside quotes is collapsed (a different element order moves the
    line breaks) and the elements of every set literal are sorted."""
    out, q, i, n = [], None, 0, len(text)
    stack = []
    for c in text:
        if q:
            out.append(c)
            if c == q:
                q = None
            continue
        if c in "\"'":
            q = c
            out.append(c)
        elif c in _WS:
            if out and out[-1] != " ":
                out.append(" ")
        elif c == "{":
            stack.append(len(out))
            out.append(c)
        elif c == "}" and stack:
            st = stack.pop()
            inner = "".join(out[st + 1:])
            elems = sorted(e.strip() for e in _split_top(inner))
            del out[st + 1:]
            out.extend(", ".join(elems))
            out.append(c)
        else:
            out.append(c)
    return "".join(out)


def has_brace_outside_quotes(text):
    q = None
    for c in text:
        if q:
            if c == q:
                q = None
        elif c in "\"'":
            q = c
        elif c == "{":
            return True
    return False


def same_text_up_to_set_order(t1, t2):
    if t1 == t2:
        return True
    if has_brace_outside_quotes(t1) and has_brace_outside_quotes(t2):
        return norm_sets(t1) == norm_sets(t2)
    return False


def _bad(stage, slug, what, text=None, exc=None, symptom=None):
    return {"stage": stage, "slug": slug, "what": what, "text": text, "exc": exc, "symptom": symptom}


def wrap_symptom(d, folding):
    """Recognise, from the two differing strings alone, the damage done by a line break that the encoder's line
    wrapping put inside a lexeme.  Decided from the ORIGINAL string at the break position:
      line-wrap-inside-<quotes|units>            white space of the original replaced by line end + indentation
      line-wrap-after-dash-inside-<..>           the break fell on white space that directly FOLLOWS a '-' in the
                                                 original ('xxxxx- xxxxxx'); a folding loader then reads '-' + line end
                                                 as a continuation mark
      line-wrap-inside-hyphenated-word[-units]   the break fell directly after a '-' that is followed by a non-blank
                                                 character in the original ('high-resolution' split after 'high-')"""
    if d is None or not isinstance(d.o, str) or not isinstance(d.l, str):
        return None
    where = "units" if d.kind == "units" else "quotes"
    o, l = d.o, d.l
    norm = lambda x: re.sub(r"\s+", " ", x)
    if o != l and norm(o) == norm(l):
        return f"line-wrap-inside-{where}"
    hyph = "line-wrap-inside-hyphenated-word" + ("" if where == "quotes" else "-units")
    reader_folds = folding and where == "quotes"
    if not reader_folds:
        # white space inserted after a '-' that had none
        if "-" in o and norm(re.sub(r"-\s+", "-", o)) == norm(re.sub(r"-\s+", "-", l)):
            if len(re.findall(r"\w-\s+\w", l)) > len(re.findall(r"\w-\s+\w", o)):
                return hyph
            return f"line-wrap-after-dash-inside-{where}"
        return None
    fl = norm(l)
    if fl == fold(o) or "-" not in o:
        return None
    space_spots = [(m.start(), m.end(), "space") for m in re.finditer(r"-[ \t\n\r\v\f]+", o)]
    # a hyphen INSIDE a word (word character on both sides), the only place break_on_hyphens would split
    word_spots = [(m.start(), m.end(), "word") for m in re.finditer(r"(?<=\w)-(?=\w)", o)]

    def explained(spots):
        if not spots:
            return None
        if len(spots) <= 12:
            combos = range(1, 2 ** len(spots))
        else:            # many dashes: one or two removed spots
            n = len(spots)
            combos = [1 << i for i in range(n)] + [(1 << i) | (1 << j) for i in range(n) for j in range(i + 1, n)]
        for mask in combos:
            t, shift, kinds = o, 0, set()
            for i, (a, b, kind) in enumerate(spots):
                if mask >> i & 1:
                    t = t[:a - shift] + t[b - shift:]
                    shift += b - a
                    kinds.add(kind)
            if fold(t) == fl:
                return kinds
        return None
    # prefer the explanation that needs no split inside a word
    if explained(space_spots) is not None:
        return f"line-wrap-after-dash-inside-{where}"
    kinds = explained(sorted(space_spots + word_spots))
    if kinds is not None:
        return hyph if "word" in kinds else f"line-wrap-after-dash-inside-{where}"
    return None


def _wrap_symptom_checked(d, folding, text):
    """the 'after-dash' / 'hyphenated-word' symptoms describe a line end that the writer put DIRECTLY after a '-';
    when the produced text has no '-' immediately followed by a line end the damage has another cause"""
    sym = wrap_symptom(d, folding)
    if sym and ("after-dash" in sym or "hyphenated" in sym) and not re.search("-[\n\r\v\f]", text or ""):
        return None
    return sym


def _assignment_names(items):
    for k, vd in items:
        if vd[0] in ("group", "object"):
            yield from _assignment_names(vd[1])
        else:
            yield k


def _strip_quoted(text):
    out, q = [], None
    for c in text:
        if q:
            if c == q:
                q = None
                out.append(c)
        else:
            out.append(c)
            if c in "\"'":
                q = c
    return "".join(out)


def _name_missing(desc, text):
    """Symptom: some parameter name of the module is followed by '=' (outside quotes) fewer times in the produced
    text than the module has assignments with that name."""
    up = _strip_quoted(text).upper()
    need = {}
    for k in _assignment_names(desc):
        if k:
            need[k.upper()] = need.get(k.upper(), 0) + 1
    return any(len(re.findall(r"(?<![^\s])" + re.escape(k) + r"\s*=", up)) < n for k, n in need.items())


def roundtrip(desc, dialect, opts, mode):
    """Run one case on the real library.  -> ('ok'|'refused', None) or ('bad', info)."""
    import pvl
    loader = dialect if mode == "strict" else "OMNI"
    lname = f"strict {dialect} parser" if mode == "strict" else "pvl.loads"
    m = build_module(desc)
    enc = make_encoder(dialect, opts)
    try:
        with time_limit(CASE_TIMEOUT):
            text = pvl.dumps(m, encoder=enc)
    except (ValueError, TypeError):
        return "refused", None
    except _Timeout:
        return "bad", _bad("dump", "dump-hangs", f"dumps did not return within {CASE_TIMEOUT}s")
    except Exception as e:
        return "bad", _bad("dump", f"dump-raises-{type(e).__name__}",
                           f"dumps raised {type(e).__name__}: {e} (only ValueError/TypeError are refusals)",
                           exc=type(e).__name__)
    if type(text) is not str:
        return "bad", _bad("dump", "dump-returns-nonstr", f"dumps returned {type(text).__name__}")
    lost = len(m) != len(desc)      # dumps() removed items from the caller's module (only a GROUP->OBJECT swap is documented)
    try:
        with time_limit(CASE_TIMEOUT), warnings.catch_warnings():
            warnings.simplefilter("ignore")
            loaded = pvl.loads(text, parser=strict_parser(dialect)) if mode == "strict" else pvl.loads(text)
    except _Timeout:
        return "bad", _bad("load", "load-hangs", f"{lname} did not return within {CASE_TIMEOUT}s on {text!r}", text)
    except Exception as e:
        return "bad", _bad("load", f"load-raises-{type(e).__name__}",
                           f"{lname} raised {type(e).__name__}: {str(e)[:160]!r} on the produced text {text!r}",
                           text, type(e).__name__,
                           symptom="parameter-name-missing-from-text" if _name_missing(desc, text) else None)
    d = equiv(build_module(desc), loaded, dialect, loader, opts)
    if d is not None and lost:
        return "bad", _bad("differs", f"differs-{d.kind}", f"{lname} of the produced text {text!r} differs {d}; dumps() "
                           f"also removed {len(desc) - len(m)} item(s) from the module it was given", text,
                           symptom="dumps-removed-items-from-its-argument")
    if d is not None and _name_missing(desc, text):
        return "bad", _bad("differs", f"differs-{d.kind}", f"{lname} of the produced text {text!r} differs {d}", text,
                           symptom="parameter-name-missing-from-text")
    if d is not None:
        return "bad", _bad("differs", f"differs-{d.kind}", f"{lname} of the produced text {text!r} differs {d}", text,
                           symptom=_wrap_symptom_checked(d, loader in FOLDING_LOADERS, text))
    if mode == "stable":
        try:
            with time_limit(CASE_TIMEOUT):
                t2 = pvl.dumps(loaded, encoder=make_encoder(dialect, opts))
        except (ValueError, TypeError) as e:
            return "bad", _bad("redump", "redump-refused",
                               f"second dump refused ({type(e).__name__}: {str(e)[:120]!r}) the module loaded from the first dump {text!r}", text)
        except _Timeout:
            return "bad", _bad("redump", "redump-hangs", "second dump did not return", text)
        except Exception as e:
            return "bad", _bad("redump", f"redump-raises-{type(e).__name__}", f"second dump raised {type(e).__name__}: {e}",
                               text, type(e).__name__)
        if not same_text_up_to_set_order(text, t2):
            sym = None
            if has_brace_outside_quotes(text) and norm_sets(" ".join(text.split())) == norm_sets(" ".join(t2.split())):
                # same tokens once ALL white space (also inside quotes) is collapsed: the other element order moved a
                # line break of the wrapping into / out of a quoted string
                sym = "set-reordering-moves-line-break-inside-quotes"
            return "bad", _bad("redump", "redump-differs", f"first dump {text!r} != second dump {t2!r}", text, symptom=sym)
    return "ok", None


# =====================================================================================
# 6. shrinking and classification (narrow, stable violation keys)
# =====================================================================================
_RT_CACHE = {}


def _rt(desc, dialect, opts, mode):
    k = (mode, dialect, jkey(desc), jkey(opts))
    r = _RT_CACHE.get(k)
    if r is None:
        if len(_RT_CACHE) > 200000:
            _RT_CACHE.clear()
        r = _RT_CACHE[k] = roundtrip(desc, dialect, opts, mode)
    return r


def _same_class(a, b):
    # same outcome; a recognised symptom must persist, an unrecognised failure may shrink into a recognised one
    return b is not None and a["slug"] == b["slug"] and (a.get("symptom") is None or a.get("symptom") == b.get("symptom"))


def ddmin_str(s, test, budget):
    """Delta-debugging of a string: smallest substring-by-deletion for which test() stays true."""
    n = 2
    if s:
        budget[0] -= 1
        if test(""):
            return ""
    while len(s) >= 1 and budget[0] > 0:
        chunk = -(-len(s) // n)
        removed = False
        for i in range(0, len(s), chunk):
            cand = s[:i] + s[i + chunk:]
            budget[0] -= 1
            if test(cand):
                s, n, removed = cand, max(n - 1, 2), True
                break
            if budget[0] <= 0:
                break
        if not removed:
            if chunk <= 1:
                break
            n = min(n * 2, len(s))
    return s


def _string_slots(desc):
    """Paths (tuples of indices into the nested-list description) of every string slot: names, str values, units."""
    out = []

    def val(vd, path):
        k = vd[0]
        if k == "str":
            out.append(path + (1,))
        elif k == "qty":
            out.append(path + (2,))
            val(vd[1], path + (1,))
        elif k in ("seq", "set", "fset"):
            for i, e in enumerate(vd[1]):
                val(e, path + (1, i))
        elif k in ("group", "object"):
            items(vd[1], path + (1,))

    def items(its, path):
        for i, (k, vd) in enumerate(its):
            if k not in ("a", "g", "o", "x"):
                out.append(path + (i, 0))
            val(vd, path + (i, 1))
    items(desc, ())
    return out


def _get(node, path):
    for i in path:
        node = node[i]
    return node


def _with(node, path, new):
    c = json.loads(json.dumps(node))
    tgt = c
    for i in path[:-1]:
        tgt = tgt[i]
    tgt[path[-1]] = new
    return c


def _cands_value(vd):
    k = vd[0]
    for v2 in _cands_value0(vd):
        yield v2
    if k in SCALAR_KINDS and k != "int":
        yield ["int", 1]


def _cands_value0(vd):
    k = vd[0]
    if k in ("seq", "set", "fset"):
        el = vd[1]
        for e in el:
            yield e
        if len(el) > 1:
            h = len(el) // 2
            yield [k, el[:h]]
            yield [k, el[h:]]
            for i in range(len(el)):
                yield [k, el[:i] + el[i + 1:]]
        for i, e in enumerate(el):
            for e2 in _cands_value(e):
                if k == "seq" or e2[0] in SCALAR_KINDS:
                    yield [k, el[:i] + [e2] + el[i + 1:]]
    elif k == "qty":
        yield vd[1]
        if vd[2] != "m":
            yield ["qty", vd[1], "m"]
        for v2 in _cands_value(vd[1]):
            yield ["qty", v2, vd[2]]
    elif k == "emptyvalue":
        yield ["str", ""]
    elif k == "int":
        if vd[1] not in (0, 1):
            yield ["int", 1]
    elif k == "float":
        if vd[1] != "1.5":
            yield ["float", "1.5"]
    elif k == "time":
        h, mi, s, us, tz = vd[1:]
        if us:
            yield ["time", h, mi, s, 0, tz]
        if s:
            yield ["time", h, mi, 0, us, tz]
        if tz:
            yield ["time", h, mi, s, us, 0]
    elif k == "datetime":
        y, mo, d, h, mi, s, us, tz = vd[1:]
        yield ["date", y, mo, d]
        yield ["time", h, mi, s, us, tz]
        if us:
            yield ["datetime", y, mo, d, h, mi, s, 0, tz]
        if s:
            yield ["datetime", y, mo, d, h, mi, 0, us, tz]
        if tz:
            yield ["datetime", y, mo, d, h, mi, s, us, 0]


def _cands_items(items, structural_only=False):
    n = len(items)
    if n > 1:
        for i in range(n):
            yield [items[i]]
        if n > 2:
            for i in range(n):
                yield items[:i] + items[i + 1:]
    if n == 2 and not structural_only:
        (k1, v1), (k2, v2) = items
        yield [[k1, v2]]
        yield [[k2, v1]]
    for i, (k, vd) in enumerate(items):
        if vd[0] in ("group", "object"):
            yield items[:i] + vd[1] + items[i + 1:]
            for sub in _cands_items(vd[1], structural_only):
                yield items[:i] + [[k, [vd[0], sub]]] + items[i + 1:]
            if vd[0] == "object":
                yield items[:i] + [[k, ["group", vd[1]]]] + items[i + 1:]
        elif not structural_only:
            for v2 in _cands_value(vd):
                yield items[:i] + [[k, v2]] + items[i + 1:]
        if not structural_only and k not in ("a", "g", "o"):
            yield items[:i] + [["a", vd]] + items[i + 1:]


def _loader_producible(desc):
    """C07 quantifies over modules the default loader returns: its decoder folds every quoted string, so a str value
    that is not a fixed point of fold() cannot occur (shrinking must not leave that domain)."""
    for path in _string_slots(desc):
        if path[-1] == 1:
            sv = _get(desc, path)
            if fold(sv) != sv:
                return False
    return True


def _shrink_loop(desc, dialect, opts, mode, info, structural_only, budget):
    budget = [budget]

    def fails(cand):
        if mode == "stable" and not _loader_producible(cand):
            return None
        st, inf = _rt(cand, dialect, opts, mode)
        return inf if st == "bad" and _same_class(info, inf) else None
    changed = True
    while changed and budget[0] > 0:
        changed = False
        for cand in _cands_items(desc, structural_only):
            budget[0] -= 1
            inf = fails(cand)
            if inf is not None:
                desc, info, changed = cand, inf, True
                break
            if budget[0] <= 0:
                break
        if changed or structural_only:
            continue
        for path in _string_slots(desc):
            cur = _get(desc, path)
            if not cur:
                continue
            is_key, is_units = path[-1] == 0, path[-1] == 2
            if is_key or is_units:      # stay inside the generator's language: non-empty names, trimmed non-empty units
                test = lambda s2: bool(s2) and s2.strip() == s2 and fails(_with(desc, path, s2)) is not None
            else:
                test = lambda s2: fails(_with(desc, path, s2)) is not None
            small = ddmin_str(cur, test, budget)
            fill = "k" if path[-1] == 0 else "x"       # canonical filler: names 'k', text 'x'
            for i in range(len(small)):
                if small[i] != fill and budget[0] > 0:
                    budget[0] -= 1
                    c2 = small[:i] + fill + small[i + 1:]
                    if test(c2):
                        small = c2
            if small != cur:
                desc = _with(desc, path, small)
                info = fails(desc)
                changed = True
                break
    return desc, info


def _shrink_opts(desc, dialect, opts, mode, info):
    dflt = DEFAULTS[dialect]
    st, inf = _rt(desc, dialect, dflt, mode)
    if st == "bad" and _same_class(info, inf):
        return dict(dflt), inf
    opts = dict(opts)
    for name in sorted(opts):
        if opts[name] != dflt[name]:
            trial = dict(opts, **{name: dflt[name]})
            st, inf = _rt(desc, dialect, trial, mode)
            if st == "bad" and _same_class(info, inf):
                opts, info = trial, inf
    return opts, info


_KW = ("null", "true", "false")
_RESERVED = ("end", "group", "object", "begin_group", "begin_object", "end_group", "end_object")
_RCHAR = {";": "semicolon", "<": "angle", ">": "angle", "=": "equals", ",": "comma", "(": "bracket", ")": "bracket",
          "{": "bracket", "}": "bracket", "[": "bracket", "]": "bracket", "'": "quote", '"': "quote"}


def _is_float(s):
    try:
        float(s)
        return True
    except ValueError:
        return False


def str_class(s):
    if s == "":
        return "empty"
    cf = s.casefold()
    if cf in _KW:
        return "keyword-" + cf
    if cf in _RESERVED:
        return "reserved-" + cf
    if "'" in s and '"' in s:
        return "both-quotes"
    if re.search("-[\n\r\v\f]", s):
        return "dash-newline"
    if any(c in "\n\r\v\f" for c in s):
        return "only-newline" if not s.strip("\n\r\v\f") else "newline"
    if "\t" in s:
        return "tab"
    if any(c.isspace() and c not in _WS for c in s):
        # white space for Python's str.strip/split but not for the grammars (U+00A0, U+001C..1F, U+0085, ...)
        if all(c.isspace() and c not in _WS for c in s):
            return "python-only-space"                      # nothing else in the string (the recorded finding)
        if (s[0].isspace() and s[0] not in _WS) or (s[-1].isspace() and s[-1] not in _WS):
            return "edge-python-space"
        return "inner-python-space"
    if any(ord(c) > 255 for c in s):
        return "non-latin1"
    if any(ord(c) > 127 for c in s):
        return "latin1"
    if any(ord(c) < 32 or ord(c) == 127 for c in s):
        return "control"
    if s.strip(" ") == "":
        return "only-space"
    if s.strip(" ") != s:
        return "edge-space"
    if "  " in s:
        return "multi-space"
    if "/*" in s or "*/" in s:
        return "comment-delim"
    if "#" in s:
        return "hash"
    if _is_float(s) or re.fullmatch(r"[+-]?\d+#[+-]?[0-9A-Fa-f]+#", s):
        return "number-like"
    if re.fullmatch(r"\d{1,4}-\d{1,3}(-\d{1,2})?", s):
        return "date-like"
    if re.fullmatch(r"(\d{1,4}-\d{1,3}(-\d{1,2})?[Tt])?\d{1,2}:\d{1,2}(:\d{1,2}(\.\d+)?)?[Zz]?([+-]\d{1,2}(:?\d{1,2})?)?", s):
        # strptime matches the literal T and Z of the formats case-insensitively
        return "time-with-offset-like" if re.search(r"[+-]\d{1,2}(:?\d{1,2})?$", re.split("[Tt]", s)[-1]) else "time-like"
    for c in s:
        if c in _RCHAR:
            return _RCHAR[c]
    if any(c in "&!%+~|" for c in s):
        return "reserved-char"
    if s.endswith("-"):
        return "trailing-dash"
    if " " in s:
        return "long-sentence" if len(s) > 60 else "spaces"
    if len(s) > 60:
        return "long-word"
    if "-" in s:
        return "dash"
    return "plain"


def _tclass(us, tz):
    z = "naive" if tz is None else ("utc" if tz == 0 else "offset")
    return z + ("" if us == 0 else ("-ms" if us % 1000 == 0 else "-us"))


def classify_value(vd):
    k = vd[0]
    if k == "none":
        return "none", "none"
    if k == "bool":
        return "bool", "true" if vd[1] else "false"
    if k == "int":
        n = vd[1]
        return "int", "zero" if n == 0 else ("big" if abs(n) >= 2 ** 63 else ("negative" if n < 0 else "positive"))
    if k == "float":
        r = vd[1]
        x = float(r)
        return "float", ("zero" if x == 0 else "exp-minus" if "e-" in r else "exp-plus" if "e" in r else
                         "negative" if x < 0 else "plain")
    if k == "str":
        return "str", str_class(vd[1])
    if k == "emptyvalue":
        return "str", "empty-placeholder"
    if k == "date":
        return "date", "year-lt-1000" if vd[1] < 1000 else "plain"
    if k == "time":
        return "time", _tclass(vd[4], vd[5])
    if k == "datetime":
        return "datetime", _tclass(vd[7], vd[8]) + ("-year-lt-1000" if vd[1] < 1000 else "")
    if k == "qty":
        ik, ic = classify_value(vd[1])
        u = "" if vd[2] == "m" else "-units-" + ("spaced" if re.search(r"\s", vd[2]) else "expr" if re.search(r"[^A-Za-z]", vd[2]) else "word")
        return "qty", f"{ik}-{ic}{u}"
    if k in ("seq", "set", "fset"):
        tag = "seq" if k == "seq" else "set"
        el = vd[1]
        if not el:
            return tag, "empty" + ("-frozenset" if k == "fset" else "")
        if len(el) == 1:
            ik, ic = classify_value(el[0])
            return ik, f"{ic}@{tag}"
        rest = [e for e in el if e != ["int", 1]]
        if len(rest) == 1:
            ik, ic = classify_value(rest[0])
            return ik, f"{ic}@{tag}-of-{'2' if len(el) == 2 else 'many'}"
        kinds = "+".join(sorted({classify_value(e)[0] for e in el}))
        if len({e[0] for e in el}) == 1 and el[0][0] in SCALAR_KINDS:
            cl = sorted({classify_value(e)[1] for e in el})
            kinds += "-" + (cl[0] if len(cl) == 1 else "mixed")
        return tag, ("2x" if len(el) == 2 else "many-") + kinds
    return k, "other"


def key_class(k):
    if k.startswith("^"):
        return "caret"
    if ":" in k:
        return "namespace"
    if not re.fullmatch(r"[A-Za-z][A-Za-z0-9_]*", k):
        return "non-identifier"
    if len(k) > 30:
        return "len31+"
    if len(k) >= 8:
        return "long"
    if k.lower() != k and k.upper() != k:
        return "mixedcase"
    if "_" in k:
        return "underscore"
    if not re.fullmatch(r"[A-Za-z][A-Za-z0-9_]*", k):
        return "non-identifier"
    return "other"


def classify_module(items):
    if not items:
        return "module", "empty"
    if len(items) > 1:
        ks = [k for k, _ in items]
        tag = "dup-keys" if len(set(ks)) < len(ks) else "multi"
        if len(items) == 2 and tag == "multi":
            # one scalar next to an innocuous aggregation (canonical name, empty or filler content): the scalar is the
            # interesting part, name the class after it
            sc = [(i, k, v) for i, (k, v) in enumerate(items) if v[0] not in ("group", "object")]
            ag = [(i, k, v) for i, (k, v) in enumerate(items) if v[0] in ("group", "object")]
            if (len(sc) == 1 and len(ag) == 1 and ag[0][1] in ("a", "g", "o", "x") and sc[0][1] in ("a", "g", "o", "x")
                    and all(iv == ["int", 1] and ik in ("a", "g", "o", "x") for ik, iv in ag[0][2][1])):
                kk, cc = classify_value(sc[0][2])
                return kk, f"{cc}+{'following' if sc[0][0] < ag[0][0] else 'preceding'}-{ag[0][2][0]}"
        # (a string item is named with its class: the module class then says WHICH kind of string it takes, so that a listed
        # finding about one kind of string does not account for modules that fail with another)
        kinds = "+".join(sorted({(f"str({str_class(v[1])})" if v[0] == "str" and isinstance(v[1], str) else v[0]) for _, v in items}))
        return "module", f"{tag}-{kinds}"
    k, vd = items[0]
    prefix = "" if k in ("a", "g", "o", "x") else f"key-{key_class(k)}/"
    if vd[0] in ("group", "object"):
        if not vd[1]:
            return vd[0], prefix + "empty"
        kk, cc = classify_module(vd[1])
        return kk, prefix + cc + "@" + vd[0]
    kk, cc = classify_value(vd)
    return kk, prefix + cc


_MIN_MEMO = {}


def minimise(desc, dialect, opts, mode, info):
    """-> (key, what, data) of the violation for a failing case, shrunk to a minimal reproducer."""
    pid = MODES[mode]
    opts, info = _shrink_opts(desc, dialect, opts, mode, info)
    desc, info = _shrink_loop(desc, dialect, opts, mode, info, True, 60)
    mk = (mode, dialect, jkey(desc), jkey(opts), info["slug"], info.get("symptom"))
    hit = _MIN_MEMO.get(mk)
    if hit is not None:
        return hit
    desc2, info2 = _shrink_loop(desc, dialect, opts, mode, info, False, 2500)
    opts2, info2 = _shrink_opts(desc2, dialect, opts, mode, info2)
    kind, cls = classify_module(desc2)
    dflt = DEFAULTS[dialect]
    delta = sorted(n for n in opts2 if opts2[n] != dflt[n])
    if info2.get("symptom"):
        sy = info2["symptom"]
        k0 = ("qty" if sy.endswith("units") else "assignment" if sy.startswith("parameter-name") else
              "module" if sy.startswith("dumps-removed") else "set" if sy.startswith("set-") else "str")
        key = f"{pid}:{dialect}:{k0}:{sy}:{info2['slug']}"
    else:
        key = f"{pid}:{dialect}:{kind}:{cls}:{info2['slug']}" + (":opt-" + "+".join(delta) if delta else "")
    optsrc = ", ".join(f"{n}={opts2[n]!r}" for n in delta)
    what = f"{dialect} dumps({py_module_src(desc2)}{', ' + optsrc if optsrc else ''}): {info2['what']}"
    # the description is stored as a JSON string: the harness flattens nested lists deeper than 6 levels
    data = {"mode": mode, "dialect": dialect, "module": jkey(desc2), "opts": opts2, "text": info2.get("text"),
            "slug": info2["slug"], "python": py_module_src(desc2)}
    res = (key, what, data)
    if len(_MIN_MEMO) > 50000:
        _MIN_MEMO.clear()
    _MIN_MEMO[mk] = res
    return res


def replay(data):
    """Re-run one recorded violation on the real code: description if it still fails, else None."""
    desc = data.get("module")
    if desc is None:
        return None
    if isinstance(desc, str):
        desc = json.loads(desc)
    mode = data.get("mode", "strict")
    dialect = data["dialect"]
    opts = dict(DEFAULTS[dialect])
    opts.update(data.get("opts") or {})
    st, info = roundtrip(desc, dialect, opts, mode)
    if st != "bad":
        return None
    return f"{dialect} dumps({py_module_src(desc)}, {opts}): {info['what']}"


# =====================================================================================
# 7. object-side case spaces (C01, C02) and the fork-pool worker
# =====================================================================================
def contexts(vd):
    """The module shapes a pool value is placed in (nesting depth <= 2)."""
    out = [("top", [["a", vd]]),
           ("in-group", [["g", ["group", [["a", vd]]]]]),
           ("in-object-in-object", [["o", ["object", [["b_c", ["int", 1]], ["o", ["object", [["a", vd]]]]]]]])]
    if vd[0] in SCALAR_KINDS or vd[0] == "qty":
        out.append(("in-seq", [["a", ["seq", [["int", 1], vd]]]]))
    return out


def key_cases():
    out = []
    for k in KEYS:
        for vd in (["int", 1], S("a b"), ["group", [["x", ["int", 1]]]], ["object", [["x", ["int", 1]]]]):
            out.append([[k, vd]])
        out.append([["g", ["group", [[k, ["int", 1]]]]]])
        out.append([[k, ["int", 1]], [k, ["int", 2]]])
    return out


def small_modules(max_items):
    for n in range(1, max_items + 1):
        for combo in itertools.product(ITEM_POOL, repeat=n):
            yield [list(c) for c in combo]


_RAND_ALPHABETS = [
    "abcdefghijklmnopqrstuvwxyzABCDEFGHIJKLMNOPQRSTUVWXYZ0123456789_",
    "abcXYZ019_ ",
    "ab -#/*;<>'\"=,(){}[]&!%+~|.:@$^?\\`",
    "ab \t\n\r-",
    "abé°µü\xa0 ",
    "ab€λ ",
    "0123456789.eE+-:TZ",
]


def rand_str(rng):
    n = rng.choice([0, 1, 1, 2, 3, 5, 8, 13, 30, 70, 150])
    a = rng.choice(_RAND_ALPHABETS)
    return "".join(rng.choice(a) for _ in range(n))


def rand_scalar(rng):
    r = rng.random()
    if r < 0.35:
        return rng.choice(SCALAR_POOL)
    if r < 0.55:
        return S(rand_str(rng))
    if r < 0.65:
        return ["int", rng.choice([1, -1]) * rng.randrange(10 ** rng.randrange(0, 25))]
    if r < 0.75:
        x = rng.choice([rng.uniform(-1e6, 1e6), rng.uniform(-1, 1) * 10 ** rng.randint(-300, 300),
                        round(rng.uniform(-100, 100), rng.randint(0, 6)), float(rng.randint(-10 ** 17, 10 ** 17))])
        return ["float", repr(x)]
    tz = rng.choice([None, 0, 0, 60, -60, 330, -570, 720, -720])
    us = rng.choice([0, 0, 1000, 999000, 1, 999999, rng.randrange(10 ** 6)])
    if r < 0.82:
        return ["date", rng.choice([1, 99, 999, 1000, 1970, 2024, 9999]), rng.randint(1, 12), rng.randint(1, 28)]
    if r < 0.91:
        return ["time", rng.randrange(24), rng.randrange(60), rng.choice([0, rng.randrange(60)]), us, tz]
    return ["datetime", rng.choice([1, 999, 1000, 2024, 9999]), rng.randint(1, 12), rng.randint(1, 28),
            rng.randrange(24), rng.randrange(60), rng.choice([0, rng.randrange(60)]), us, tz]


def rand_value(rng, nest=2):
    r = rng.random()
    if r < 0.62 or nest == 0:
        return rand_scalar(rng)
    if r < 0.70:
        inner = rng.choice([["int", rng.randrange(100)], ["float", repr(round(rng.uniform(-9, 9), 3))], rand_value(rng, 0)])
        return ["qty", inner, rng.choice(["m", "m/s**2", "KM", "km/s", "deg north", "m**-2", "%", "a b"])]
    if r < 0.90:
        return ["seq", [rand_value(rng, nest - 1) for _ in range(rng.choice([0, 1, 2, 3, 5, 12]))]]
    el = []
    seen = set()
    for _ in range(rng.choice([0, 1, 2, 4])):
        e = rand_scalar(rng)
        v = build_value(e)
        if v not in seen:          # 1 == True == 1.0 would collapse inside a Python set
            seen.add(v)
            el.append(e)
    return [rng.choice(["set", "fset"]), el]


def rand_key(rng):
    if rng.random() < 0.6:
        return rng.choice(KEYS)
    n = rng.choice([1, 2, 5, 12, 29, 30, 31])
    a = rng.choice(["ABCDEFGHIJKLMNOPQRSTUVWXYZ_0123456789", "abcdefXYZ_09", "aB.:-^/"])
    return rng.choice("abcXYZ") + "".join(rng.choice(a) for _ in range(n - 1))


def rand_items(rng, size, depth):
    items = []
    for _ in range(rng.randint(0 if depth < 3 else 1, size)):
        if depth > 0 and rng.random() < 0.25:
            items.append([rand_key(rng), [rng.choice(["group", "object"]), rand_items(rng, max(1, size // 2), depth - 1)]])
        else:
            items.append([rand_key(rng), rand_value(rng)])
    return items


def _accepts(vd, dialect):
    st, _ = _rt([["a", vd]], dialect, DEFAULTS[dialect], "strict")
    return st != "refused"


def rand_module_for(rng, dialect, size=8, depth=3):
    """Random module; leaf values the dialect's encoder refuses on their own are re-drawn (4 out of 5 times) so that
    whole-module refusals do not dominate."""
    items = rand_items(rng, size, depth)

    def fix(items):
        for it in items:
            if it[1][0] in ("group", "object"):
                fix(it[1][1])
            else:
                for _ in range(4):
                    if rng.random() < 0.2 or _accepts(it[1], dialect):
                        break
                    it[1] = rand_value(rng)
            if dialect in ("ODL", "PDS3") and it[1][0] not in ("group", "object") and rng.random() < 0.8:
                if not re.fullmatch(r"\^?[A-Za-z][A-Za-z0-9_]*(:[A-Za-z][A-Za-z0-9_]*)?", it[0]) or len(it[0]) > 30:
                    it[0] = rng.choice(KEYS[:4])
    fix(items)
    return items


def _cpu_note(c0):
    c1 = os.times()
    cpu = (c1.children_user - c0.children_user) + (c1.children_system - c0.children_system)
    return f"worker CPU {cpu:.0f}s (~{cpu / 16:.0f}s wall on 16 idle cores)"


def run_cases(task):
    """Pool worker.  task = (mode, [(dialect, opts, desc), ...]) -> (n, accepted hashes, refused, violations, samples)"""
    mode, cases = task
    hashes, viols, samples = [], [], []
    refused = 0
    seen = set()
    for dialect, opts, desc in cases:
        st, info = _rt(desc, dialect, opts, mode)
        if st == "refused":
            refused += 1
            continue
        hashes.append(case_hash(dialect, opts, desc))
        if len(samples) < 2:
            samples.append({"dialect": dialect, "opts": opts, "module": py_module_src(desc)[:300]})
        if st == "bad":
            key, what, data = minimise(desc, dialect, opts, mode, info)
            if key not in seen:
                seen.add(key)
                data = dict(data, found_in={"module": py_module_src(desc)[:600], "opts": opts})
                viols.append((key, what, data))
    return len(cases), hashes, refused, viols, samples


def _chunks(seq, n):
    seq = list(seq)
    return [seq[i:i + n] for i in range(0, len(seq), n)]


def run_section(ctx, section, mode, cases, chunk=60):
    """Evaluate *cases* on the pool and fold the results into *section*."""
    from ..harness import Section  # noqa: F401  (type only)
    t0 = _time.time()
    c0 = os.times()
    tasks = [(mode, c) for c in _chunks(cases, chunk)]
    refused = 0
    with mp.get_context("fork").Pool(ctx.jobs) as pool:
        for n, hashes, ref, viols, samples in pool.imap(run_cases, tasks, chunksize=1):
            section.merge_counts(n, hashes, samples)
            refused += ref
            for key, what, data in viols:
                section.violation(key, what, data)
    section.notes.append(f"{refused} of {section.evaluations} cases were refused by dumps (ValueError/TypeError): allowed outcome, "
                         f"not counted as distinct non-trivial cases")
    section.notes.append(_cpu_note(c0))
    section.seconds = _time.time() - t0
    return section


def object_sections(ctx, mode):
    """The sections shared by C01 (mode 'strict') and C02 (mode 'omni')."""
    from ..harness import Section
    pid = MODES[mode]
    rng = random.Random(ctx.seed)
    thorough = ctx.thorough
    grids = {d: (full_grid(d) if thorough else pairwise_grid(d)) for d in DIALECTS}
    loader = "the strict parser of the same dialect" if mode == "strict" else "pvl.loads() (default loader)"
    secs = []

    # -- S1 every pool value x context x option grid
    s = Section("values-x-options", "bounded", bounded=True,
                rule=f"every boundary pool value ({len(VALUE_POOL)} values + {len(AGG_POOL)} aggregation shapes) placed at top level, "
                     "in a group, two objects deep and inside a sequence, dumped by each of the 4 encoders under "
                     + ("the full product of the option grid" if thorough else "a pairwise cover of the option grid (every option value and every pair of values occurs)")
                     + f", read back by {loader}, compared with equiv(); distinct = (module, dialect, options) accepted by dumps",
                bounds={"values": len(VALUE_POOL), "aggregations": len(AGG_POOL),
                        "configs": {d: len(g) for d, g in grids.items()}, "grid": {d: GRID[d] for d in DIALECTS}})
    cases = []
    descs = [d for vd in VALUE_POOL for _, d in contexts(vd)]
    descs += [[["g" if vd[0] == "group" else "o", vd]] for vd in AGG_POOL]
    descs += [[["o", ["object", [["x", ["int", 1]], ["g", vd]]]]] for vd in AGG_POOL]
    for d in DIALECTS:
        for desc in descs:
            for o in grids[d]:
                cases.append((d, o, desc))
    run_section(ctx, s, mode, cases, 200 if thorough else 30)
    s.exhaustive = thorough
    secs.append(s)

    # -- S1b hyphenated compounds across the wrap column
    hs = hyphen_strings()
    s = Section("hyphenated-compounds", "bounded", bounded=True,
                rule=f"a sentence of hyphenated compounds (no white space after any hyphen) padded by 0..{len(hs) - 1} leading "
                     "characters so that some compound straddles the wrap column, as a scalar value, inside a sequence and inside "
                     "a sequence in a group, x 4 encoders x "
                     + ("the full option grid" if thorough else "widths 20/40/80/120 at otherwise default options plus the pairwise cover for three paddings"),
                bounds={"paddings": len(hs), "sentence": HYPHEN_SENTENCE})
    cases = []
    for i, h in enumerate(hs):
        shapes = [[["a", S(h)]], [["a", ["seq", [S(h)]]]], [["g", ["group", [["b_c", ["seq", [["int", 1], S(h)]]]]]]]]
        for d in DIALECTS:
            if thorough:
                cfgs = grids[d]
            else:
                cfgs = [dict(DEFAULTS[d], width=w) for w in GRID[d]["width"]] + (grids[d] if i in (0, 7, 19) else [])
            for desc in shapes:
                for o in cfgs:
                    cases.append((d, o, desc))
    run_section(ctx, s, mode, cases, 100 if thorough else 25)
    s.exhaustive = thorough
    secs.append(s)

    # -- S2 keys
    s = Section("keys-x-options", "bounded", bounded=True,
                rule="every key of the key pool (short, underscore, mixed case, 30 and 31 characters, ^pointer, namespace) as "
                     "parameter name, block name, name inside a group and duplicated, x encoders x option grid as above",
                bounds={"keys": KEYS})
    cases = [(d, o, desc) for d in DIALECTS for desc in key_cases() for o in grids[d]]
    run_section(ctx, s, mode, cases, 200 if thorough else 30)
    s.exhaustive = thorough
    secs.append(s)

    # -- S3 exhaustive small modules over the item pool
    k = 3 if thorough else 2
    s = Section("small-modules", "bounded", bounded=True,
                rule=f"all modules of 1..{k} top-level items drawn with repetition from an item pool of {len(ITEM_POOL)} (key, value) "
                     "items (one representative per kind; groups/objects nested to depth 2, empty group, group with duplicate keys, "
                     "data pointer in a group; repetition yields duplicate keys and same-name groups without an object), x 4 encoders "
                     "x (default options + 2 seeded option configurations per module)",
                bounds={"max_items": k, "item_pool": len(ITEM_POOL)})
    cases = []
    for desc in small_modules(k):
        for d in DIALECTS:
            cases.append((d, DEFAULTS[d], desc))
            for _ in range(2):
                cases.append((d, rng.choice(grids[d]), desc))
    run_section(ctx, s, mode, cases, 100)
    s.exhaustive = True
    secs.append(s)

    # -- S4 seeded random modules
    n = 4000 if thorough else 300
    s = Section("random-modules", "bounded", bounded=True,
                rule=f"{n} seeded random modules per encoder (up to 8 items per level, depth 3, pool values and fresh random "
                     "strings/ints/floats/dates/times/quantities/sequences/sets, random keys), one random option configuration each",
                bounds={"modules_per_dialect": n, "max_items": 8, "depth": 3, "seed": ctx.seed})
    cases = []
    for d in DIALECTS:
        full = full_grid(d)
        for _ in range(n):
            cases.append((d, rng.choice(full), rand_module_for(rng, d)))
    run_section(ctx, s, mode, cases, 8)
    secs.append(s)
    return secs


# =====================================================================================
# 8. text side (C07): corpus, free-spelling generator, token mutator, worker
# =====================================================================================
REPO = os.environ.get("VERIF_REPO", "/repo")
LOAD_TIMEOUT = 5.0

INT_SPELL = ["0", "7", "-1", "+5", "007", "100000000000000000000"]
BASED_SPELL = ["2#1010#", "8#17#", "16#FF#", "16#ff#", "-2#11#", "+16#A#", "2#-11#", "16#+A#", "3#12#", "10#99#"]
FLOAT_SPELL = ["1.5", "-1.5", "1.", "-.5", ".5", "1e5", "1E5", "1.5e-3", "+1.5E+3", "1e22", "0.0", "inf", "-inf", "nan"]
BARE_SPELL = ["abc", "Abc_Def", "a.b", "a/b", "x-y", "N/A", "1abc", "abc+def", "ab:cd", "x-", "-", "\\x", "a\\b"]
QUOTED_SPELL = ['"abc"', "'abc'", '"a b"', '" lead"', '"trail "', '"two  spaces"', '"tab\there"', '"line1\nline2"',
                '"dash-\n   continued"', '"it\'s"', "'say \"hi\"'", '""', "''", '"null"', '"NULL"', '"True"', '"end"',
                '"End_Group"', '"OBJECT"', '"1e5"', '"inf"', '"2001-01-01"', '"12:00"', '"23:59:60"', '"#nc"', '"a#b"',
                '"/*c*/"', '"x;y"', '"<u>"', '"café"', '"5 €"', '"-"', '"abc-"', '"2#1#"', '"a\\nb"', '" "',
                '"12:00+01"', '"12:00-07"', '"2001-001T12:00-05:30"', '"2001-01-01T10:00-03"', '"12:00-03:30"',
                '"' + HYPHEN_SENTENCE + '"', '"ppppppppppp ' + HYPHEN_SENTENCE + '"',
                '"' + "word " * 30 + 'end"']
KW_SPELL = ["NULL", "Null", "null", "TRUE", "True", "true", "FALSE", "False", "false"]
DATE_SPELL = ["2001-01-01", "2001-001", "0001-01-01", "9999-12-31", "2000-02-29", "2001-366", "2001-01-01Z"]
TIME_SPELL = ["12:00", "12:00Z", "12:00:30", "12:00:30.5", "12:00:30.123456Z", "12:00:00.123Z", "23:59:60", "23:59:60Z",
              "23:59:60.5", "12:00+05:30", "12:00:00-07", "12:00+5", "01:02:03.5Z",
              "12:00-03:30", "12:00:00-09:30", "12:00-05:45", "12:00-00:30", "12:00+05:45", "12:00:30.5+09:30", "12:00-0330"]
DT_SPELL = ["2001-01-01T12:00", "2001-001T12:00:00Z", "2001-01-01T23:59:60", "2001-01-01T23:59:60.123Z",
            "2001-01-01T12:00:00+05:30", "2001-01-01T12:00:00.1234567", "0999-12-31T01:02:03Z",
            "2001-01-01T12:00:00.000001Z", "2001-01-01T12:00:00-0700",
            "2001-01-01T10:00-00:30", "2001-01-01T10:00:00-03:30", "2001-001T10:00-09:30", "2001-01-01T10:00-05:45",
            "2001-01-01T10:00+05:45", "2001-01-01T10:00:00.5+09:30"]
UNIT_SPELL = ["<m>", "< m >", "<m/s**2>", "<KM/S>", "<degrees north>", "<%>", "<a b  c>", "<>", "< >"]   # (also the empty expression)
SEQ_SPELL = ["()", "(1)", "(1, 2, 3)", "(1,2,3)", "( 1 , 2 )", "((1,2),(3))", "(((1)))", '("a b", c, 2.5)',
             "(1 <m>, 2 <m>)", "(1, 2) <m>", "(1,\n 2,\n 3)", "(NULL, TRUE)", "(12:00, 2001-01-01)", "((1, 2) <m>, 3)",
             '("' + "long item " * 4 + '", "' + "long item " * 4 + '", "' + "long item " * 4 + '")',
             '("' + HYPHEN_SENTENCE + '", "pppp ' + HYPHEN_SENTENCE + '")',
             "(12:00-03:30, 2001-01-01T10:00-00:30)"]
SET_SPELL = ["{}", "{1, 2}", "{a, b}", '{"a b", c}', "{1} <m>", "{{1}, {2}}", "{1, 1}", "{NULL}", "{12:00}", '{"b", "a"}']
SCALAR_SPELL = INT_SPELL + BASED_SPELL + FLOAT_SPELL + BARE_SPELL + QUOTED_SPELL + KW_SPELL + DATE_SPELL + TIME_SPELL + DT_SPELL
VALUE_SPELL = (SCALAR_SPELL + SEQ_SPELL + SET_SPELL
               + [f"{v} {u}" for v in ("1", "1.5", "abc", '"x"', "16#FF#", "12:00", "NULL") for u in UNIT_SPELL[:3]]
               + [f"1 {u}" for u in UNIT_SPELL])
NAME_SPELL = ["a", "A", "b_c", "mixedCase", "LongerKeyName", KEY30, KEY31, "^PTR", "ns:key", "NS:Key", "a.b", "1st", "x-y"]
STMT_FORMS = ["{k} = {v}", "{k}={v}", "{k} = {v};", "{k}   =   {v}  ;", "{k} = {v} /* c */", "{k} = /* c */ {v}",
              "/* c */ {k} = {v}", "# c\n{k} = {v}", "{k} =\n    {v}", "{k}\n= {v}"]
BEGIN_SPELL = [("GROUP", "END_GROUP"), ("Group", "End_Group"), ("group", "end_group"), ("BEGIN_GROUP", "END_GROUP"),
               ("Begin_Group", "End_Group"), ("OBJECT", "END_OBJECT"), ("Object", "End_Object"),
               ("BEGIN_OBJECT", "END_OBJECT"), ("begin_object", "end_object"), ("GROUP", "End_Group")]
END_SPELL = ["END", "End", "end", "END;", "", "END\n", "END /* trailing */", "END\nignored = 1"]
EMPTY_FORMS = ["a =", "a =\nb = 1", "a = ;", "a =\nEND", "a =\nb =\nc = 1", "GROUP = g\n a =\nEND_GROUP", "a = \n GROUP = g\n b = 1\nEND_GROUP",
               "a = 1\nb =", "a = /* c */\nb = 2"]


def catalogue_texts():
    """Deterministic catalogue: every value spelling x statement form, every name spelling, every block spelling,
    every END spelling, the empty-value forms."""
    out = []
    for v in VALUE_SPELL:
        for f in STMT_FORMS:
            out.append(f.format(k="a", v=v) + "\nEND")
        out.append(f"GROUP = g\n  a = {v}\nEND_GROUP = g\nEND")
        out.append(f"a = {v}\nb = {v}")
    for k in NAME_SPELL:
        for v in ("1", '"a b"', "abc"):
            out.append(f"{k} = {v}\nEND")
        out.append(f"GROUP = {k}\n  x = 1\nEND_GROUP = {k}\nEND")
        out.append(f"OBJECT = {k}\n  {k} = 1\nEND_OBJECT\nEND")
    for b, e in BEGIN_SPELL:
        for endname in ("", " = g"):
            for semi in ("", ";"):
                out.append(f"{b} = g{semi}\n  x = 1{semi}\n{e}{endname}{semi}\nEND{semi}")
                out.append(f"{b} = g{semi}\n{e}{endname}{semi}\nEND")
                out.append(f"{b} = g{semi}\n  x = 1\n  x = 2\n  {b} = h\n    y = (1, 2)\n  {e}\n{e}{endname}{semi}\n{b} = g\n z = 1\n{e}\n")
    for e in END_SPELL:
        out.append(f"a = 1\nb = \"x y\"\n{e}")
    out += EMPTY_FORMS
    out += [t.replace("\n", "\r\n") for t in out[::7]]
    seen, res = set(), []
    for t in out:
        if t not in seen:
            seen.add(t)
            res.append(t)
    return res


def gen_text(rng, depth=2):
    nl = rng.choice(["\n", "\n", "\r\n"])
    lines = []

    def stmt(ind, depth):
        pad = " " * ind
        r = rng.random()
        if depth > 0 and r < 0.2:
            b, e = rng.choice(BEGIN_SPELL)
            name = rng.choice(NAME_SPELL[:6] + ["g", "g", "Grp1"])
            semi = rng.choice(["", "", ";"])
            lines.append(f"{pad}{b} = {name}{semi}")
            for _ in range(rng.randint(0, 3)):
                stmt(ind + rng.choice([0, 2, 4]), depth - 1)
            lines.append(f"{pad}{e}{rng.choice(['', '', ' = ' + name])}{semi}")
        elif r < 0.26:
            lines.append(pad + rng.choice(["/* comment */", "# octothorpe comment", "/* multi\n line */", ""]))
        elif r < 0.32:
            lines.append(f"{pad}{rng.choice(NAME_SPELL[:6])} =")
        else:
            k = rng.choice(NAME_SPELL) if rng.random() < 0.5 else rng.choice(["a", "b", "a", "key"])
            v = rng.choice(VALUE_SPELL)
            if rng.random() < 0.15:
                els = [rng.choice(SCALAR_SPELL) for _ in range(rng.randint(1, 6))]
                br = rng.choice(["()", "{}"])
                v = br[0] + rng.choice([", ", ",", " ,\n   "]).join(els) + br[1]
            if rng.random() < 0.1:
                v += " " + rng.choice(UNIT_SPELL)
            lines.append(pad + rng.choice(STMT_FORMS).format(k=k, v=v))
    for _ in range(rng.randint(1, 6)):
        stmt(0, depth)
    lines.append(rng.choice(END_SPELL))
    return nl.join(lines)


_TOK_RE = re.compile(r'"[^"]*"|\'[^\']*\'|/\*.*?\*/|<[^<>\n]*>|[A-Za-z0-9_.:^+\-#/\\]+|\s+|.', re.S)
_MUT_DICT = ["=", ";", "END", "End_Group", "END_OBJECT", "GROUP", "OBJECT", "BEGIN_GROUP", "(", ")", "{", "}", ",", "NULL",
             "-", '"', "'", "<m>", "2#1#", "12:00:60", "/*", "*/", "#", "\n", " ", "x", "1", "1.5", '""', "<", ">", "&", "+"]


def tokenize_text(t):
    return _TOK_RE.findall(t)


def mutate_text(rng, text):
    toks = tokenize_text(text[:4000])
    if not toks:
        return text
    for _ in range(rng.choice([1, 1, 2, 3])):
        i = rng.randrange(len(toks))
        op = rng.randrange(8)
        if op == 0:
            del toks[i]
        elif op == 1:
            toks.insert(i, toks[i])
        elif op == 2 and i + 2 < len(toks):
            toks[i], toks[i + 2] = toks[i + 2], toks[i]
        elif op == 3:
            toks[i] = rng.choice(_MUT_DICT)
        elif op == 4:
            toks.insert(i, rng.choice(_MUT_DICT))
        elif op == 5:
            toks[i] = rng.choice([toks[i].upper(), toks[i].lower(), toks[i].title(), toks[i].swapcase()])
        elif op == 6 and toks[i].isspace():
            toks[i] = rng.choice(["", "\n", "\r\n", "  ", "\t", "-\n  "])
        else:
            j = rng.randrange(len(toks))
            toks[i] = toks[j]
        if not toks:
            break
    return "".join(toks)


def corpus_texts():
    import pvl
    out = []
    base = os.path.join(REPO, "tests", "data")
    paths = []
    for root, _, files in sorted(os.walk(base)):
        for f in sorted(files):
            paths.append(os.path.join(root, f))
    for p in paths:
        try:
            with warnings.catch_warnings():
                warnings.simplefilter("ignore")
                t = pvl.get_text_from(p)
        except Exception:
            try:
                t = open(p, "rb").read().decode("latin-1")
            except Exception:
                continue
        out.append((os.path.relpath(p, base), t))
    return out


def stable_case(text, dialects=DIALECTS):
    """One C07 text: load with the default loader; for each encoder run load-dump-load-dump on the loaded module.
    -> (loaded?, [(dialect, status, violation or None)], m1 description)"""
    import pvl
    try:
        with time_limit(LOAD_TIMEOUT), warnings.catch_warnings():
            warnings.simplefilter("ignore")
            m1 = pvl.loads(text)
    except _Timeout:
        return "hang", [], None
    except Exception:
        return "rejected", [], None
    desc = describe_module(m1)
    back = build_module(desc)
    if equiv(m1, back, "PVL", "PVL") is not None or describe_module(back) != desc:
        raise AssertionError(f"description language does not reproduce the loaded module for {text!r}: {desc!r}")
    res = []
    for d in dialects:
        st, info = _rt(desc, d, DEFAULTS[d], "stable")
        if st == "bad":
            key, what, data = minimise(desc, d, DEFAULTS[d], "stable", info)
            data = dict(data, source_text=text[:1500])
            what = what + f"   [first seen loading {text[:200]!r}]"
            res.append((d, st, (key, what, data)))
        else:
            res.append((d, st, None))
    return "loaded", res, desc


def run_texts(task):
    """Pool worker for C07: task = [(label, text), ...]"""
    n = 0
    hashes, viols, samples = [], [], []
    stats = {"rejected": 0, "hang": 0, "loaded": 0, "refused": 0}
    seen = set()
    for label, text in task:
        st, res, desc = stable_case(text)
        stats[st] += 1
        if st != "loaded":
            continue
        for d, s2, v in res:
            n += 1
            if s2 == "refused":
                stats["refused"] += 1
                continue
            hashes.append(case_hash(d, text))
            if v is not None and v[0] not in seen:
                seen.add(v[0])
                viols.append(v)
        if len(samples) < 2:
            samples.append({"text": text[:200], "from": label})
    return n, hashes, stats, viols, samples


def run_text_section(ctx, section, texts, chunk=20):
    t0 = _time.time()
    c0 = os.times()
    tasks = _chunks(texts, chunk)
    tot = {"rejected": 0, "hang": 0, "loaded": 0, "refused": 0}
    with mp.get_context("fork").Pool(ctx.jobs) as pool:
        for n, hashes, stats, viols, samples in pool.imap(run_texts, tasks, chunksize=1):
            section.merge_counts(n, hashes, samples)
            for k in tot:
                tot[k] += stats[k]
            for key, what, data in viols:
                section.violation(key, what, data)
    section.notes.append(f"{len(texts)} texts: {tot['loaded']} accepted by pvl.loads, {tot['rejected']} rejected (out of the property's "
                         f"domain), {tot['hang']} did not load within {LOAD_TIMEOUT}s (C06's business, skipped); "
                         f"{tot['refused']} (text, encoder) pairs refused by dumps")
    section.notes.append(_cpu_note(c0))
    section.seconds = _time.time() - t0
    return section


def text_sections(ctx):
    from ..harness import Section
    rng = random.Random(ctx.seed)
    thorough = ctx.thorough
    chk = ("m1 = pvl.loads(t0); for each of the 4 default encoders that accepts m1: t1 = dumps(m1), m2 = pvl.loads(t1), "
           "equiv(m1, m2), dumps(m2) == t1 byte for byte (set literals compared up to element order)")
    secs = []
    corpus = corpus_texts()
    s = Section("corpus", "bounded", bounded=True,
                rule=f"every file under tests/data ({len(corpus)} files incl. pds3/*.lbl, pds3/broken/*, the ISIS samples and the "
                     "text prefix of pattern.cub) that the default loader accepts; " + chk,
                bounds={"files": len(corpus)})
    run_text_section(ctx, s, corpus, 2)
    s.exhaustive = True
    secs.append(s)

    cat = catalogue_texts()
    s = Section("spelling-catalogue", "bounded", bounded=True,
                rule=f"deterministic catalogue of {len(cat)} texts: every value spelling ({len(VALUE_SPELL)}: signed/based integers, "
                     "float forms, bare and quoted strings, keyword cases, day-of-year dates, leap-second times, zone offsets, units on "
                     f"scalars/sequences/sets) x {len(STMT_FORMS)} statement forms (spacing, ';', comments), every name spelling, every "
                     "BEGIN_/mixed-case block spelling with/without end name and ';', END spellings, empty-value forms; " + chk,
                bounds={"texts": len(cat)})
    run_text_section(ctx, s, [("catalogue", t) for t in cat], 25)
    s.exhaustive = True
    secs.append(s)

    n = 12000 if thorough else 1200
    gen = [("generated", gen_text(rng)) for _ in range(n)]
    s = Section("generated-texts", "bounded", bounded=True,
                rule=f"{n} seeded texts from the free-spelling generator (1-6 statements, blocks nested to depth 2, random spellings "
                     "from the catalogue alphabets, comments, empty values, mixed line ends); " + chk,
                bounds={"texts": n, "seed": ctx.seed})
    run_text_section(ctx, s, gen, 15)
    secs.append(s)

    n = 20000 if thorough else 2500
    seeds = [t for _, t in corpus if len(t) < 3000] + cat[::5] + [t for _, t in gen[:400]]
    muts = [("mutant", mutate_text(rng, rng.choice(seeds))) for _ in range(n)]
    s = Section("token-mutants", "bounded", bounded=True,
                rule=f"{n} seeded token-level mutants (delete/duplicate/swap/replace/insert/case/white-space/dash-continuation) of "
                     "corpus, catalogue and generated texts; only mutants the default loader accepts count; " + chk,
                bounds={"mutants": n, "seed": ctx.seed})
    run_text_section(ctx, s, muts, 15)
    secs.append(s)
    return secs
