"""Shared generator and independent oracle for the text-side bounded drivers (C03, C04, C08).

Nothing in this module calls the library's encoder or decoder to obtain an expected value.
The expected tree of a generated label is the denotation of its *abstract* document, computed
here from the token-level grammar of /verif/DESIGN.md Appendix B and the per-dialect lexical
rules of the PVL / ODL specifications:

  abstract document  ::= list of statements, optional END, optional ignored trailer
  statement          ::= ("assign", name, node, delim)
                       | ("block", begin_kw, name, [statement], end_kw, end_name, delim_b, delim_e)
  node (spelled)     ::= (kind, text)                for simple values: kw int based real q u date time dt
                       | ("seq", [node]) | ("set", [node]) | ("units", node, "<...>")
                       | ("missing",)               (C08 only: the value was removed)

`tokens(doc)` flattens a document into (text, kind) tokens, `gap_class` says where the grammar
makes white space optional, `render` lays the tokens out with chosen separators (and records
the line of every '='), `expected(doc, cfg)` is the oracle, `tag(obj)` converts what a loader
returned into the same JSON-able tagged form (exact types), `outcome(cfg, text)` runs the
real loader.

Tagged form
  ["none"] ["bool",b] ["int",n] ["real",repr] ["str",s] ["empty",lineno]
  ["date",y,m,d] ["time",h,m,s,us,zone] ["datetime",y,mo,d,h,mi,s,us,zone]   zone: "utc" | None | "offset:<s>"
  ["seq",[...]] ["set","frozenset"|"set",[... sorted ...]] ["qty",value,units]
  ["module"|"group"|"object",[[name,value],...]]
"""
import datetime
import json
import warnings

CONFIGS = ("PVL", "ODL", "PDS3", "ISIS", "default")
ODL_FAMILY = ("ODL", "PDS3", "ISIS", "default")      # decoders that fold white space in quoted strings
STRICT_ODL = ("ODL", "PDS3")
HASH_COMMENTS = ("ISIS", "default")
WS = " \t\n\r\v\f"
FE = "\n\r\v\f"

# ---------------------------------------------------------------------------------------
# the real loaders
# ---------------------------------------------------------------------------------------
_PARSERS = {}


def parser_for(cfg):
    """One parser object per process and configuration (the five dialect rows)."""
    if cfg in _PARSERS:
        return _PARSERS[cfg]
    from pvl.parser import PVLParser, ODLParser, OmniParser
    from pvl.grammar import PVLGrammar, ODLGrammar, PDSGrammar, ISISGrammar
    from pvl.decoder import PVLDecoder, ODLDecoder, PDSLabelDecoder, OmniDecoder
    if cfg == "PVL":
        g = PVLGrammar()
        p = PVLParser(grammar=g, decoder=PVLDecoder(grammar=g))
    elif cfg == "ODL":
        g = ODLGrammar()
        p = ODLParser(grammar=g, decoder=ODLDecoder(grammar=g))
    elif cfg == "PDS3":
        g = PDSGrammar()
        p = ODLParser(grammar=g, decoder=PDSLabelDecoder(grammar=g))
    elif cfg == "ISIS":
        g = ISISGrammar()
        p = OmniParser(grammar=g, decoder=OmniDecoder(grammar=g))
    elif cfg == "default":
        p = None
    else:
        raise KeyError(cfg)
    _PARSERS[cfg] = p
    return p


def load(cfg, text):
    import pvl
    with warnings.catch_warnings():
        warnings.simplefilter("ignore")
        if cfg == "default":
            return pvl.loads(text)
        return pvl.loads(text, parser=parser_for(cfg))


def outcome(cfg, text):
    """-> ("ok", tagged module, errors list) | ("raise", "LexerError"|"ParseError", msg) | ("crash", type, msg)"""
    from pvl.exceptions import LexerError, ParseError
    try:
        m = load(cfg, text)
    except LexerError as e:
        return ("raise", "LexerError", _msg(e))
    except ParseError as e:
        return ("raise", "ParseError", _msg(e))
    except RecursionError:
        return ("crash", "RecursionError", "")
    except Exception as e:          # not allowed by any of the three properties: reported by the caller
        return ("crash", type(e).__name__, _msg(e))
    errs = getattr(m, "errors", None)
    return ("ok", tag(m), list(errs) if errs is not None else None)


def _msg(e):
    try:
        a = e.args
        s = a[1] if len(a) > 1 and isinstance(a[1], str) else str(e)
    except Exception:
        s = repr(e)
    return s[:160]


# ---------------------------------------------------------------------------------------
# what a loader returned -> tagged form (exact types)
# ---------------------------------------------------------------------------------------
def _zone(x):
    if x.tzinfo is None:
        return None
    off = x.utcoffset() if not isinstance(x, datetime.time) else x.tzinfo.utcoffset(None)
    if off is None:
        return "tz-without-offset"
    return "utc" if off == datetime.timedelta(0) else f"offset:{int(off.total_seconds())}"


def _skey(t):
    return json.dumps(t, sort_keys=True)


def tag(x):
    from pvl.collections import PVLModule, PVLGroup, PVLObject, Quantity
    from pvl.parser import EmptyValueAtLine
    if x is None:
        return ["none"]
    t = type(x)
    if t is bool:
        return ["bool", x]
    if t is int:
        return ["int", x]
    if t is float:
        return ["real", repr(x)]
    if t is EmptyValueAtLine:
        return ["empty", x.lineno]
    if t is str:
        return ["str", x]
    if t is datetime.datetime:
        return ["datetime", x.year, x.month, x.day, x.hour, x.minute, x.second, x.microsecond, _zone(x)]
    if t is datetime.date:
        return ["date", x.year, x.month, x.day]
    if t is datetime.time:
        return ["time", x.hour, x.minute, x.second, x.microsecond, _zone(x)]
    if t is list:
        return ["seq", [tag(e) for e in x]]
    if t is frozenset or t is set:
        return ["set", t.__name__, sorted((tag(e) for e in x), key=_skey)]
    if t is Quantity:
        return ["qty", tag(x.value), x.units if type(x.units) is str else ["?", type(x.units).__name__, repr(x.units)]]
    for cls, nm in ((PVLModule, "module"), (PVLGroup, "group"), (PVLObject, "object")):
        if t is cls:
            return [nm, [[k if type(k) is str else ["?", type(k).__name__, repr(k)], tag(v)] for k, v in x.items()]]
    return ["?", t.__name__, repr(x)[:80]]


# ---------------------------------------------------------------------------------------
# the oracle: denotation of spelled nodes, per configuration
# ---------------------------------------------------------------------------------------
def fold_text(s):
    """ODL text-string rule: '-' + line end + leading white space of the next line disappears;
    every run of white space becomes one space; leading and trailing white space is dropped."""
    out = []
    i = 0
    n = len(s)
    while i < n:
        c = s[i]
        if c == "-" and i + 1 < n and s[i + 1] in FE:
            i += 2
            while i < n and s[i] in WS:
                i += 1
            continue
        out.append(c)
        i += 1
    words = []
    cur = []
    for c in out:
        if c in WS:
            if cur:
                words.append("".join(cur))
                cur = []
        else:
            cur.append(c)
    if cur:
        words.append("".join(cur))
    return " ".join(words)


_DIGITS = "0123456789abcdefghijklmnopqrstuvwxyz"


def based_value(text):
    """[sign]radix#[sign]digits#  -> int (positional notation done by hand)"""
    sign = 1
    i = 0
    if text[i] in "+-":
        if text[i] == "-":
            sign = -1
        i += 1
    j = text.index("#", i)
    radix = int(text[i:j])
    body = text[j + 1:-1]
    assert text.endswith("#")
    if body[0] in "+-":
        if body[0] == "-":
            sign = -sign
        body = body[1:]
    v = 0
    for ch in body:
        d = _DIGITS.index(ch.lower())
        assert d < radix, text
        v = v * radix + d
    return sign * v


_CUM = (0, 31, 59, 90, 120, 151, 181, 212, 243, 273, 304, 334, 365)


def _leap(y):
    return y % 4 == 0 and (y % 100 != 0 or y % 400 == 0)


def date_value(text):
    p = text.split("-")
    y = int(p[0])
    if len(p) == 3:
        return [y, int(p[1]), int(p[2])]
    doy = int(p[1])
    for m in range(1, 13):
        end = _CUM[m] + (1 if (_leap(y) and m >= 2) else 0)
        start = _CUM[m - 1] + (1 if (_leap(y) and m - 1 >= 2) else 0)
        if doy <= end:
            return [y, m, doy - start]
    raise AssertionError(text)


def time_value(text, cfg):
    zone = None if cfg == "ODL" else "utc"       # unmarked: UTC in PVL, PDS3, ISIS row, default; local in ODL
    if text.endswith("Z"):
        zone = "utc"
        text = text[:-1]
    p = text.split(":")
    h, mi = int(p[0]), int(p[1])
    s = us = 0
    if len(p) == 3:
        if "." in p[2]:
            a, b = p[2].split(".")
            s = int(a)
            us = int((b + "000000")[:6])
        else:
            s = int(p[2])
    return [h, mi, s, us, zone]


def denote(node, cfg):
    k = node[0]
    if k == "kw":
        f = node[1].casefold()
        return {"null": ["none"], "true": ["bool", True], "false": ["bool", False]}[f]
    if k == "int":
        return ["int", int(node[1])]
    if k == "based":
        return ["int", based_value(node[1])]
    if k == "real":
        return ["real", repr(float(node[1]))]
    if k == "q":
        body = node[1][1:-1]
        return ["str", fold_text(body) if cfg in ODL_FAMILY else body]
    if k == "u":
        return ["str", node[1]]
    if k == "date":
        return ["date"] + date_value(node[1])
    if k == "time":
        return ["time"] + time_value(node[1], cfg)
    if k == "dt":
        d, t = node[1].split("T")
        return ["datetime"] + date_value(d) + time_value(t, cfg)
    if k == "seq":
        return ["seq", [denote(e, cfg) for e in node[1]]]
    if k == "set":
        els = {}
        for e in node[1]:
            d = denote(e, cfg)
            els[_skey(d)] = d
        return ["set", "set" if cfg in STRICT_ODL else "frozenset", [els[s] for s in sorted(els)]]
    if k == "units":
        u = node[2][1:-1].strip(WS)
        return ["qty", denote(node[1], cfg), u]
    if k == "missing":
        return ["empty", node[1] if len(node) > 1 else None]
    raise KeyError(k)


def begin_class(kw):
    return "group" if kw.casefold().endswith("group") else "object"


def expected_items(stmts, cfg):
    out = []
    for st in stmts:
        if st[0] == "assign":
            out.append([st[1], denote(st[2], cfg)])
        else:
            out.append([st[2], [begin_class(st[1]), expected_items(st[3], cfg)]])
    return out


def expected(doc, cfg):
    return ["module", expected_items(doc["stmts"], cfg)]


# ---------------------------------------------------------------------------------------
# documents -> tokens -> text
# ---------------------------------------------------------------------------------------
SIMPLE = ("kw", "int", "based", "real", "q", "u", "date", "time", "dt")
OPTIONAL_AROUND = ("eq", "comma", "lpar", "rpar", "lbrace", "rbrace", "semi")


def A(name, node, delim=False):
    return ("assign", name, node, delim)


def B(begin, name, stmts, end=None, end_name=False, delim_b=False, delim_e=False):
    if end is None:
        end = "END_GROUP" if begin_class(begin) == "group" else "END_OBJECT"
    return ("block", begin, name, list(stmts), end, end_name, delim_b, delim_e)


def D(stmts, end=None, end_delim=False, trailer=None):
    return {"stmts": list(stmts), "end": end, "end_delim": end_delim, "trailer": trailer}


def node_tokens(node, out, sub=None):
    k = node[0]
    if k in SIMPLE:
        out.append((node[1], sub or k))
    elif k == "seq" or k == "set":
        o, c = (("(", "lpar"), (")", "rpar")) if k == "seq" else (("{", "lbrace"), ("}", "rbrace"))
        out.append(o)
        for i, e in enumerate(node[1]):
            if i:
                out.append((",", "comma"))
            node_tokens(e, out)
        out.append(c)
    elif k == "units":
        node_tokens(node[1], out)
        out.append((node[2], "units"))
    elif k == "missing":
        pass
    else:
        raise KeyError(k)


def stmt_tokens(stmts, out):
    for st in stmts:
        if st[0] == "assign":
            out.append((st[1], "name"))
            out.append(("=", "eq"))
            node_tokens(st[2], out)
            if st[3]:
                out.append((";", "semi"))
        else:
            _, begin, name, body, end, end_name, db, de = st
            out.append((begin, "begin"))
            out.append(("=", "eq"))
            out.append((name, "bname"))
            if db:
                out.append((";", "semi"))
            stmt_tokens(body, out)
            out.append((end, "end"))
            if end_name:
                out.append(("=", "eq"))
                out.append((name, "bname"))
            if de:
                out.append((";", "semi"))


def tokens(doc):
    out = []
    stmt_tokens(doc["stmts"], out)
    if doc.get("end"):
        out.append((doc["end"], "END"))
        if doc.get("end_delim"):
            out.append((";", "semi"))
    return out


def gap_class(left, right):
    """'opt' where the grammar makes white space optional: around '=', ',', brackets, delimiters, before units."""
    if left is None:
        return "lead"
    if left in OPTIONAL_AROUND or right in OPTIONAL_AROUND or right == "units":
        return "opt"
    return "req"


def gaps(toks):
    return [gap_class(toks[i - 1][1] if i else None, toks[i][1]) for i in range(len(toks))]


def render(toks, seps, trailer=None, tail=""):
    """seps[i] is written before token i (seps[0] is the lead).  -> (text, [1-based line of every '=' token])"""
    parts = []
    eq_lines = []
    line = 1
    for (txt, kind), sep in zip(toks, seps):
        parts.append(sep)
        line += sep.count("\n")
        if kind == "eq":
            eq_lines.append(line)
        parts.append(txt)
        line += txt.count("\n")
    parts.append(tail)
    if trailer is not None:
        parts.append(trailer)
    return "".join(parts), eq_lines


def spaced(doc, sep=" ", lead="", tail=""):
    toks = tokens(doc)
    text, _ = render(toks, [lead] + [sep] * (len(toks) - 1), doc.get("trailer"), tail)
    return text


def tight(doc, req=" ", lead="", tail=""):
    toks = tokens(doc)
    g = gaps(toks)
    text, _ = render(toks, [lead if c == "lead" else ("" if c == "opt" else req) for c in g], doc.get("trailer"), tail)
    return text


# ---------------------------------------------------------------------------------------
# separators
# ---------------------------------------------------------------------------------------
WS_NAMES = {" ": "sp", "\t": "tab", "\n": "nl", "\r": "cr", "\v": "vt", "\f": "ff"}
COMMENTS = {"/* c */": "comment", "/**/": "comment-empty", "/* = ; END */": "comment-reserved"}
HASH = "# c\n"
# further comment spellings (used one at a time, never in mixtures)
EXOTIC_BLOCK = {"/* \"q' */": "comment-quotes", "/* l1\nl2 */": "comment-newline", "/*/ c */": "comment-slash-first",
                "/* c **/": "comment-star-last", "/* # c */": "comment-hash-inside", "/* <u> (1, {2}) */": "comment-brackets",
                "/* c1 *//* c2 */": "comment-twice-adjacent", "/* c /*/": "comment-slash-last", "/* a /* b */": "comment-open-inside",
                "/*/*/": "comment-only-slash", "/* c / * d */": "comment-spaced-delims"}
EXOTIC_HASH = {"#\n": "hash-empty", "#c\n": "hash-nospace", "# it's \"q\n": "hash-quotes", "# /* c\n": "hash-block-open",
               "# c */ d\n": "hash-block-close", "# = ; END\n": "hash-reserved", "# c\r\n": "hash-crlf", "## c #\n": "hash-hashes",
               "# a/b\n": "hash-slash"}
HASH_AT_EOF = {"# c": "hash-no-newline-at-end-of-text"}


def sep_elements(cfg):
    els = list(WS_NAMES) + list(COMMENTS)
    if cfg in HASH_COMMENTS:
        els.append(HASH)
    return els


def join_sep(elements):
    """Concatenate separator elements; a '#' comment is set off from what precedes it by a space."""
    s = ""
    for e in elements:
        if e.startswith("#") and (s == "" or s[-1] not in WS):
            s += " "
        s += e
    return s


def sep_name(elements):
    if not elements:
        return "empty"
    return "+".join(WS_NAMES.get(e) or COMMENTS.get(e) or EXOTIC_BLOCK.get(e) or EXOTIC_HASH.get(e) or HASH_AT_EOF.get(e)
                    or ("hash" if e == HASH else "x") for e in elements)


def random_sep(rng, cfg, cls, maxlen=3):
    els = sep_elements(cfg)
    lo = 0 if cls in ("opt", "lead") else 1
    n = rng.randint(lo, maxlen)
    return join_sep([rng.choice(els) for _ in range(n)])


# ---------------------------------------------------------------------------------------
# spelling alphabets (label, node); the label names the spelling class for violation keys
# ---------------------------------------------------------------------------------------
def based_atoms(cfg):
    out = []
    digits = {2: "101", 3: "12", 4: "123", 5: "40", 6: "51", 7: "66", 8: "177", 9: "80", 10: "99", 11: "a1",
              12: "B0", 13: "c", 14: "Dd", 15: "e0", 16: "FfA0"}
    if cfg in ("PVL", "ISIS"):      # ISISGrammar inherits the PVL based-integer syntax: [sign]radix#digits#, radix 2, 8, 16
        for r in (2, 8, 16):
            for sg in ("", "+", "-"):
                out.append((f"based-int:radix-{r}:sign-before{sg or '-none'}", ("based", f"{sg}{r}#{digits[r]}#")))
        out.append(("based-int:radix-16:leading-zeros", ("based", "16#00ff#")))
    elif cfg in STRICT_ODL:
        for r in range(2, 17):
            out.append((f"based-int:radix-{r}", ("based", f"{r}#{digits[r]}#")))
        for r in (2, 10, 16):
            for sg in ("+", "-"):
                out.append((f"based-int:radix-{r}:sign-after{sg}", ("based", f"{r}#{sg}{digits[r]}#")))
    else:
        for r in range(2, 17):
            out.append((f"based-int:radix-{r}", ("based", f"{r}#{digits[r]}#")))
        for r in (2, 7, 16):
            for sg in ("+", "-"):
                out.append((f"based-int:radix-{r}:sign-after{sg}", ("based", f"{r}#{sg}{digits[r]}#")))
                out.append((f"based-int:radix-{r}:sign-before{sg}", ("based", f"{sg}{r}#{digits[r]}#")))
    return out


def number_atoms(cfg):
    out = []
    for t in ("0", "7", "42", "007", "+5", "-5", "+0", "-0", "123456789012345678901234567890"):
        lab = "int:" + ("plus" if t[0] == "+" else "minus" if t[0] == "-" else "plain")
        if t.lstrip("+-").startswith("0") and len(t.lstrip("+-")) > 1:
            lab += ":leading-zeros"
        if len(t) > 20:
            lab += ":big"
        out.append((lab, ("int", t)))
    for m, ml in (("1.5", "d.d"), ("1.", "d."), (".5", ".d"), ("0.0", "d.d"), ("10", "d")):
        for sg, sl in (("", ""), ("+", ":plus"), ("-", ":minus")):
            if ml != "d":
                out.append((f"real:{ml}{sl}", ("real", sg + m)))
            for ex, el in (("e5", "e"), ("E5", "E"), ("e+5", "e+"), ("E-5", "E-"), ("e05", "e0")):
                if sg == "+" and el not in ("e", "e+"):
                    continue
                if sg == "-" and el not in ("E", "E-"):
                    continue
                out.append((f"real:{ml}{sl}:exp-{el}", ("real", sg + m + ex)))
    out.append(("real:minus-zero", ("real", "-0.0")))
    out.append(("real:long-fraction", ("real", "3.14159265358979323846")))
    out.append(("real:big-exp", ("real", "1.0e308")))
    return out


def quoted_atoms(cfg):
    bodies = [
        ("empty", ""), ("word", "abc"), ("spaces", "two words"), ("other-quote", None),
        ("reserved", "&<>{},[]=!#()%+;~|"), ("comment-text", "/* not a comment */"), ("equals", "a = b"),
        ("hash", "# not a comment"), ("end-keyword", "END"), ("block-text", "GROUP = x END_GROUP"),
        ("number-text", "123"), ("null-text", "NULL"), ("units-text", "5 <m>"), ("semicolon", "a;b"),
        ("lead-trail-space", "  padded  "), ("double-space", "a  b"), ("tab", "a\tb"), ("newline", "line1\nline2"),
        ("crlf-indent", "line1\r\n    line2"), ("dash-continuation", "conti-\n   nued"),
        ("dash-not-continuation", "a - b"), ("dash-end", "ab-"), ("vt-ff", "a\vb\fc"), ("only-space", " "),
        ("unclosed-comment", "/* open"), ("slash-star", "*/"), ("backslash", "C:\\dir\\n"), ("latin1", "caf\u00e9"),
    ]
    # dash line-continuation with every line-end kind and 0..3 spacing characters of indentation; folding of every
    # format effector between words (ODL-family decoders: continuation removed / one space; PVL: text kept as written)
    le_names = (("\n", "nl"), ("\r\n", "crlf"), ("\r", "cr"), ("\f", "ff"), ("\v", "vt"))
    for le, ln in le_names:
        for ind, iname in (("", "0"), (" ", "1sp"), ("\t", "1tab"), ("   ", "3sp"), (" \t ", "sp-tab-sp")):
            bodies.append((f"dash-continuation:{ln}:indent-{iname}", f"tem-{le}{ind}perature"))
        bodies.append((f"dash-continuation:{ln}:twice", f"a-{le}  b-{le}c d"))
        bodies.append((f"fold:{ln}", f"two{le}words"))
        bodies.append((f"fold:{ln}:spaced", f"two {le} words"))
        bodies.append((f"fold:{ln}:doubled-indented", f"two{le}{le}\t  words"))
        bodies.append((f"fold:{ln}:leading-trailing", f"{le}two words{le}"))
    out = []
    for q, ql, other in (('"', "dq", "'"), ("'", "sq", '"')):
        for lab, body in bodies:
            if ql == "sq" and lab.startswith(("dash-continuation:", "fold:")) and not lab.endswith(("indent-3sp", "fold:crlf", ":twice")):
                continue                       # the second quote character only for a few of the line-end bodies
            if body is None:
                body = f"it{other}s {other}x{other}"
            if lab == "latin1" and cfg in ("ODL", "PDS3"):
                continue                       # ODL character set is ASCII
            out.append((f"qstr:{ql}:{lab}", ("q", q + body + q)))
    return out


def unquoted_atoms(cfg):
    out = []
    idents = [("identifier", "abc"), ("identifier", "ABC_def"), ("identifier", "x1"), ("identifier", "a_1_b"),
              ("identifier", "Z"), ("identifier", "e5"), ("identifier", "E"), ("identifier", "T"), ("identifier", "Z9"),
              ("inf", "inf"), ("nan", "nan"), ("nan-mixed", "NaN"), ("infinity", "Infinity"),
              ("keyword-prefix", "NULLS"), ("keyword-prefix", "TRUEISH"), ("keyword-prefix", "ENDING"),
              ("keyword-prefix", "GROUPS"), ("keyword-prefix", "END_GROUPS"), ("keyword-prefix", "OBJECT_1"),
              ("keyword-prefix", "BEGIN"), ("keyword-prefix", "END_1")]
    for lab, t in idents:
        out.append((f"ustr:{lab}", ("u", t)))
    if cfg not in STRICT_ODL:
        free = [("dots", "a.b.c"), ("dash", "x-y"), ("colon", "a:b"), ("slash", "m/s"), ("star", "a*b"),
                ("caret", "^PTR"), ("dollar", "$x"), ("at", "user@host"), ("question", "what?"), ("backslash", "a\\b"),
                ("digit-first", "1abc"), ("digits-underscore", "1_0"), ("hex-like", "0x10"), ("version", "1.2.3"),
                ("minus-inf", "-inf"), ("e-only", "1e"), ("path", "/usr/lib"), ("dot-first", ".hidden"),
                ("backtick", "`q`"), ("underscore-first", "_x"), ("underscore-last", "x_"),
                ("double-minus", "--x"), ("latin1", "caf\u00e9")]
        for lab, t in free:
            out.append((f"ustr:{lab}", ("u", t)))
        if cfg in ("ISIS", "default"):
            out.append(("ustr:plus-inside", ("u", "a+b")))
            out.append(("ustr:plus-last", ("u", "C+")))
        if cfg == "default":
            out.append(("ustr:unicode-digits", ("u", "\u0661\u0662")))
            out.append(("ustr:non-latin1", ("u", "\u03b1\u03b2")))
    return out


def keyword_atoms(cfg):
    out = []
    for t in ("NULL", "null", "Null", "nUlL", "TRUE", "true", "True", "tRuE", "FALSE", "false", "False", "fAlSe"):
        case = "upper" if t.isupper() else "lower" if t.islower() else "title" if t.istitle() else "mixed"
        out.append((f"keyword:{t.lower()}:{case}", ("kw", t)))
    return out


def datetime_atoms(cfg):
    out = []
    dates = [("ymd", "2001-01-01"), ("ymd", "1999-12-31"), ("ymd-leap", "2000-02-29"), ("doy", "2001-001"),
             ("doy", "2001-365"), ("doy-leap", "2000-366"), ("doy-leap-march", "2000-061"), ("doy", "2001-060"),
             ("ymd-early", "1000-06-15")]
    for lab, t in dates:
        out.append((f"date:{lab}", ("date", t)))
    fr = ["", ".5", ".123"] + ([] if cfg == "PDS3" else [".000001", ".123456"])
    times = [("hm", "12:34"), ("hm", "00:00"), ("hms", "23:59:59"), ("hms", "01:02:03")]
    for lab, t in times:
        for z in ("", "Z"):
            out.append((f"time:{lab}{':Z' if z else ''}", ("time", t + z)))
    for f in fr[1:]:
        for z in ("", "Z"):
            out.append((f"time:hms-frac{len(f) - 1}{':Z' if z else ''}", ("time", "01:02:03" + f + z)))
    for dl, d in (("ymd", "2001-01-01"), ("doy", "2000-366")):
        for tl, t in (("hm", "12:34"), ("hms", "23:59:59"), ("hms-frac", "01:02:03.5")):
            for z in ("", "Z"):
                out.append((f"datetime:{dl}T{tl}{':Z' if z else ''}", ("dt", d + "T" + t + z)))
    return out


def atoms(cfg):
    return (keyword_atoms(cfg) + number_atoms(cfg) + based_atoms(cfg) + quoted_atoms(cfg) + unquoted_atoms(cfg)
            + datetime_atoms(cfg))


def core_atoms(cfg):
    """One or two spellings per lexical class: used for the pairwise (two-statement) products."""
    want = ["keyword:null:title", "keyword:true:lower", "int:plain", "int:minus", "int:plus", "real:d.d", "real:.d:minus",
            "real:d.:exp-e+", "real:d:exp-E", "qstr:dq:spaces", "qstr:sq:other-quote", "qstr:dq:comment-text",
            "qstr:dq:empty", "qstr:sq:equals", "ustr:identifier", "ustr:inf", "date:ymd", "date:doy",
            "time:hm", "time:hms:Z", "time:hms-frac1", "datetime:ymdThms", "datetime:doyThm:Z"]
    if cfg == "PVL":
        want += ["based-int:radix-16:sign-before-none", "based-int:radix-2:sign-before-", "ustr:dash", "ustr:slash"]
    elif cfg == "ISIS":
        want += ["based-int:radix-16:sign-before-none", "based-int:radix-2:sign-before-", "ustr:dash", "ustr:slash",
                 "ustr:plus-inside"]
    elif cfg in STRICT_ODL:
        want += ["based-int:radix-16", "based-int:radix-2:sign-after-"]
    else:
        want += ["based-int:radix-16", "based-int:radix-2:sign-after-", "based-int:radix-2:sign-before-", "ustr:dash",
                 "ustr:slash", "ustr:plus-inside"]
    seen = set()
    out = []
    for lab, node in atoms(cfg):
        if lab in want and lab not in seen:
            seen.add(lab)
            out.append((lab, node))
    return out


def is_number(node):
    return node[0] in ("int", "based", "real")


def units_ok(node, cfg):
    """ODL/PDS3: units only after numbers; elsewhere after any value."""
    if node[0] == "units":
        return False
    return is_number(node) if cfg in STRICT_ODL else True


BEGINS = {
    "group": ["GROUP", "group", "Group", "gRoUp", "BEGIN_GROUP", "begin_group", "Begin_Group", "bEgIn_GrOuP"],
    "object": ["OBJECT", "object", "Object", "oBjEcT", "BEGIN_OBJECT", "begin_object", "Begin_Object", "BeGiN_oBjEcT"],
}
ENDS = {
    "group": ["END_GROUP", "end_group", "End_Group", "eNd_GrOuP"],
    "object": ["END_OBJECT", "end_object", "End_Object", "EnD_oBjEcT"],
}
END_WORDS = ["END", "end", "End", "eNd"]
UNITS_STRICT = ["<m>", "< m/s >", "<km/s**2>", "<m*s>", "<\tdeg\t>"]
UNITS = UNITS_STRICT + ["<m s>", "<M.KG-1>", "< a b  c >", "<\nm\n>"]
NAMES = ["a", "b", "A_b", "x1", "LONG_PARAMETER_NAME", "^PTR", "NS:NAME", "a", "b"]


def begins(cfg, cls):
    b = BEGINS[cls]
    return [x for x in b if not x.casefold().startswith("begin_")] if cfg == "ISIS" else list(b)


# ---------------------------------------------------------------------------------------
# seeded random documents
# ---------------------------------------------------------------------------------------
def random_node(rng, cfg, pool, depth, in_set=False, seq_depth=0):
    """A spelled value nested up to `depth`.  ODL/PDS3: sets hold scalars only, sequences nest at most twice."""
    r = rng.random()
    strict = cfg in STRICT_ODL
    if depth > 0 and r < (0.02 if in_set else 0.22) and not (strict and (in_set or seq_depth >= 2)):
        n = rng.choice((0, 1, 1, 2, 2, 3))
        node = ("seq", [random_node(rng, cfg, pool, depth - 1, in_set, seq_depth + 1) for _ in range(n)])
    elif depth > 0 and r < 0.40 and not (strict and (in_set or seq_depth >= 1)):
        n = rng.choice((0, 1, 1, 2, 2, 3))
        node = ("set", [random_node(rng, cfg, pool, depth - 1, True, seq_depth) for _ in range(n)])
    else:
        node = rng.choice(pool)[1]
    if rng.random() < 0.2 and units_ok(node, cfg) and not (strict and in_set):
        node = ("units", node, rng.choice(UNITS_STRICT if strict else UNITS))
    return node


def has_seq_in_set(node, inside=False):
    k = node[0]
    if k == "seq":
        return inside or any(has_seq_in_set(e, inside) for e in node[1])
    if k == "set":
        return any(has_seq_in_set(e, True) for e in node[1])
    if k == "units":
        return has_seq_in_set(node[1], inside)
    return False


def random_stmts(rng, cfg, pool, n, depth, block_depth):
    out = []
    for _ in range(n):
        if block_depth > 0 and rng.random() < 0.3:
            cls = rng.choice(("group", "object"))
            out.append(B(rng.choice(begins(cfg, cls)), rng.choice(NAMES),
                         random_stmts(rng, cfg, pool, rng.randint(0, 3), depth, block_depth - 1),
                         end=rng.choice(ENDS[cls]), end_name=rng.random() < 0.5,
                         delim_b=rng.random() < 0.25, delim_e=rng.random() < 0.25))
        else:
            out.append(A(rng.choice(NAMES), random_node(rng, cfg, pool, depth), delim=rng.random() < 0.3))
    return out


def random_doc(rng, cfg, pool=None, nstmts=(1, 6), depth=3, block_depth=2):
    pool = pool or atoms(cfg)
    stmts = random_stmts(rng, cfg, pool, rng.randint(*nstmts), depth, block_depth)
    r = rng.random()
    if r < 0.4:
        return D(stmts)
    if r < 0.8:
        return D(stmts, end=rng.choice(END_WORDS), end_delim=rng.random() < 0.3)
    return D(stmts, end=rng.choice(END_WORDS), trailer=rng.choice(
        [" trailing junk ( = { \"", "\n\x00\x01\x02binary", "\nz = 9\n", " /* open comment", "\nEND_GROUP = nothing\n"]))


def random_layout(rng, cfg, toks, maxlen=3):
    g = gaps(toks)
    return [random_sep(rng, cfg, c, maxlen) for c in g]


# ---------------------------------------------------------------------------------------
# comparison helpers shared by the drivers
# ---------------------------------------------------------------------------------------
def first_diff(got, want, path="module"):
    """Smallest description of where two tagged trees differ (None if equal)."""
    if got == want:
        return None
    if (isinstance(got, list) and isinstance(want, list) and got and want and got[0] == want[0]
            and got[0] in ("module", "group", "object")):
        a, b = got[1], want[1]
        for i in range(max(len(a), len(b))):
            if i >= len(a):
                return f"{path}[{i}]: statement {b[i][0]!r} is missing"
            if i >= len(b):
                return f"{path}[{i}]: extra statement {a[i][0]!r}"
            if a[i][0] != b[i][0]:
                return f"{path}[{i}]: name {a[i][0]!r}, expected {b[i][0]!r}"
            d = first_diff(a[i][1], b[i][1], f"{path}[{i}]{a[i][0]}")
            if d:
                return d
    if (isinstance(got, list) and isinstance(want, list) and got and want and got[0] == want[0] == "seq"
            and len(got[1]) == len(want[1])):
        for i, (x, y) in enumerate(zip(got[1], want[1])):
            d = first_diff(x, y, f"{path}({i})")
            if d:
                return d
    if isinstance(got, list) and isinstance(want, list) and got and want and got[0] == want[0] == "qty":
        d = first_diff(got[1], want[1], path + ".value")
        if d:
            return d
    return f"{path}: got {json.dumps(got, ensure_ascii=True)[:160]}, expected {json.dumps(want, ensure_ascii=True)[:160]}"


def show(text, n=120):
    r = repr(text)
    return r if len(r) <= n else r[:n - 3] + "..."
