"""Bounded driver for C09 (never counted as proved): file, stream and string entry points agree;
nothing after END matters.

Sections
  routes        labels (generated ASCII, generated UTF-8, corpus) x trailing families x separators x the
                ways of handing the data to load()/loadu()/loads(); every route must give the module of
                the label alone (deep equality with types and `errors`).
  end-tokens    a counting lexer handed to the parser: after the END token has been yielded (and not
                returned with send()) no further next() may reach the lexer; no token positioned after
                END may be produced.
  prompt        10^5 / 10^6 non-white-space valid-UTF-8 bytes after END must not cost more than a
                linear scan (measured in the parent, serially).
  dump          dump() to str path / Path / text streams / binary streams writes exactly dumps() and
                returns its length, for every encoder; raises the same exception type when dumps raises.

The oracle is relational by the property statement: the reference is pvl.loads(<label text alone>)
/ pvl.dumps(<same module>, <same options>).
"""
import binascii
import codecs
import hashlib
import io
import locale
import multiprocessing as mp
import os
import pathlib
import random
import shutil
import tempfile
import time
import warnings

from ..harness import Section
from . import _entry_labelgen as G

SEPS = ["\n", "\r\n", " ", "\t", ";\n", "\n\n"]
TAILS = ["none", "rand1k", "nul", "badutf8", "truncutf8", "morepvl", "utf8text"]
LOAD_ROUTES = ["load-str-path", "load-Path", "loadu-file-url", "load-text-stream", "load-binary-stream",
               "load-BytesIO", "load-StringIO", "loads-str", "loads-bytes"]
STR_ROUTES = ("load-StringIO", "loads-str")
PROMPT_LIMIT_S = {100000: 5.0, 1000000: 30.0}


# ---------------------------------------------------------------------------------------
# deep signature: structure, exact types, errors
# ---------------------------------------------------------------------------------------
def sig(x):
    import pvl.collections as pc
    if isinstance(x, pc.MutableMappingSequence):
        return (type(x).__name__, [(k, sig(v)) for k, v in x.items()])
    if isinstance(x, tuple) and hasattr(x, "_fields"):
        return (type(x).__name__, [sig(v) for v in x])
    if isinstance(x, list):
        return ("list", [sig(v) for v in x])
    if isinstance(x, (set, frozenset)):
        return (type(x).__name__, sorted((sig(v) for v in x), key=repr))
    return (type(x).__name__, repr(x))


def modsig(m):
    return (sig(m), list(getattr(m, "errors", ["<no errors attribute>"])))


def outcome(fn):
    """-> ('ok', signature) | ('raise', ExcName, message)"""
    try:
        with warnings.catch_warnings():
            warnings.simplefilter("ignore")
            m = fn()
    except Exception as e:  # the comparison below decides whether this is allowed
        return ("raise", type(e).__name__, str(e)[:160])
    return ("ok", modsig(m))


# ---------------------------------------------------------------------------------------
# tails
# ---------------------------------------------------------------------------------------
def make_tail(family, seed):
    rng = random.Random(seed)
    if family == "none":
        return b""
    if family == "rand1k":
        b = bytes(rng.randrange(256) for _ in range(1024))
        # make sure it is not accidentally decodable
        return b[:512] + b"\xff\xfe\x80" + b[515:]
    if family == "nul":
        return b"\x00" * rng.choice([1, 7, 300])
    if family == "badutf8":
        return rng.choice([b"\xff", b"\xc3", b"\xe2\x82", b"\x80abc", b"\xf0\x9f\x98 x = 1\n"]) + b"tail"
    if family == "truncutf8":
        # valid UTF-8 that stops part-way through its last multi-byte character (end of file inside a character)
        return rng.choice([b"\xc3", b"caf\xc3", "prix 5 \u20ac".encode("utf-8")[:-1], b"\xe2\x82", b"\xf0\x9f\x98",
                           b"\xf0\x9f", "donn\u00e9es \U0001f600".encode("utf-8")[:-2],
                           ("\u00e9" * 40).encode("utf-8")[:-1], b"x = 1\n\xe2"])
    if family == "morepvl":
        return rng.choice([b"x = 1", b"x = 1\nEND\n", b"GROUP = g\n y = 2\nEND_GROUP\n", b"= 3\n", b"zzz = (1,\n"])
    if family == "utf8text":
        return rng.choice(["données après la fin € \U0001f600\n", "plain ascii words after the end\n",
                           "é" * 50]).encode("utf-8")
    raise ValueError(family)


def long_run(n, kind):
    if kind == "ascii":
        return b"A" * n
    unit = "é€\U0001f600x".encode("utf-8")   # 2+3+4+1 bytes, no white space
    return (unit * (n // len(unit) + 1))[:n // len(unit) * len(unit)]


# ---------------------------------------------------------------------------------------
# routes
# ---------------------------------------------------------------------------------------
def route_fns(path, data, text, kw=dict):
    """kw: factory of extra keyword arguments (fresh parser objects per call)"""
    import pvl

    def text_stream():
        with open(path, "r", encoding="utf-8") as f:
            return pvl.load(f, **kw())

    def binary_stream():
        with open(path, "rb") as f:
            return pvl.load(f, **kw())

    return {
        "load-str-path": lambda: pvl.load(path, **kw()),
        "load-Path": lambda: pvl.load(pathlib.Path(path), **kw()),
        "loadu-file-url": lambda: pvl.loadu(pathlib.Path(path).as_uri(), **kw()),
        "load-text-stream": text_stream,
        "load-binary-stream": binary_stream,
        "load-BytesIO": lambda: pvl.load(io.BytesIO(data), **kw()),
        "load-StringIO": lambda: pvl.load(io.StringIO(text), **kw()),
        "loads-str": lambda: pvl.loads(text, **kw()),
        "loads-bytes": lambda: pvl.loads(data, **kw()),
    }


def full_text(label_text, sep, tail):
    """The str that 'is' label+sep+tail: its UTF-8 decoding, else the tail taken as latin-1 characters."""
    try:
        return label_text + sep + tail.decode("utf-8"), True
    except UnicodeDecodeError:
        return label_text + sep + tail.decode("latin-1"), False


def classify(got, ref):
    if got == ref:
        return None
    if got[0] == "raise":
        return "raises-" + got[1]
    if ref[0] == "raise":
        return "returns-where-reference-raises-" + ref[1]
    if got[1][0][1] == [] and ref[1][0][1] != []:
        return "differs-empty-module"
    if got[1][0] == ref[1][0]:
        return "differs-errors-attribute"
    return "differs"


def check_label_routes(tmpdir, label_text, kind, seed, sep_count, tails, none_seps=None):
    """-> (evaluations, distinct keys, failures[list of dict])"""
    import pvl
    rng = random.Random(seed)
    ref = outcome(lambda: pvl.loads(label_text))
    path = os.path.join(tmpdir, "label.lbl")
    nonascii = any(ord(c) > 127 for c in label_text)
    fails, n, distinct = [], 0, set()
    lab_id = hashlib.sha1(label_text.encode("utf-8", "surrogateescape")).hexdigest()[:10]
    has_end = not kind.startswith("corpus-noend")
    for family in tails:
        if not has_end:
            # no END statement in this text: nothing can be appended, the routes must still agree
            if family != "none":
                continue
            seps = [""]
        elif family == "none":
            seps = [""] + (SEPS if none_seps is None else none_seps)
        else:
            if ref[0] != "ok":
                continue
            others = SEPS[1:]
            seps = ["\n"] + (others if sep_count >= len(others) else rng.sample(others, sep_count))
        base_fail = set()
        for sep in seps:
            tail = make_tail(family, rng.randrange(1 << 30))
            data = label_text.encode("utf-8") + sep.encode() + tail
            text, decodable = full_text(label_text, sep, tail)
            with open(path, "wb") as fh:
                fh.write(data)
            for route, fn in route_fns(path, data, text).items():
                got = outcome(fn)
                n += 1
                distinct.add((lab_id, family, sep, route))
                c = classify(got, ref)
                if c is None:
                    continue
                s = (route, family, c)
                if sep in ("", "\n"):
                    base_fail.add(s)
                key = f"C09:{route}:{family}:{c}"
                if s not in base_fail:
                    key += f":sep={sep!r}"
                if nonascii:
                    key += ":utf8-label"
                fails.append({"key": key, "check": "route", "route": route, "family": family, "sep": sep,
                              "label": label_text, "tail_hex": binascii.hexlify(tail).decode(), "kind": kind,
                              "got": repr(got)[:300], "want": repr(ref)[:300], "decodable": decodable})
    return n, distinct, fails


def routes_worker(args):
    labels, sep_count, tails, corpus_light = args
    tmpdir = tempfile.mkdtemp(prefix="vf_c09_")
    try:
        n, distinct, fails = 0, set(), []
        for (label_text, kind, seed) in labels:
            light = corpus_light and kind.startswith("corpus")
            a, b, c = check_label_routes(tmpdir, label_text, kind, seed, 0 if light else sep_count, tails,
                                         ["\n", ";\n"] if light else None)
            n += a
            distinct |= b
            fails += c
        return n, distinct, _dedupe(fails)
    finally:
        shutil.rmtree(tmpdir, ignore_errors=True)


def _dedupe(fails):
    """Keep, per key, the failure with the smallest label."""
    best = {}
    for f in fails:
        k = f["key"]
        size = len(f.get("label", "")) + len(f.get("tail_hex", "")) // 2
        if k not in best or size < best[k][0]:
            best[k] = (size, f)
    return [v[1] for v in best.values()]


STRICT_LABELS = [
    'a = "one\r\ntwo"\r\nb = 1\r\nEND',
    'a = "one\rtwo"\nEND',
    'a = "one\ntwo"\nEND',
    'a = "tab\there  two spaces"\nEND',
    "a = 'x\r\n\r\ny'\nGROUP = g\n b = \"p\r\nq\"\nEND_GROUP\nEND",
    'a = 1\r\nb = (1, "s\r\nt")\r\nEND',
]


def strict_kw():
    from pvl.parser import PVLParser
    from pvl.decoder import PVLDecoder
    from pvl.grammar import PVLGrammar
    g = PVLGrammar()
    return {"parser": PVLParser(grammar=g, decoder=PVLDecoder(grammar=g))}


# ---------------------------------------------------------------------------------------
# counting lexer
# ---------------------------------------------------------------------------------------
class TokenRun:
    """Generator-protocol wrapper of one pvl.lexer.lexer() run; records every interaction."""

    def __init__(self, inner):
        self.inner = inner
        self.events = []

    def __iter__(self):
        return self

    def __next__(self):
        try:
            t = next(self.inner)
        except StopIteration:
            self.events.append(("next", "<StopIteration>", None))
            raise
        except Exception as e:
            self.events.append(("next", "<raised %s>" % type(e).__name__, None))
            raise
        self.events.append(("next", str(t), getattr(t, "pos", None)))
        return t

    def send(self, value):
        self.events.append(("send", str(value), getattr(value, "pos", None)))
        return self.inner.send(value)

    def throw(self, *args):
        self.events.append(("throw", repr(args)[:80], None))
        with warnings.catch_warnings():
            warnings.simplefilter("ignore")
            return self.inner.throw(*args)

    def close(self):
        return self.inner.close()


class CountingLexer:
    def __init__(self):
        self.runs = []

    def __call__(self, s, g=None, d=None):
        import pvl.lexer
        run = TokenRun(pvl.lexer.lexer(s, g=g, d=d))
        self.runs.append(run)
        return run


def analyse_events(events):
    """-> dict(end_seen, fresh_after_end, beyond_tokens, end_pos, fresh_total)

    A next() is *fresh* when no token returned with send() is waiting to be yielded again."""
    pending = False
    end_pos = None
    fresh_after_end = []
    fresh_total = 0
    max_pos_after = []
    for ev in events:
        if ev[0] == "send":
            pending = True
            continue
        if ev[0] == "throw":
            continue
        _, tok, pos = ev
        if pending:
            pending = False
            continue
        fresh_total += 1
        if end_pos is not None:
            fresh_after_end.append(tok)
            if pos is not None and pos > end_pos:
                max_pos_after.append((tok, pos))
        elif tok.casefold() == "end":
            end_pos = pos
    return {"end_seen": end_pos is not None, "end_pos": end_pos, "fresh_after_end": fresh_after_end,
            "beyond": max_pos_after, "fresh_total": fresh_total}


PARSERS = ["OmniParser", "PVLParser", "ODLParser"]


def make_parser(name, lexer_fn):
    from pvl.parser import PVLParser, ODLParser, OmniParser
    from pvl.decoder import PVLDecoder, ODLDecoder, OmniDecoder
    from pvl.grammar import PVLGrammar, ODLGrammar, OmniGrammar
    if name == "OmniParser":
        return OmniParser(lexer_fn=lexer_fn)
    if name == "PVLParser":
        g = PVLGrammar()
        return PVLParser(grammar=g, decoder=PVLDecoder(grammar=g), lexer_fn=lexer_fn)
    g = ODLGrammar()
    return ODLParser(grammar=g, decoder=ODLDecoder(grammar=g), lexer_fn=lexer_fn)


def check_end_tokens(tmpdir, label_text, kind, seed, parsers, sep_count, generated):
    import pvl
    rng = random.Random(seed)
    path = os.path.join(tmpdir, "tok.lbl")
    fails, n, distinct = [], 0, set()
    lab_id = hashlib.sha1(label_text.encode("utf-8", "surrogateescape")).hexdigest()[:10]
    for pname in parsers:
        ref = outcome(lambda: pvl.loads(label_text, parser=make_parser(pname, None)))
        if ref[0] != "ok" or kind.startswith("corpus-noend"):
            continue
        for family in TAILS:
            if family == "none":
                seps = ["", "\n"]
            else:
                seps = ["\n"] + rng.sample(SEPS[1:], min(sep_count, len(SEPS) - 1))
            for sep in seps:
                tail = make_tail(family, rng.randrange(1 << 30))
                data = label_text.encode("utf-8") + sep.encode() + tail
                with open(path, "wb") as fh:
                    fh.write(data)
                lex = CountingLexer()
                got = outcome(lambda: pvl.load(path, parser=make_parser(pname, lex)))
                n += 1
                distinct.add((lab_id, pname, family, sep))
                rec = {"check": "end-tokens", "parser": pname, "family": family, "sep": sep, "label": label_text,
                       "tail_hex": binascii.hexlify(tail).decode(), "kind": kind}
                if got != ref:
                    c = classify(got, ref)
                    fails.append(dict(rec, key=f"C09:end-tokens:{pname}:{family}:{c}",
                                      got=repr(got)[:300], want=repr(ref)[:300]))
                    continue
                if len(lex.runs) != 1:
                    fails.append(dict(rec, key=f"C09:end-tokens:{pname}:lexer-called-{len(lex.runs)}-times",
                                      got=str(len(lex.runs)), want="1"))
                    continue
                a = analyse_events(lex.runs[0].events)
                if not a["end_seen"]:
                    fails.append(dict(rec, key=f"C09:end-tokens:{pname}:END-token-never-yielded",
                                      got="no END token in " + repr(lex.runs[0].events[-4:]), want="END token"))
                    continue
                if a["fresh_after_end"]:
                    fails.append(dict(rec, key=f"C09:end-tokens:{pname}:{family}:token-requested-after-END",
                                      got="after END the parser asked for: " + repr(a["fresh_after_end"][:4]),
                                      want="no next() after END"))
                if generated and "-\n" not in label_text and "-\r" not in label_text:
                    # pvl.load(path) reads with universal newlines when the whole file decodes, and byte-wise
                    # (no newline translation) when it falls back to decode_by_char
                    want_pos = {len(label_text) - 3, len(label_text.replace("\r\n", "\n")) - 3}
                    if a["end_pos"] not in want_pos:
                        fails.append(dict(rec, key=f"C09:end-tokens:{pname}:END-position",
                                          got=str(a["end_pos"]), want=str(sorted(want_pos))))
    return n, distinct, fails


def tokens_worker(args):
    labels, parsers, sep_count = args
    tmpdir = tempfile.mkdtemp(prefix="vf_c09_")
    try:
        n, distinct, fails = 0, set(), []
        for (label_text, kind, seed) in labels:
            ps = parsers if kind == "gen-odl" else ["OmniParser"]
            a, b, c = check_end_tokens(tmpdir, label_text, kind, seed, ps, sep_count, kind.startswith("gen"))
            n += a
            distinct |= b
            fails += c
        return n, distinct, _dedupe(fails)
    finally:
        shutil.rmtree(tmpdir, ignore_errors=True)


# ---------------------------------------------------------------------------------------
# dump
# ---------------------------------------------------------------------------------------
ENCODERS = ["default", "default+indent4", "PVLEncoder", "ODLEncoder", "ISISEncoder", "PDSLabelEncoder"]
DUMP_TARGETS = ["str-path", "Path", "StringIO", "text-file", "text-file-default-newline", "TextIOWrapper",
                "BytesIO", "binary-file", "buffered-writer", "codecs-writer", "spooled-text"]


def enc_kwargs(name):
    import pvl.encoder as pe
    if name == "default":
        return {}
    if name == "default+indent4":
        return {"indent": 4, "width": 60}
    return {"encoder": getattr(pe, name)()}


def dump_to(target, module, tmpdir, kwargs):
    """-> (returned value, bytes written or None, text written or None)"""
    import pvl
    p = os.path.join(tmpdir, "out.txt")
    if os.path.exists(p):
        os.remove(p)
    if target == "str-path":
        r = pvl.dump(module, p, **kwargs)
        return r, open(p, "rb").read(), None
    if target == "Path":
        r = pvl.dump(module, pathlib.Path(p), **kwargs)
        return r, open(p, "rb").read(), None
    if target == "StringIO":
        s = io.StringIO()
        r = pvl.dump(module, s, **kwargs)
        return r, None, s.getvalue()
    if target in ("text-file", "text-file-default-newline"):
        nl = "" if target == "text-file" else None
        with open(p, "w", newline=nl, encoding="utf-8") as f:
            r = pvl.dump(module, f, **kwargs)
        return r, open(p, "rb").read(), None
    if target == "TextIOWrapper":
        b = io.BytesIO()
        w = io.TextIOWrapper(b, encoding="utf-8", newline="")
        r = pvl.dump(module, w, **kwargs)
        w.flush()
        return r, b.getvalue(), None
    if target == "BytesIO":
        b = io.BytesIO()
        r = pvl.dump(module, b, **kwargs)
        return r, b.getvalue(), None
    if target == "binary-file":
        with open(p, "wb") as f:
            r = pvl.dump(module, f, **kwargs)
        return r, open(p, "rb").read(), None
    if target == "buffered-writer":
        raw = io.BytesIO()
        w = io.BufferedWriter(raw)
        r = pvl.dump(module, w, **kwargs)
        w.flush()
        return r, raw.getvalue(), None
    if target == "codecs-writer":
        with codecs.open(p, "w", encoding="utf-8") as f:
            r = pvl.dump(module, f, **kwargs)
        return r, open(p, "rb").read(), None
    if target == "spooled-text":
        with tempfile.SpooledTemporaryFile(mode="w+", encoding="utf-8", newline="", dir=tmpdir) as f:
            r = pvl.dump(module, f, **kwargs)
            f.seek(0)
            return r, None, f.read()
    raise ValueError(target)


TEXT_TARGETS = {"str-path", "Path", "StringIO", "text-file", "text-file-default-newline", "TextIOWrapper",
                "codecs-writer", "spooled-text"}


def check_dump(tmpdir, source, kind):
    """source: ('text', label text) | ('py', python literal of a plain dict)"""
    import pvl

    def fresh():
        if source[0] == "text":
            return pvl.loads(source[1])
        return pvl.PVLModule(eval(source[1]))  # literals written in this file only

    fails, n, distinct = [], 0, set()
    sid = hashlib.sha1(source[1].encode("utf-8", "surrogateescape")).hexdigest()[:10]
    loc_utf8 = locale.getpreferredencoding(False).lower().replace("-", "") == "utf8"
    for enc in ENCODERS:
        try:
            with warnings.catch_warnings():
                warnings.simplefilter("ignore")
                want = ("ok", pvl.dumps(fresh(), **enc_kwargs(enc)))
        except Exception as e:
            want = ("raise", type(e).__name__)
        for target in DUMP_TARGETS:
            n += 1
            distinct.add((sid, enc, target))
            rec = {"check": "dump", "source": list(source), "encoder": enc, "target": target, "kind": kind}
            try:
                with warnings.catch_warnings():
                    warnings.simplefilter("ignore")
                    r, b, t = dump_to(target, fresh(), tmpdir, enc_kwargs(enc))
                got = ("ok",)
            except Exception as e:
                got = ("raise", type(e).__name__, str(e)[:120])
            if want[0] == "raise":
                if got[0] != "raise" or got[1] != want[1]:
                    fails.append(dict(rec, key=f"C09:dump:{target}:{enc}:dumps-raises-{want[1]}-dump-{got[0]}",
                                      got=repr(got), want=repr(want)))
                continue
            if got[0] == "raise":
                fails.append(dict(rec, key=f"C09:dump:{target}:raises-{got[1]}", got=repr(got),
                                  want="writes %d characters" % len(want[1])))
                continue
            text = want[1]
            nonascii = any(ord(c) > 127 for c in text)
            suffix = ":non-ascii" if nonascii else ""
            if target in TEXT_TARGETS:
                want_ret = len(text)
                if t is not None:
                    same = t == text
                    shown = t
                else:
                    if target in ("str-path", "Path") and not loc_utf8:
                        wb = text.encode(locale.getpreferredencoding(False))
                    else:
                        wb = text.encode("utf-8")
                    if os.linesep != "\n" and target in ("str-path", "Path", "text-file-default-newline"):
                        wb = wb.replace(b"\n", os.linesep.encode())
                    same = b == wb
                    shown = b
            else:
                wb = text.encode("utf-8")
                want_ret = len(wb)
                same = b == wb
                shown = b
            if not same:
                fails.append(dict(rec, key=f"C09:dump:{target}:content-differs{suffix}", got=repr(shown)[:200],
                                  want=repr(text)[:200]))
            if r != want_ret:
                fails.append(dict(rec, key=f"C09:dump:{target}:return-value{suffix}", got=repr(r),
                                  want=repr(want_ret)))
    return n, distinct, fails


def dump_worker(args):
    sources = args
    tmpdir = tempfile.mkdtemp(prefix="vf_c09_")
    try:
        n, distinct, fails = 0, set(), []
        for source, kind in sources:
            a, b, c = check_dump(tmpdir, tuple(source), kind)
            n += a
            distinct |= b
            fails += c
        best = {}
        for f in fails:
            size = len(f["source"][1])
            if f["key"] not in best or size < best[f["key"]][0]:
                best[f["key"]] = (size, f)
        return n, distinct, [v[1] for v in best.values()]
    finally:
        shutil.rmtree(tmpdir, ignore_errors=True)


PY_MODULES = [
    "{'a': 1, 'b': 'two words', 'c': [1, 2.5, 'x']}",
    "{'name': 'caf\\u00e9 \\u00b0C', 'n': 1}",                    # latin-1 range: PVL/ISIS encoders accept
    "{'name': '\\u20ac 5 \\U0001f600', 'n': 1}",                   # outside latin-1: every encoder refuses
    "{'k': {'x': 1}}",
    "{}",
    "{'t': 'tab\\there', 's': 'line one\\nline two'}",
    "{'a_key_that_is_much_longer_than_thirty_characters': 1}",
]


# ---------------------------------------------------------------------------------------
# label sets
# ---------------------------------------------------------------------------------------
def corpus_labels():
    """(label text, kind) for every corpus file: the decodable prefix cut after its END statement when
    it has one (so that trailing families can be appended), else the whole decodable text."""
    import re
    out = []
    for p in G.corpus_files():
        data = open(p, "rb").read()
        try:
            text = data.decode("utf-8")
        except UnicodeDecodeError as e:
            text = data[:e.start].decode("utf-8")
        m = None
        for m in re.finditer(r"(?im)^[ \t]*END[ \t]*;?[ \t]*\r?$", text):
            break
        if m is not None:
            cut = text[:m.end()].rstrip(" \t\r;")
            out.append((cut, "corpus:" + os.path.relpath(p, G.CORPUS_DIR)))
        else:
            out.append((text, "corpus-noend:" + os.path.relpath(p, G.CORPUS_DIR)))
    return out


def corpus_raw():
    return [(p, os.path.relpath(p, G.CORPUS_DIR)) for p in G.corpus_files()]


def generated_labels(seed, n_ascii, n_utf8, n_odl):
    rng = random.Random(seed)
    out = []
    g = G.Gen(rng, profile="omni", empty=True, multiline=True, hash_comments=True)
    for _ in range(n_ascii):
        out.append((g.label()[0], "gen-ascii", rng.randrange(1 << 30)))
    g = G.Gen(rng, profile="omni", unicode_strings=True, multiline=True)
    k = 0
    while k < n_utf8:
        t = g.label()[0]
        if any(ord(c) > 127 for c in t):
            out.append((t, "gen-utf8", rng.randrange(1 << 30)))
            k += 1
    g = G.Gen(rng, profile="odl", multiline=False, comments=True)
    for _ in range(n_odl):
        out.append((g.label()[0], "gen-odl", rng.randrange(1 << 30)))
    # hand-written: a line that consists of END alone inside a multi-line quoted string / comment is not the END statement
    for text, kind in (('NOTE = "first line\nEND\nlast line"\na = 1\nEND\n', "hand-END-line-inside-string"),
                       ('a = 1\n/* a comment\nEnd\n   goes on */\nb = (1,\n 2)\nEND\n', "hand-END-line-inside-comment"),
                       ("d = 'x\n  end  \ny'\nEND\n", "hand-end-line-inside-symbol"),
                       # a dash continuation before every kind of line end: text-mode routes translate the line ends, the
                       # bytes / binary / decode_by_char routes do not
                       ("DESC = first-\r\n   second\r\nb = 2\r\nEND\r\n", "hand-crlf-dash-continuation"),
                       ("DESC = first-\r   second\rb = 2\rEND\r", "hand-cr-dash-continuation"),
                       ("DESC = first-\n\tsecond\nb = 2\nEND\n", "hand-lf-dash-continuation")):
        out.append((text, kind, rng.randrange(1 << 30)))
    return out


# ---------------------------------------------------------------------------------------
# sections
# ---------------------------------------------------------------------------------------
def _what(f):
    if f["check"] == "route":
        return (f"{f['route']} of <{f['kind']} label {f['label'][:40]!r}...> + sep {f['sep']!r} + tail family "
                f"{f['family']}: got {f['got'][:140]}, expected the module of the label alone {f['want'][:100]}")
    if f["check"] == "end-tokens":
        return (f"{f['parser']} on <{f['kind']} label {f['label'][:40]!r}...> + {f['sep']!r} + {f['family']}: "
                f"{f['got'][:160]}; expected {f['want'][:80]}")
    if f["check"] == "dump":
        return (f"pvl.dump(module from {f['source'][1][:50]!r}, <{f['target']}>, {f['encoder']}): got {f['got'][:140]}, "
                f"expected {f['want'][:100]}")
    return repr(f)[:300]


def _emit(s, fails):
    for f in sorted(fails, key=lambda f: (f["key"], len(repr(f)))):
        s.violation(f["key"], _what(f), {k: v for k, v in f.items() if k != "key"})


def sections(ctx):
    thorough = ctx.thorough
    jobs = ctx.jobs
    rng = random.Random(ctx.seed)
    n_ascii, n_utf8, n_odl = (300, 150, 150) if thorough else (32, 16, 16)
    sep_count = 5 if thorough else 1
    gen = generated_labels(ctx.seed, n_ascii, n_utf8, n_odl)
    corp = [(t, k, rng.randrange(1 << 30)) for t, k in corpus_labels()]
    out = []

    # ---- prompt (serial, before the pool loads the machine) ------------------------------
    s = Section("prompt-return", "bounded", bounded=True,
                rule="one label + separator + an unbroken run of non-white-space valid UTF-8 (ASCII 'A's; mixed "
                     "2/3/4-byte characters) of the stated length, through every route; wall time per call is "
                     "limited (a lexer that scans the run token-wise is quadratic)",
                bounds={"run_lengths": [100000] + ([1000000] if thorough else []), "limit_s": PROMPT_LIMIT_S})
    t0 = time.time()
    tmpdir = tempfile.mkdtemp(prefix="vf_c09_")
    try:
        import pvl
        label = 'a = 1\nGROUP = g\n  b = "x y"\nEND_GROUP\nEND'
        ref = outcome(lambda: pvl.loads(label))
        path = os.path.join(tmpdir, "long.lbl")
        for n in s.bounds["run_lengths"]:
            for kind in ("ascii", "multibyte"):
                for sep in ("\n", " ", ";\n"):
                    tail = long_run(n, kind)
                    data = label.encode() + sep.encode() + tail
                    text = data.decode("utf-8")
                    with open(path, "wb") as fh:
                        fh.write(data)
                    for route, fn in route_fns(path, data, text).items():
                        t1 = time.time()
                        got = outcome(fn)
                        dt = time.time() - t1
                        s.case(sample={"route": route, "run": kind, "n": n, "sep": sep, "seconds": round(dt, 3)},
                               distinct_key=(route, kind, n, sep))
                        rec = {"check": "prompt", "route": route, "run": kind, "n": n, "sep": sep, "label": label}
                        c = classify(got, ref)
                        if c is not None:
                            s.violation(f"C09:{route}:longrun-{kind}:{c}",
                                        f"{route} of label + {sep!r} + {n} {kind} characters: {repr(got)[:160]}, "
                                        f"expected the module of the label alone", rec)
                        if dt > PROMPT_LIMIT_S[n]:
                            s.violation(f"C09:{route}:longrun-{kind}:slow",
                                        f"{route} of label + {sep!r} + {n} {kind} characters took {dt:.1f} s "
                                        f"(limit {PROMPT_LIMIT_S[n]} s)", dict(rec, seconds=dt))
    finally:
        shutil.rmtree(tmpdir, ignore_errors=True)
    s.seconds = time.time() - t0
    out.append(s)

    pool = mp.get_context("fork").Pool(jobs)
    try:
        # ---- routes ---------------------------------------------------------------------
        s = Section("routes", "bounded", bounded=True,
                    rule="generated labels (ASCII incl. empty values/comments; UTF-8 with 2/3/4-byte characters in "
                         "quoted strings; ODL subset) and every corpus file cut after its END statement, x trailing "
                         "family (none, 1 KB random binary, NULs, invalid UTF-8 right after the separator, valid UTF-8 "
                         "cut inside its last multi-byte character, text that "
                         "looks like more PVL, valid UTF-8 text) x separators after END x 9 routes; distinct = "
                         "(label, family, separator, route); reference = pvl.loads(label text alone)",
                    bounds={"generated": len(gen), "corpus": len(corp), "separators_per_family": 1 + sep_count,
                            "routes": LOAD_ROUTES, "families": TAILS,
                            "corpus_labels_light_separator_plan": not thorough})
        t0 = time.time()
        labels = gen + corp
        tasks = [([lab], sep_count, TAILS, not thorough) for lab in sorted(labels, key=lambda x: -len(x[0]))]
        fails = []
        for n, distinct, fl in pool.imap_unordered(routes_worker, tasks):
            s.evaluations += n
            s.distinct |= distinct
            fails += fl
        _emit(s, _dedupe(fails))
        s.samples = [{"label": gen[0][0][:120], "family": "rand1k", "sep": "\n", "route": "load-BytesIO"},
                     {"label": corp[0][1], "family": "nul", "sep": ";\n", "route": "loadu-file-url"}]
        s.seconds = time.time() - t0
        out.append(s)

        # ---- corpus files as they are: all routes agree with one another ------------------
        s = Section("corpus-as-is", "bounded", bounded=True,
                    rule="every corpus file unmodified (incl. the ISIS cube with binary image data and the broken "
                         "labels): all routes give the outcome of pvl.load(str path) (equal module, or the same "
                         "exception type); for files that are not valid UTF-8 only the byte-fed routes (path, Path, "
                         "file: URL, text stream opened with utf-8, binary stream, BytesIO, loads(bytes))", bounds={"files": len(corpus_raw())})
        t0 = time.time()
        fails = []
        import pvl
        for p, rel in corpus_raw():
            data = open(p, "rb").read()
            try:
                text = data.decode("utf-8")
                dec = True
            except UnicodeDecodeError as e:
                text = data[:e.start].decode("utf-8") + data[e.start:].decode("latin-1")
                dec = False
            ref = outcome(lambda: pvl.load(p))
            ref_c = ref if ref[0] == "ok" else ref[:2]
            for route, fn in route_fns(p, data, text).items():
                if not dec and route in STR_ROUTES:
                    # no str "is" a file whose bytes are not UTF-8: only the byte-fed routes are comparable
                    continue
                got = outcome(fn)
                s.case(sample={"file": rel, "route": route}, distinct_key=(rel, route))
                got_c = got if got[0] == "ok" else got[:2]
                if got_c != ref_c:
                    c = classify(got, ref) if ref[0] == "ok" else (
                        "raises-" + got[1] if got[0] == "raise" else "returns-where-path-route-raises-" + ref[1])
                    fails.append({"key": f"C09:{route}:corpus-as-is:{c}" + ("" if dec else ":undecodable-file"),
                                  "check": "corpus", "file": p, "route": route, "got": repr(got)[:300],
                                  "want": repr(ref)[:300], "label": rel})
        for f in _dedupe(fails):
            s.violation(f["key"], f"{f['route']} of corpus file {f['label']}: {f['got'][:160]}; pvl.load(path) gives "
                                  f"{f['want'][:120]}", {k: v for k, v in f.items() if k != "key"})
        s.seconds = time.time() - t0
        out.append(s)

        # ---- a parser that keeps the characters of quoted strings -------------------------
        s = Section("routes-strict-parser", "bounded", bounded=True,
                    rule="labels with CR LF / lone CR / LF / TAB inside quoted strings, loaded through the 9 routes with "
                         "parser=PVLParser(PVLGrammar, PVLDecoder) (the default decoder collapses white space in strings "
                         "and would mask a route that rewrites line ends); tails none and 1 KB binary; reference = "
                         "pvl.loads(label text, parser=...)",
                    bounds={"labels": len(STRICT_LABELS), "families": ["none", "rand1k"]})
        t0 = time.time()
        tmpdir = tempfile.mkdtemp(prefix="vf_c09_")
        try:
            fails = []
            path = os.path.join(tmpdir, "strict.lbl")
            for label in STRICT_LABELS:
                ref = outcome(lambda: pvl.loads(label, **strict_kw()))
                for family in ("none", "rand1k"):
                    sep = "" if family == "none" else "\n"
                    tail = make_tail(family, 7)
                    data = label.encode("utf-8") + sep.encode() + tail
                    text, _dec = full_text(label, sep, tail)
                    with open(path, "wb") as fh:
                        fh.write(data)
                    for route, fn in route_fns(path, data, text, strict_kw).items():
                        got = outcome(fn)
                        s.case(sample={"label": label, "family": family, "route": route},
                               distinct_key=(label, family, route))
                        c = classify(got, ref)
                        if c is not None:
                            fails.append({"key": f"C09:strict-parser:{route}:{family}:{c}", "check": "strict",
                                          "route": route, "family": family, "sep": sep, "label": label,
                                          "tail_hex": binascii.hexlify(tail).decode(), "kind": "strict",
                                          "got": repr(got)[:300], "want": repr(ref)[:300]})
            for f in _dedupe(fails):
                s.violation(f["key"], f"{f['route']} (parser=PVLParser) of {f['label']!r} + tail {f['family']}: got "
                                      f"{f['got'][:150]}; pvl.loads(label, parser=PVLParser) gives {f['want'][:150]}",
                            {k: v for k, v in f.items() if k != "key"})
        finally:
            shutil.rmtree(tmpdir, ignore_errors=True)
        s.seconds = time.time() - t0
        out.append(s)

        # ---- end tokens -----------------------------------------------------------------
        s = Section("end-tokens", "bounded", bounded=True,
                    rule="pvl.load(path, parser=P(lexer_fn=counting wrapper of pvl.lexer.lexer)) for P in OmniParser "
                         "(all labels), PVLParser and ODLParser (ODL-subset labels) x trailing family x separators; "
                         "a next() is fresh when no token returned by send() is pending; after the fresh END token "
                         "no fresh next() and no token positioned after END",
                    bounds={"labels": len(labels), "parsers": PARSERS, "separators_per_family": 1 + sep_count})
        t0 = time.time()
        tok_labels = labels if thorough else (gen[:20] + gen[-16:] + corp)
        s.bounds["labels"] = len(tok_labels)
        tasks = [([lab], PARSERS, sep_count) for lab in sorted(tok_labels, key=lambda x: -len(x[0]))]
        fails = []
        for n, distinct, fl in pool.imap_unordered(tokens_worker, tasks):
            s.evaluations += n
            s.distinct |= distinct
            fails += fl
        _emit(s, _dedupe(fails))
        s.samples = [{"label": gen[-1][0][:120], "parser": "ODLParser", "family": "morepvl", "sep": " "}]
        s.seconds = time.time() - t0
        out.append(s)

        # ---- dump -------------------------------------------------------------------------
        s = Section("dump", "bounded", bounded=True,
                    rule="modules loaded from generated labels / corpus files and literal dicts (incl. latin-1 and "
                         "non-latin-1 strings, keys > 30 characters) x 6 encoder settings x 11 targets (str path, Path, "
                         "StringIO, text files, TextIOWrapper, BytesIO, binary file, BufferedWriter, codecs writer, "
                         "spooled text file); content == dumps(same module, same options) [UTF-8 for binary], return "
                         "value == its length; dump raises the exception type dumps raises",
                    bounds={"encoders": ENCODERS, "targets": DUMP_TARGETS})
        t0 = time.time()
        n_dump = 160 if thorough else 10
        sources = [(("text", t), k) for t, k, _ in (gen[:n_dump] + gen[-n_dump:])]
        sources += [(("text", t), k) for t, k, _ in corp if not k.startswith("corpus-noend")][: (200 if thorough else 14)]
        sources += [(("py", lit), "literal") for lit in PY_MODULES]
        s.bounds["modules"] = len(sources)
        fails = []
        for n, distinct, fl in pool.imap_unordered(dump_worker, [[x] for x in sources]):
            s.evaluations += n
            s.distinct |= distinct
            fails += fl
        best = {}
        for f in fails:
            size = len(f["source"][1])
            if f["key"] not in best or size < best[f["key"]][0]:
                best[f["key"]] = (size, f)
        _emit(s, [v[1] for v in best.values()])
        s.samples = [{"source": sources[0][0][1][:100], "encoder": "PDSLabelEncoder", "target": "BytesIO"}]
        s.seconds = time.time() - t0
        out.append(s)
    finally:
        pool.close()
        pool.join()
    return out


# ---------------------------------------------------------------------------------------
# replay
# ---------------------------------------------------------------------------------------
def replay(data):
    check = data.get("check")
    tmpdir = tempfile.mkdtemp(prefix="vf_c09_")
    try:
        import pvl
        if check == "strict":
            label, sep = data["label"], data["sep"]
            tail = binascii.unhexlify(data["tail_hex"])
            raw = label.encode("utf-8") + sep.encode() + tail
            text, _ = full_text(label, sep, tail)
            path = os.path.join(tmpdir, "strict.lbl")
            with open(path, "wb") as fh:
                fh.write(raw)
            ref = outcome(lambda: pvl.loads(label, **strict_kw()))
            got = outcome(route_fns(path, raw, text, strict_kw)[data["route"]])
            c = classify(got, ref)
            return None if c is None else f"{data['route']} (PVLParser): {c}: {repr(got)[:200]} vs {repr(ref)[:200]}"
        if check in ("route", "prompt"):
            label = data["label"]
            if check == "prompt":
                tail = long_run(int(data["n"]), data["run"])
            else:
                tail = binascii.unhexlify(data["tail_hex"])
            sep = data["sep"]
            raw = label.encode("utf-8") + sep.encode() + tail
            text, _ = full_text(label, sep, tail)
            path = os.path.join(tmpdir, "label.lbl")
            with open(path, "wb") as fh:
                fh.write(raw)
            ref = outcome(lambda: pvl.loads(label))
            t1 = time.time()
            got = outcome(route_fns(path, raw, text)[data["route"]])
            dt = time.time() - t1
            c = classify(got, ref)
            if c is not None:
                return f"{data['route']}: {c}: got {repr(got)[:200]}, label alone gives {repr(ref)[:200]}"
            if check == "prompt" and dt > PROMPT_LIMIT_S.get(int(data["n"]), 30.0):
                return f"{data['route']}: took {dt:.1f} s"
            return None
        if check == "corpus":
            p = data["file"]
            raw = open(p, "rb").read()
            try:
                text = raw.decode("utf-8")
            except UnicodeDecodeError as e:
                if data["route"] in STR_ROUTES:
                    return None            # not comparable (see sections)
                text = raw[:e.start].decode("utf-8") + raw[e.start:].decode("latin-1")
            ref = outcome(lambda: pvl.load(p))
            got = outcome(route_fns(p, raw, text)[data["route"]])
            a = ref if ref[0] == "ok" else ref[:2]
            b = got if got[0] == "ok" else got[:2]
            return None if a == b else f"{data['route']} of {p}: {repr(got)[:200]} but pvl.load(path): {repr(ref)[:200]}"
        if check == "end-tokens":
            n, d, fails = check_end_tokens_one(tmpdir, data)
            return fails
        if check == "dump":
            src = tuple(data["source"])
            n, d, fails = check_dump(tmpdir, src, data.get("kind", ""))
            for f in fails:
                if f["encoder"] == data["encoder"] and f["target"] == data["target"]:
                    return _what(f)
            return None
        return None
    finally:
        shutil.rmtree(tmpdir, ignore_errors=True)


def check_end_tokens_one(tmpdir, data):
    import pvl
    label, sep, pname = data["label"], data["sep"], data["parser"]
    tail = binascii.unhexlify(data["tail_hex"])
    path = os.path.join(tmpdir, "tok.lbl")
    with open(path, "wb") as fh:
        fh.write(label.encode("utf-8") + sep.encode() + tail)
    ref = outcome(lambda: pvl.loads(label, parser=make_parser(pname, None)))
    lex = CountingLexer()
    got = outcome(lambda: pvl.load(path, parser=make_parser(pname, lex)))
    if got != ref:
        return 1, set(), f"{pname}: got {repr(got)[:200]}, label alone gives {repr(ref)[:200]}"
    if len(lex.runs) != 1:
        return 1, set(), f"lexer function called {len(lex.runs)} times"
    a = analyse_events(lex.runs[0].events)
    if not a["end_seen"]:
        return 1, set(), "END token never yielded"
    if a["fresh_after_end"]:
        return 1, set(), f"after END the parser asked for {a['fresh_after_end'][:4]!r}"
    if data.get("kind", "").startswith("gen") and "-\n" not in label and "-\r" not in label \
            and a["end_pos"] not in (len(label) - 3, len(label.replace("\r\n", "\n")) - 3):
        return 1, set(), f"END token position {a['end_pos']} is not where END is written"
    return 1, set(), None
