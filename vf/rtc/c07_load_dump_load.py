"""C07 bounded driver (never counted as proved): texts (tests/data corpus, free-spelling catalogue and generator,
token mutants) -> m1 = pvl.loads(t0); for each bundled encoder that accepts m1: t1 = dumps(m1); m2 = pvl.loads(t1);
equiv(m1, m2) (C01's relation) and dumps(m2) == t1 byte for byte (set literals up to element order)."""
from . import roundtrip_common as rc


def sections(ctx):
    return rc.text_sections(ctx)


def replay(data):
    """Rebuild the (minimised) first-load module from its abstract description and re-run load-dump-load-dump; when only
    a source text is recorded, load it first."""
    if data.get("module") is None and data.get("source_text") is not None:
        st, res, _ = rc.stable_case(data["source_text"], (data["dialect"],))
        for _, s2, v in res:
            if v is not None:
                return v[1]
        return None
    return rc.replay(dict(data, mode="stable"))
