"""Bounded companion of C10 (never counted as proved): all operation histories up to a length
bound over keys {a,b} x values {1,2} on the real container classes; after every step every
observer is compared with an independent list-of-pairs reference written from the property
statement.  Also the CPython cross-check of the T_seq engine and the replay oracle."""
import itertools
import warnings

KEYS = ("a", "b")
VALS = (1, 2)


class Missing(Exception):
    pass


# ---- reference: a plain list of pairs -------------------------------------------------
def ref_apply(L, op):
    """-> (new list, outcome) where outcome = ('ok', value) | ('raise', ExcClassName)"""
    name, args = op[0], op[1:]
    L = list(L)
    ks = [k for k, _ in L]
    if name == "append":
        return L + [(args[0], args[1])], ("ok", None)
    if name in ("extend", "extend_md", "extend_dict", "extend_kw"):
        return L + list(args[0]), ("ok", None)
    if name in ("fork_append", "fork_pop0"):
        return L, ("ok", None)              # a container built from this one is changed: this one is not
    if name == "forked_append":
        return L + [(args[0], args[1])], ("ok", None)   # this one is changed: the container built from it is not
    if name == "setitem":
        k, v = args
        if k not in ks:
            return L + [(k, v)], ("ok", None)
        i = ks.index(k)
        return L[:i] + [(k, v)] + [p for p in L[i + 1:] if p[0] != k], ("ok", None)
    if name == "delitem":
        k = args[0]
        if k not in ks:
            return L, ("raise", "KeyError")
        return [p for p in L if p[0] != k], ("ok", None)
    if name == "pop0":
        if not L:
            return L, ("raise", "KeyError")
        return L[:-1], ("ok", L[-1])
    if name == "popitem":
        if not L:
            return L, ("raise", "KeyError")
        return L[:-1], ("ok", L[-1])
    if name in ("pop1", "popall"):
        k = args[0]
        if k not in ks:
            return L, ("raise", "KeyError")
        return [p for p in L if p[0] != k], ("ok", L[ks.index(k)][1])
    if name == "pop2":
        k, d = args
        if k not in ks:
            return L, ("ok", d)
        return [p for p in L if p[0] != k], ("ok", L[ks.index(k)][1])
    if name == "setdefault":
        k, d = args
        if k in ks:
            return L, ("ok", L[ks.index(k)][1])
        return L + [(k, d)], ("ok", d)
    if name in ("update", "update_dict", "update_kw"):
        for k, v in args[0]:
            L, _ = ref_apply(L, ("setitem", k, v))
        return L, ("ok", None)
    if name == "discard":
        return [p for p in L if p[0] != args[0]], ("ok", None)
    if name == "clear":
        return [], ("ok", None)
    if name == "insert":
        i, pairs = args
        n = len(L)
        j = max(0, n + i) if i < 0 else min(i, n)
        return L[:j] + list(pairs) + L[j:], ("ok", None)
    if name in ("insert_before", "insert_after"):
        k, pair, inst = args
        idxs = [i for i, kk in enumerate(ks) if kk == k]
        if not idxs:
            return L, ("raise", "KeyError")
        try:
            i = idxs[inst]
        except IndexError:
            return L, ("raise", "IndexError")
        j = i + (1 if name == "insert_after" else 0)
        return L[:j] + [pair] + L[j:], ("ok", None)
    raise Missing(name)


def real_apply(m, op):
    name, args = op[0], op[1:]
    try:
        if name == "append":
            r = m.append(*args)
        elif name == "extend":
            r = m.extend(list(args[0]))
        elif name == "extend_md":
            r = m.extend(type(m)(list(args[0])))        # another multi-dict of the same class as argument
        elif name == "fork_append":
            other = type(m)(m)
            other.append(args[0], args[1])
            r = None
        elif name == "fork_pop0":
            other = m.copy()
            if len(other):
                other.pop()
            r = None
        elif name == "forked_append":
            before = list(m)
            other = type(m)(m)
            m.append(args[0], args[1])
            for obs in observers(other, before):
                return ("raise", f"the container built from this one changed: {obs[0]} is {obs[1]}, expected {obs[2]}")
            r = None
        elif name == "extend_dict":
            r = m.extend(dict(args[0]))
        elif name == "extend_kw":
            r = m.extend(**dict(args[0]))
        elif name == "update_dict":
            r = m.update(dict(args[0]))
        elif name == "update_kw":
            r = m.update(**dict(args[0]))
        elif name == "setitem":
            m[args[0]] = args[1]
            r = None
        elif name == "delitem":
            del m[args[0]]
            r = None
        elif name == "pop0":
            r = m.pop()
        elif name == "popitem":
            r = m.popitem()
        elif name == "pop1":
            r = m.pop(args[0])
        elif name == "pop2":
            r = m.pop(args[0], args[1])
        elif name == "popall":
            r = m.popall(args[0])
        elif name == "setdefault":
            r = m.setdefault(*args)
        elif name == "update":
            r = m.update(list(args[0]))
        elif name == "discard":
            r = m.discard(args[0])
        elif name == "clear":
            r = m.clear()
        elif name == "insert":
            i, pairs = args
            if len(pairs) == 1:
                r = m.insert(i, pairs[0][0], pairs[0][1])
            else:
                r = m.insert(i, list(pairs))
        elif name == "insert_before":
            r = m.insert_before(args[0], args[1], args[2])
        elif name == "insert_after":
            r = m.insert_after(args[0], args[1], args[2])
        else:
            raise Missing(name)
        return ("ok", r)
    except Missing:
        raise
    except Exception as e:
        return ("raise", type(e).__name__)


def observers(m, L, dict_cls=dict):
    """Compare every observer of container m with the list L; yield (observer, got, want)."""
    n = len(L)
    ks = [k for k, _ in L]
    vs = [v for _, v in L]

    def chk(name, fn, want):
        try:
            got = fn()
        except Exception as e:
            got = ("raise", type(e).__name__)
        if got != want:
            yield (name, repr(got), repr(want))

    yield from chk("list(m)", lambda: list(m), L)
    yield from chk("len(m)", lambda: len(m), n)
    for i in range(-n - 1, n + 2):
        want = L[i] if -n <= i < n else ("raise", "IndexError")
        yield from chk(f"m[{i}]", lambda i=i: m[i], want)
    for sl in (slice(None), slice(1, None), slice(None, -1), slice(0, 2), slice(-2, None)):
        yield from chk(f"m[{sl}]", lambda sl=sl: m[sl], L[sl])
    for vname, view, ref in (("keys", m.keys(), ks), ("values", m.values(), vs), ("items", m.items(), L)):
        yield from chk(f"list({vname})", lambda view=view: list(view), ref)
        yield from chk(f"len({vname})", lambda view=view: len(view), len(ref))
        for i in range(-n - 1, n + 2):
            want = ref[i] if -n <= i < n else ("raise", "IndexError")
            yield from chk(f"{vname}[{i}]", lambda view=view, i=i: view[i], want)
        probes = list(KEYS) + ["zz"] if vname == "keys" else (list(VALS) + [99] if vname == "values"
                                                             else [(k, v) for k in KEYS for v in VALS] + [("zz", 1)])
        for x in probes:
            yield from chk(f"{x!r} in {vname}", lambda view=view, x=x: x in view, x in ref)
            want = ref.index(x) if x in ref else ("raise", "ValueError")
            yield from chk(f"{vname}.index({x!r})", lambda view=view, x=x: view.index(x), want)
    for k in list(KEYS) + ["zz"]:
        allv = [v for kk, v in L if kk == k]
        yield from chk(f"{k!r} in m", lambda k=k: k in m, bool(allv))
        yield from chk(f"m[{k!r}]", lambda k=k: m[k], allv[0] if allv else ("raise", "KeyError"))
        yield from chk(f"get({k!r})", lambda k=k: m.get(k), allv[0] if allv else None)
        yield from chk(f"get({k!r},7)", lambda k=k: m.get(k, 7), allv[0] if allv else 7)
        yield from chk(f"getall({k!r})", lambda k=k: m.getall(k), allv if allv else ("raise", "KeyError"))
        yield from chk(f"getlist({k!r})", lambda k=k: m.getlist(k), allv)
        idxs = [i for i, kk in enumerate(ks) if kk == k]
        for inst in range(-len(idxs) - 1, len(idxs) + 2):
            if not idxs:
                want = ("raise", "KeyError")
            elif -len(idxs) <= inst < len(idxs):
                want = idxs[inst]
            else:
                want = ("raise", "IndexError")
            yield from chk(f"key_index({k!r},{inst})", lambda k=k, inst=inst: m.key_index(k, inst), want)
        # mapping storage agrees with the list (the representation invariant, observed natively)
        yield from chk(f"dict storage[{k!r}]", lambda k=k: dict_cls.get(m, k, None), allv if allv else None)
    yield from chk("dict storage keys", lambda: sorted(dict_cls.keys(m)), sorted(set(ks)))
    # equality: same class and equal lists
    same = type(m)(L)
    yield from chk("m == type(m)(L)", lambda: m == same, True)
    yield from chk("m != type(m)(L)", lambda: m != same, False)
    other = type(m)(L + [("a", 1)])
    yield from chk("m == longer", lambda: m == other, False)
    if L:
        ch = type(m)(L[:-1] + [(L[-1][0], L[-1][1] + 10)])
        yield from chk("m == changed-last-value", lambda: m == ch, False)
        sw = type(m)(list(reversed(L)))
        yield from chk("m == reversed", lambda: m == sw, list(reversed(L)) == L)


def op_universe():
    ops = []
    for k in KEYS:
        for v in VALS:
            ops.append(("append", k, v))
            ops.append(("setitem", k, v))
        ops += [("delitem", k), ("pop1", k), ("popall", k), ("pop2", k, 9), ("setdefault", k, 5), ("discard", k)]
        for inst in (0, 1, -1):
            ops.append(("insert_before", k, ("b", 3), inst))
            ops.append(("insert_after", k, ("a", 4), inst))
    ops += [("pop0",), ("popitem",), ("clear",)]
    ops += [("extend", (("a", 1), ("b", 2), ("a", 2))), ("update", (("b", 7), ("a", 8), ("b", 9)))]
    ops += [("extend", (("a", 1), ("b", 2), ("a", 1)))]      # the same key twice with EQUAL values (pairs that compare equal)
    ops += [("extend_md", (("a", 1), ("b", 2), ("a", 2))), ("extend_md", (("b", 3),)), ("extend_dict", (("a", 5), ("b", 6))),
            ("extend_kw", (("b", 7), ("a", 8))), ("update_dict", (("a", 5), ("b", 6))), ("update_kw", (("b", 7),))]
    for i in (0, 1, -1, -2, 5):
        ops.append(("insert", i, (("a", 6),)))
        ops.append(("insert", i, (("b", 6), ("a", 7))))
    ops += [("fork_append", "a", 3), ("fork_pop0",), ("forked_append", "a", 3)]   # a second container built from this one
    ops.append(("insert", 0, (("a", 6), ("a", 7))))       # one call carrying the same (possibly new) key twice
    ops.append(("insert", 1, (("b", 8), ("a", 9), ("b", 9))))
    return ops


def run_history(cls, hist):
    """-> None or (step index, observer, got, want)"""
    with warnings.catch_warnings():
        warnings.simplefilter("ignore")
        m = cls()
        L = []
        for i, op in enumerate(hist):
            L2, want = ref_apply(L, op)
            got = real_apply(m, op)
            if want[0] == "ok" and op[0] in ("append", "extend", "extend_md", "extend_dict", "extend_kw", "update_dict", "update_kw",
                                             "fork_append", "fork_pop0", "forked_append", "setitem", "delitem", "update", "discard", "clear",
                                             "insert", "insert_before", "insert_after"):
                want = ("ok", None)
            if got != want:
                return (i, "outcome", repr(got), repr(want))
            L = L2
            for obs in observers(m, L):
                return (i, obs[0], obs[1], obs[2])
    return None


def explore_prefix(args):
    cls_name, first, depth = args
    import pvl.collections as pc
    cls = getattr(pc, cls_name)
    ops = op_universe()
    n = 0
    bad = []
    seen_sig = set()
    for d in range(0, depth):
        for rest in itertools.product(ops, repeat=d):
            hist = (first,) + rest
            n += 1
            r = run_history(cls, hist)
            if r is not None:
                step, obs, got, want = r
                sig = (hist[step][0], obs.split("(")[0].split("[")[0])
                if sig not in seen_sig:
                    seen_sig.add(sig)
                    bad.append((hist[:step + 1], obs, got, want))
    return n, bad


def replay_history(cls_name, hist):
    import pvl.collections as pc
    hist = tuple(tuple(_tuplify(x) for x in op) for op in hist)
    r = run_history(getattr(pc, cls_name), hist)
    if r is None:
        return None
    step, obs, got, want = r
    return f"{cls_name} after {hist[:step + 1]!r}: {obs} is {got}, the list of pairs implies {want}"


def _tuplify(x):
    if isinstance(x, list):
        return tuple(_tuplify(y) for y in x)
    return x
