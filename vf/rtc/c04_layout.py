"""Bounded driver for C04: white space and comments never change the meaning of a label.

Metamorphic: the token sequence of a well-formed label (textgen) is rendered in the canonical
layout (one space between any two tokens) and in alternative layouts; both texts are loaded
with the same parser configuration.  Contract: if the canonical text loads, every alternative
loads too and returns an equal module (deep comparison with exact types, via textgen.tag).

Parts
  gaps    base labels that exhibit every adjacent (token kind, token kind) pair of the grammar; one gap at a
          time is replaced by every separator: each single white-space character, three '/* */' comments,
          '# c\\n' (ISIS/default, set off by a space), the empty separator where the grammar makes white
          space optional - for every (label, gap); all 2-element mixtures - once per kind pair; 3-element
          mixtures - once per kind pair, all of them (thorough) or a seeded sample (quick)
  random  seeded random labels, every gap gets a random separator (<= 3 elements)
"""
import hashlib
import itertools
import multiprocessing as mp
import random
import time

from ..harness import Section
from . import textgen as T

PID = "C04"


def _h(cfg, text):
    return hashlib.blake2b((cfg + "\0" + text).encode("utf-8", "surrogatepass"), digest_size=8).hexdigest()


# ---------------------------------------------------------------------------------------
# fine token kinds
# ---------------------------------------------------------------------------------------
def fine_kind(text, kind):
    if kind == "int":
        return "int-signed" if text[0] in "+-" else "int"
    if kind == "real":
        k = "real"
        if "e" in text.lower():
            k += "-exp"
        elif text.endswith("."):
            k += "-dot-last"
        elif text.lstrip("+-").startswith("."):
            k += "-dot-first"
        return k + ("-signed" if text[0] in "+-" else "")
    if kind == "based":
        return "based-signed" if ("+" in text or "-" in text) else "based"
    if kind == "q":
        return ("q-dq" if text[0] == '"' else "q-sq") + ("-empty" if len(text) == 2 else "")
    if kind == "u":
        for ch, nm in (("/", "slash"), ("-", "dash"), ("*", "star"), ("+", "plus")):
            if ch in text:
                return "u-" + nm
        return "u"
    if kind == "time":
        return "time-z" if text.endswith("Z") else "time"
    if kind == "units":
        return "units-spaced" if text[1] in T.WS else "units"
    return kind


def reps(cfg):
    r = [("kw", "Null"), ("int", "42"), ("int", "-5"), ("int", "+5"), ("real", "1.5"), ("real", "1."), ("real", ".5"),
         ("real", "1e+5"), ("real", "-2.5E-3"), ("q", '"s t"'), ("q", "'it\"s'"), ("q", '""'), ("u", "sym"),
         ("date", "2001-01-01"), ("time", "12:34:56Z"), ("time", "01:02"), ("dt", "2001-001T01:02:03.5")]
    if cfg == "PVL":
        r += [("based", "16#FF#"), ("based", "-2#101#")]
    elif cfg in T.STRICT_ODL:
        r += [("based", "16#FF#"), ("based", "2#-101#")]
    elif cfg == "ISIS":
        r += [("based", "16#FF#"), ("based", "-2#101#")]
    else:
        r += [("based", "16#FF#"), ("based", "2#-101#"), ("based", "-2#101#")]
    if cfg not in T.STRICT_ODL:
        r += [("u", "m/s"), ("u", "x-y"), ("u", "a*b")]
    if cfg in ("ISIS", "default"):
        r += [("u", "a+b")]
    return r


def base_docs(cfg):
    """Labels whose token sequences cover the adjacent kind pairs of the grammar."""
    one = ("int", "1")
    docs = []
    strict = cfg in T.STRICT_ODL
    for v in reps(cfg):
        nm = fine_kind(v[1], v[0]) + ":" + v[1]
        docs.append((nm + ":assign-assign", T.D([T.A("n", v), T.A("m", one)])))
        docs.append((nm + ":delim-END", T.D([T.A("n", v, True), T.A("m", one)], end="END")))
        docs.append((nm + ":seq", T.D([T.A("n", ("seq", [v, v]))])))
        docs.append((nm + ":set", T.D([T.A("n", ("set", [v, v]))])))
        docs.append((nm + ":in-group", T.D([T.B("GROUP", "g", [T.A("n", v)])])))
        docs.append((nm + ":END", T.D([T.A("n", v)], end="END")))
        docs.append((nm + ":then-block", T.D([T.A("n", v), T.B("OBJECT", "o", [])])))
        if T.units_ok(v, cfg):
            docs.append((nm + ":units-assign", T.D([T.A("n", ("units", v, "<m>")), T.A("m", one)])))
            docs.append((nm + ":units-delim", T.D([T.A("n", ("units", v, "< m/s >"), True)])))
            docs.append((nm + ":seq-units", T.D([T.A("n", ("seq", [("units", v, "<m>"), ("units", v, "<m>")]))])))
    u1 = ("units", one, "<m>")
    sq = ("seq", [one])
    st = ("set", [one])
    grp = lambda body, **kw: T.B("GROUP", "g", body, **kw)      # noqa: E731
    obj = lambda body, **kw: T.B("OBJECT", "o", body, **kw)     # noqa: E731
    a1 = T.A("n", one)
    structural = [
        ("empty-brackets", T.D([T.A("n", ("seq", [])), T.A("m", ("set", [])), T.A("k", ("seq", [("seq", []), ("seq", [])]))])),
        ("nested-seq", T.D([T.A("n", ("seq", [sq, sq])), T.A("m", one)])),
        ("seq-then-things", T.D([T.A("n", sq, True), T.A("m", sq), grp([T.A("k", sq)]), T.A("j", sq)], end="END")),
        ("set-then-things", T.D([T.A("n", st, True), T.A("m", st), grp([T.A("k", st)]), T.A("j", st)], end="END")),
        ("units-then-things", T.D([T.A("n", u1, True), T.A("m", u1), grp([T.A("k", u1)]), T.A("j", u1)], end="END")),
        ("units-in-brackets", T.D([T.A("n", ("seq", [u1, u1])), T.A("m", ("set", [u1]))])),
        ("block-plain", T.D([grp([a1]), obj([a1])])),
        ("block-delims", T.D([grp([a1], delim_b=True, delim_e=True), obj([a1], delim_b=True, delim_e=True)], end="END", end_delim=True)),
        ("block-named-end", T.D([grp([a1], end_name=True), obj([a1], end_name=True), a1])),
        ("block-named-end-delim", T.D([grp([a1], end_name=True, delim_e=True), grp([a1], end_name=True)], end="END")),
        ("block-empty", T.D([grp([]), obj([], end_name=True), grp([], delim_b=True)])),
        ("block-nested", T.D([obj([grp([a1]), grp([a1], end_name=True)]), a1])),
        ("block-end-END", T.D([grp([a1])], end="END")),
        ("block-named-end-END", T.D([grp([a1], end_name=True)], end="END")),
        ("END-only", T.D([], end="END")),
        ("END-delim", T.D([a1], end="END", end_delim=True)),
        ("END-trailer", T.D([a1], end="END", trailer=" ignored ( text")),
        ("assign-only", T.D([a1])),
    ]
    if cfg != "ISIS":
        structural += [
            ("block-begin_", T.D([T.B("BEGIN_GROUP", "g", [a1], end_name=True), T.B("BEGIN_OBJECT", "o", [a1], delim_b=True)])),
        ]
    if not strict:
        structural += [
            ("nested-set", T.D([T.A("n", ("set", [st, st])), T.A("m", ("seq", [st, sq]))])),
            ("units-on-brackets", T.D([T.A("n", ("units", sq, "<m>")), T.A("m", ("units", st, "<m>"), True)])),
        ]
    return docs + structural


def doc_gaps(doc):
    """-> toks, fine kinds, gap classes (len(toks)+1: the last one is the tail before EOF / trailer)"""
    toks = T.tokens(doc)
    kinds = [fine_kind(t, k) for t, k in toks]
    g = T.gaps(toks) + ["tail"]
    return toks, kinds, g


def render_variant(doc, toks, g, i, sep):
    seps = ["" if c == "lead" else " " for c in g[:-1]]
    tail = ""
    if i == len(toks):
        tail = sep
    else:
        seps[i] = sep
    return T.render(toks, seps, doc.get("trailer"), tail)[0]


def separators(cfg, n):
    els = T.sep_elements(cfg)
    return list(itertools.product(els, repeat=n))


def compare(cfg, canon_out, text):
    """-> None or (mode, description)"""
    o = T.outcome(cfg, text)
    if o[0] == "crash":
        return ("crash-" + o[1], f"{o[1]} (not LexerError/ParseError): {o[2]}")
    if canon_out[0] != "ok":
        return None
    if o[0] == "raise":
        return ("load-fails", f"{o[1]}: {o[2]}")
    if o[1] != canon_out[1]:
        return ("module-differs", T.first_diff(o[1], canon_out[1]) or "modules differ")
    if o[2] != canon_out[2]:
        return ("errors-differ", f"errors {o[2]} vs canonical {canon_out[2]}")
    return None


def jobs_for(cfg, thorough, seed):
    """Deterministic list of (doc index, gap index, separator elements)."""
    docs = base_docs(cfg)
    s1 = separators(cfg, 1)
    s2 = separators(cfg, 2)
    s3 = separators(cfg, 3)
    exotic = [(e,) for e in T.EXOTIC_BLOCK] + ([(e,) for e in T.EXOTIC_HASH] if cfg in T.HASH_COMMENTS else [])
    rng = random.Random(f"{seed}:{cfg}:c04:mixtures")
    seen = set()
    jobs = []
    for di, (nm, doc) in enumerate(docs):
        toks, kinds, g = doc_gaps(doc)
        for i, c in enumerate(g):
            left = kinds[i - 1] if i > 0 else "BOF"
            right = kinds[i] if i < len(toks) else ("EOF" if doc.get("trailer") is None else "trailer")
            first = (left, right) not in seen
            seen.add((left, right))
            if thorough or first:
                if c in ("opt", "lead", "tail"):
                    jobs.append((di, i, ()))
                for s in s1:
                    jobs.append((di, i, s))
            if first:
                for s in exotic:
                    jobs.append((di, i, s))
                if c == "tail" and right == "EOF" and cfg in T.HASH_COMMENTS:
                    for e in T.HASH_AT_EOF:
                        jobs.append((di, i, (e,)))
                for s in (s2 if thorough else rng.sample(s2, 20)):
                    jobs.append((di, i, s))
                for s in rng.sample(s3, 300 if thorough else 10):
                    jobs.append((di, i, s))
    return docs, jobs


def work_gaps(args):
    cfg, thorough, seed, idx, nchunks = args
    docs, jobs = jobs_for(cfg, thorough, seed)
    canon = {}
    fails = []
    keys = set()
    pairs = set()
    n = 0
    sample = None
    for j in range(idx, len(jobs), nchunks):
        di, i, els = jobs[j]
        nm, doc = docs[di]
        toks, kinds, g = doc_gaps(doc)
        if di not in canon:
            ctext = render_variant(doc, toks, g, 0, "")
            co = T.outcome(cfg, ctext)
            if co[0] == "ok" and co[1] != T.expected(doc, cfg):
                co = ("misread", co[1], co[2])       # canonical text is not read as its denotation: C03's business
            canon[di] = (ctext, co)
            if canon[di][1][0] == "crash":
                o = canon[di][1]
                fails.append((cfg, nm, "canonical", "canonical", ("canonical",), ctext, ctext, "crash-" + o[1],
                              f"{o[1]} (not LexerError/ParseError): {o[2]}"))
        ctext, cout = canon[di]
        sep = T.join_sep(list(els))
        text = render_variant(doc, toks, g, i, sep)
        left = kinds[i - 1] if i > 0 else "BOF"
        right = kinds[i] if i < len(toks) else ("EOF" if doc.get("trailer") is None else "trailer")
        n += 1
        keys.add(_h(cfg, text))
        pairs.add((left, right))
        if sample is None and len(els) == 2:
            sample = {"config": cfg, "canonical": ctext, "variant": text, "gap": f"{left}|{right}", "separator": T.sep_name(els)}
        r = compare(cfg, cout, text)
        if r is not None:
            fails.append((cfg, nm, left, right, els, ctext, text, r[0], r[1]))
    return cfg, n, keys, pairs, fails, [sample] if sample else [], sum(1 for v in canon.values() if v[1][0] != "ok")


def work_random(args):
    cfg, thorough, seed, idx, nchunks = args
    ndocs = 1500 if thorough else 160
    rng = random.Random(f"{seed}:{cfg}:c04:random")
    pool = T.atoms(cfg)
    fails = []
    keys = set()
    n = 0
    sample = None
    skipped = 0
    for d in range(ndocs):
        doc = T.random_doc(rng, cfg, pool, nstmts=(1, 5), depth=2)
        toks = T.tokens(doc)
        layouts = [T.random_layout(rng, cfg, toks) for _ in range(4)]
        tails = [T.random_sep(rng, cfg, "opt") if doc.get("trailer") is None else rng.choice(["", " "]) for _ in range(4)]
        if d % nchunks != idx:
            continue
        ctext = T.spaced(doc)
        cout = T.outcome(cfg, ctext)
        if cout[0] == "ok" and cout[1] != T.expected(doc, cfg):
            cout = ("misread", cout[1], cout[2])
        if cout[0] == "crash":
            fails.append((cfg, "random", "canonical", "canonical", ("canonical",), ctext, ctext, "crash-" + cout[1], cout[2]))
        if cout[0] != "ok":
            skipped += 1
        for seps, tail in zip(layouts, tails):
            text = T.render(toks, seps, doc.get("trailer"), tail)[0]
            n += 1
            keys.add(_h(cfg, text))
            if sample is None:
                sample = {"config": cfg, "canonical": ctext, "variant": text}
            r = compare(cfg, cout, text)
            if r is not None:
                # reduce: restore the canonical separator gap by gap while the difference persists
                cur = list(seps)
                curtail = tail
                canon_seps = ["" if c == "lead" else " " for c in T.gaps(toks)]
                for i in range(len(cur)):
                    if cur[i] == canon_seps[i]:
                        continue
                    trial = cur[:i] + [canon_seps[i]] + cur[i + 1:]
                    if compare(cfg, cout, T.render(toks, trial, doc.get("trailer"), curtail)[0]) is not None:
                        cur = trial
                if curtail and compare(cfg, cout, T.render(toks, cur, doc.get("trailer"), "")[0]) is not None:
                    curtail = ""
                text2 = T.render(toks, cur, doc.get("trailer"), curtail)[0]
                r2 = compare(cfg, cout, text2) or r
                changed = [i for i in range(len(cur)) if cur[i] != canon_seps[i]]
                kinds = [fine_kind(t, k) for t, k in toks]
                if len(changed) == 1 and not curtail:
                    i = changed[0]
                    left = kinds[i - 1] if i else "BOF"
                    fails.append((cfg, "random", left, kinds[i], ("raw", cur[i]), ctext, text2, r2[0], r2[1]))
                elif not changed and curtail:
                    fails.append((cfg, "random", kinds[-1], "EOF", ("raw", curtail), ctext, text2, r2[0], r2[1]))
                else:
                    fails.append((cfg, "random", "several-gaps", str(len(changed)), ("raw", "multi"), ctext, text2, r2[0], r2[1]))
    return cfg, n, keys, set(), fails, [sample] if sample else [], skipped


# ---------------------------------------------------------------------------------------
# grouping
# ---------------------------------------------------------------------------------------
def _is_subseq(u, t):
    it = iter(t)
    return all(any(x == y for y in it) for x in u)


def _raw_name(sep):
    """Name a raw separator string by its elements."""
    out = []
    i = 0
    while i < len(sep):
        if sep[i] in T.WS_NAMES:
            out.append(T.WS_NAMES[sep[i]])
            i += 1
        elif sep.startswith("/*", i):
            j = sep.index("*/", i + 2) + 2
            out.append(T.COMMENTS.get(sep[i:j], "comment"))
            i = j
        elif sep[i] == "#":
            j = sep.index("\n", i) + 1
            out.append("hash")
            i = j
        else:
            out.append("x")
            i += 1
    return "+".join(out) or "empty"


def group_failures(sec_gaps, sec_rand, fails):
    by = {}
    for f in fails:
        if f[1] == "random" or f[4] == ("canonical",):
            continue
        by.setdefault((f[0], f[2], f[3]), []).append(f)
    minimal = []
    for (cfg, left, right), lst in sorted(by.items()):
        failing = {}
        for f in lst:
            failing.setdefault(tuple(f[4]), f)
        for els, f in sorted(failing.items(), key=lambda kv: (len(kv[0]), kv[0])):
            if any(u != els and len(u) > 0 and len(u) < len(els) and _is_subseq(u, els) for u in failing):
                continue
            minimal.append((cfg, left, right, els, f))
    # a separator that fails in many different gaps is one defect of that separator: one key, smallest witness
    per_sep = {}
    for cfg, left, right, els, f in minimal:
        per_sep.setdefault((cfg, els), []).append((left, right, f))
    for (cfg, els), lst in sorted(per_sep.items()):
        if len(lst) >= 4:
            f = min((x[2] for x in lst), key=lambda f: (len(f[6]), f[6]))
            _emit(sec_gaps, f"{PID}:{cfg}:any-gap:{T.sep_name(els)}", f,
                  extra=f"; this separator fails in {len(lst)} of the kind pairs tried")
            sec_gaps.notes.append(f"{cfg} separator {T.sep_name(els)} fails in {len(lst)} kind pairs: "
                                  + ", ".join(sorted(f"{l}|{r}" for l, r, _ in lst))[:600])
        else:
            for left, right, f in lst:
                _emit(sec_gaps, f"{PID}:{cfg}:{left}|{right}:{T.sep_name(els)}", f)
    for f in fails:
        if f[4] == ("canonical",):
            _emit(sec_gaps if f[1] != "random" else sec_rand, f"{PID}:{f[0]}:canonical-crash:{f[7]}", f)
    seen = set()
    known = {(v.data["config"], v.data["gap"], v.data["separator"]) for v in sec_gaps.violations if "gap" in v.data}
    for f in fails:
        if f[1] != "random" or f[4] == ("canonical",):
            continue
        name = _raw_name(f[4][1]) if f[4][1] != "multi" else "multi"
        gap = f"{f[2]}|{f[3]}"
        k = (f[0], gap, name)
        if k in seen:
            continue
        seen.add(k)
        # already reported by the exhaustive part (same gap, a sub-sequence of this separator)?
        if any(c == f[0] and g == gap and _is_subseq(s.split("+"), name.split("+")) for c, g, s in known):
            continue
        _emit(sec_rand, f"{PID}:{f[0]}:random:{gap}:{name}", f, sepname=name)


def _emit(s, key, f, extra="", sepname=None):
    cfg, nm, left, right, els, ctext, text, mode, desc = f
    s.violation(key, f"{cfg}: {T.show(ctext, 70)} loads, but {T.show(text, 90)} -> {desc} [{mode}; gap {left}|{right}{extra}]",
                {"config": cfg, "canonical": ctext, "text": text, "gap": f"{left}|{right}",
                 "separator": sepname or (T.sep_name(els) if els and els[0] != "raw" else "raw"), "mode": mode, "label": nm})


def sections(ctx):
    th = ctx.thorough
    t0 = time.time()
    sg = Section("one-gap-every-separator", "bounded", bounded=True,
                 rule="base labels covering every adjacent (fine token kind, fine token kind) pair incl. BOF/EOF; one gap replaced by: "
                      "each of 6 white-space characters, 3 block comments, '# c\\n' (ISIS/default), empty where white space is "
                      "optional - " + ("for every (label, gap)" if th else "once per kind pair") + "; 7 further block-comment and 9 "
                      "further '#'-comment spellings once per kind pair; 2- and 3-element mixtures once per kind pair ("
                      + ("all pairs, 300 sampled triples" if th else "20 + 10 sampled") + "); compared with the single-space layout, 5 configurations; labels "
                      "whose single-space text is not read as the oracle tree are skipped (C03 reports them)",
                 bounds={"mixture_len": 3, "mixtures": "all pairs + 300 triples per kind pair" if th else "20 pairs + 10 triples per kind pair", "seed": ctx.seed})
    sr = Section("random-layouts", "bounded", bounded=True,
                 rule="seeded random labels (<= 5 statements, blocks, nesting <= 2), 4 random layouts each (every gap a random "
                      "separator of <= 3 elements, random tail); failures are reduced gap by gap",
                 bounds={"labels_per_config": 1500 if th else 160, "seed": ctx.seed})
    nch = 16 if th else 6
    tasks = [("g", (cfg, th, ctx.seed, i, nch)) for cfg in T.CONFIGS for i in range(nch)]
    nr = 8 if th else 2
    tasks += [("r", (cfg, th, ctx.seed, i, nr)) for cfg in T.CONFIGS for i in range(nr)]
    with mp.get_context("fork").Pool(ctx.jobs) as pool:
        outs = pool.map(_dispatch, tasks, chunksize=1)
    fails = []
    allpairs = {}
    skip = {}
    for (kind, _), (cfg, n, keys, pairs, fl, samples, skipped) in zip(tasks, outs):
        s = sg if kind == "g" else sr
        s.merge_counts(n, keys, samples)
        fails += fl
        allpairs.setdefault(cfg, set()).update(pairs)
        skip[(kind, cfg)] = max(skip.get((kind, cfg), 0), skipped) if kind == "g" else skip.get((kind, cfg), 0) + skipped
    sg.bounds["kind_pairs"] = {c: len(p) for c, p in allpairs.items()}
    for (kind, cfg), k in sorted(skip.items()):
        if k:
            (sg if kind == "g" else sr).notes.append(
                f"{cfg}: {k} labels skipped because their single-space text fails to load or is not read as the oracle tree")
    group_failures(sg, sr, fails)
    sg.exhaustive = False      # 3-element mixtures are sampled
    el = time.time() - t0
    tot = (sg.evaluations + sr.evaluations) or 1
    sg.seconds = el * sg.evaluations / tot
    sr.seconds = el * sr.evaluations / tot
    return [sg, sr]


def _dispatch(t):
    return work_gaps(t[1]) if t[0] == "g" else work_random(t[1])


def replay(data):
    cfg = data.get("config")
    text = data.get("text")
    ctext = data.get("canonical")
    if cfg is None or text is None or ctext is None:
        return None
    cout = T.outcome(cfg, ctext)
    if cout[0] == "crash":
        return f"{cfg}: {T.show(ctext)} -> {cout[1]} (not LexerError/ParseError)"
    r = compare(cfg, cout, text)
    if r is None:
        return None
    return f"{cfg}: {T.show(ctext, 70)} loads, but {T.show(text, 90)} -> {r[1]} [{r[0]}]"
