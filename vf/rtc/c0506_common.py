"""Shared machinery of the C05 / C06 bounded drivers: the five parser configurations, a
step-budgeted load (the lexer generator handed to the parser is wrapped so that every
next/send/throw is counted), a per-input alarm, and a watchdog batch runner that never hangs
on a load that does (hung batches are bisected down to the input)."""
import multiprocessing as mp
import os
import signal
import time
import traceback
import warnings

CONFIGS = ("PVL", "ODL", "PDS3", "ISIS", "default")
STEP_C = 50           # budget = STEP_C * (len(text) + 10) generator operations
ALARM_S = 8.0         # per-load alarm inside a worker, in CPU seconds of the process (pure-Python loops)


class BudgetExceeded(BaseException):
    """Private: the load performed more token-stream operations than c*(len+10)."""


class HardTimeout(BaseException):
    """Private: the per-load alarm fired."""


class CountingTokens:
    """Generator proxy: counts every next/send/throw on the real lexer generator."""

    def __init__(self, gen, limit):
        self.gen = gen
        self.limit = limit
        self.steps = 0

    def _tick(self):
        self.steps += 1
        if self.steps > self.limit:
            raise BudgetExceeded(self.steps)

    def __iter__(self):
        return self

    def __next__(self):
        self._tick()
        return next(self.gen)

    def send(self, value):
        self._tick()
        return self.gen.send(value)

    def throw(self, *args):
        self._tick()
        return self.gen.throw(*args)

    def close(self):
        return self.gen.close()


def make_parser(config, lexer_fn=None):
    """A fresh parser object of one of the five configurations (pvl_validate's `dialects`
    table for the four named ones; what pvl.loads(text) builds for 'default')."""
    from pvl.parser import PVLParser, ODLParser, OmniParser
    from pvl.grammar import PVLGrammar, ODLGrammar, PDSGrammar, ISISGrammar
    from pvl.decoder import PVLDecoder, ODLDecoder, PDSLabelDecoder, OmniDecoder
    if config == "PVL":
        g = PVLGrammar()
        return PVLParser(grammar=g, decoder=PVLDecoder(grammar=g), lexer_fn=lexer_fn)
    if config == "ODL":
        g = ODLGrammar()
        return ODLParser(grammar=g, decoder=ODLDecoder(grammar=g), lexer_fn=lexer_fn)
    if config == "PDS3":
        g = PDSGrammar()
        return ODLParser(grammar=g, decoder=PDSLabelDecoder(grammar=g), lexer_fn=lexer_fn)
    if config == "ISIS":
        g = ISISGrammar()
        return OmniParser(grammar=g, decoder=OmniDecoder(grammar=g), lexer_fn=lexer_fn)
    if config == "default":
        return OmniParser(lexer_fn=lexer_fn)      # == pvl.loads: OmniParser(grammar=None, decoder=None)
    raise KeyError(config)


def _alarm_handler(signum, frame):
    raise HardTimeout()


def pvl_frame(tb):
    """Function name of the innermost traceback frame that lies in the pvl package."""
    import pvl
    root = os.path.dirname(os.path.abspath(pvl.__file__))
    name = "?"
    for fs in traceback.extract_tb(tb):
        if os.path.abspath(fs.filename).startswith(root):
            name = f"{os.path.basename(fs.filename)[:-3]}.{fs.name}"
    return name


def nesting_depth(text):
    """Upper estimate of the nesting depth of a text (brackets + block keywords)."""
    import re
    d = mx = 0
    for ch in text:
        if ch in "({":
            d += 1
            mx = max(mx, d)
        elif ch in ")}":
            d = max(0, d - 1)
    b = mb = 0
    for w in re.findall(r"[A-Za-z_]+", text):
        w = w.upper()
        if w in ("GROUP", "OBJECT", "BEGIN_GROUP", "BEGIN_OBJECT"):
            b += 1
            mb = max(mb, b)
        elif w in ("END_GROUP", "END_OBJECT"):
            b = max(0, b - 1)
    return mx + mb


def load(config, text, budget=True, alarm=ALARM_S, direct=False):
    """Run one load.  -> ("ok", module) | ("exc", exception, pvl-frame) | ("spin", how).

    direct=True calls pvl.loads(text) itself (only for config 'default'; no step budget)."""
    from pvl.lexer import lexer as real_lexer
    holder = {}

    def lexer_fn(s, g=None, d=None):
        limit = STEP_C * (len(text) + 10)
        c = CountingTokens(real_lexer(s, g=g, d=d), limit)
        holder["tokens"] = c
        return c

    old = None
    if alarm:
        old = signal.signal(signal.SIGVTALRM, _alarm_handler)
        signal.setitimer(signal.ITIMER_VIRTUAL, alarm)
    try:
        with warnings.catch_warnings():
            warnings.simplefilter("ignore")
            try:
                if direct:
                    import pvl
                    m = pvl.loads(text)
                else:
                    p = make_parser(config, lexer_fn if budget else None)
                    m = p.parse(text)
                return ("ok", m)
            except BudgetExceeded:
                return ("spin", f"more than {STEP_C}*(len+10) = {STEP_C * (len(text) + 10)} token-stream operations")
            except HardTimeout:
                return ("spin", f"no result after {alarm} s of CPU time")
            except BaseException as e:          # classified by the caller, never ignored
                if isinstance(e, (KeyboardInterrupt, SystemExit)):
                    raise
                return ("exc", e, pvl_frame(e.__traceback__))
    finally:
        if alarm:
            signal.setitimer(signal.ITIMER_VIRTUAL, 0)
            signal.signal(signal.SIGVTALRM, old)


def allowed_exception(e, text):
    from pvl.exceptions import LexerError, ParseError
    if isinstance(e, (LexerError, ParseError)):
        return True
    if isinstance(e, RecursionError) and nesting_depth(text) > 50:
        return True
    return False


def outcome(config, text, **kw):
    """Picklable summary: ("ok",) | ("err", ExcName) allowed | ("bad", ExcName, frame, msg) | ("spin", how)."""
    r = load(config, text, **kw)
    if r[0] == "ok":
        return ("ok",)
    if r[0] == "spin":
        return ("spin", r[1])
    e, fr = r[1], r[2]
    name = type(e).__name__
    if allowed_exception(e, text):
        return ("err", name)
    return ("bad", name, fr, str(e)[:160])


# ---- watchdog batch runner ---------------------------------------------------------------
_STARTS = None


def _wrapped(args):
    fn, idx, batch = args
    _STARTS[idx] = time.time()
    return idx, fn(batch)


def _probe(ctx, fn, items, timeout):
    """Run fn(items) in a one-off process; -> result or None on timeout."""
    pool = ctx.Pool(1)
    try:
        ar = pool.apply_async(fn, (items,))
        try:
            return ("done", ar.get(timeout=timeout))
        except mp.TimeoutError:
            return None
    finally:
        pool.terminate()
        pool.join()


def _bisect(ctx, fn, items, timeout, results, hung):
    if len(items) == 1:
        r = _probe(ctx, fn, items, timeout)
        if r is None:
            hung.append(items[0])
        else:
            results.append(r[1])
        return
    mid = len(items) // 2
    for half in (items[:mid], items[mid:]):
        r = _probe(ctx, fn, half, timeout)
        if r is None:
            _bisect(ctx, fn, half, timeout, results, hung)
        else:
            results.append(r[1])


def run_batches(fn, batches, jobs, batch_timeout):
    """fn: top-level function(list of inputs) -> mergeable result.  batches: list of lists.
    -> (list of results, list of inputs on which fn never returned).  A batch that runs longer
    than batch_timeout is killed and bisected in one-off processes."""
    global _STARTS
    ctx = mp.get_context("fork")
    n = len(batches)
    results = []
    done = [False] * n
    hung_batches = []
    remaining = list(range(n))
    while remaining:
        _STARTS = ctx.Array("d", n, lock=False)
        pool = ctx.Pool(min(jobs, max(1, len(remaining))))
        stuck = []
        try:
            it = pool.imap_unordered(_wrapped, [(fn, i, batches[i]) for i in remaining], chunksize=1)
            got = 0
            while got < len(remaining):
                try:
                    idx, res = it.next(timeout=1.0)
                    results.append(res)
                    done[idx] = True
                    got += 1
                except mp.TimeoutError:
                    now = time.time()
                    stuck = [i for i in remaining
                             if not done[i] and _STARTS[i] > 0 and now - _STARTS[i] > batch_timeout]
                    if stuck:
                        break
        finally:
            pool.terminate()
            pool.join()
        for i in stuck:
            done[i] = True
            hung_batches.append(i)
        remaining = [i for i in remaining if not done[i]]
    hung = []
    for i in hung_batches:
        _bisect(ctx, fn, list(batches[i]), batch_timeout, results, hung)
    return results, hung


def chunks(seq, size):
    seq = list(seq)
    return [seq[i:i + size] for i in range(0, len(seq), size)]


# ---- character-level delta debugging ------------------------------------------------------
def ddmin(text, pred, max_tests=4000):
    """Smallest (1-minimal under character deletion) text for which pred holds; pred(text) is True."""
    tests = 0
    n = 2
    while len(text) >= 2 and tests < max_tests:
        size = max(1, len(text) // n)
        parts = [text[i:i + size] for i in range(0, len(text), size)]
        reduced = False
        for i in range(len(parts)):
            cand = "".join(parts[:i] + parts[i + 1:])
            tests += 1
            if pred(cand):
                text = cand
                n = max(n - 1, 2)
                reduced = True
                break
        if not reduced:
            if size == 1:
                break
            n = min(len(text), n * 2)
    return text
