"""C01 bounded driver (never counted as proved): dump with each bundled encoder under an option grid, load with the
strict parser of the same dialect, compare with the spec relation ``equiv`` (the five normalisations of C01)."""
from . import roundtrip_common as rc


def sections(ctx):
    return rc.object_sections(ctx, "strict")


def replay(data):
    return rc.replay(dict(data, mode="strict"))
