"""Bounded driver for C20 (never counted as proved): the command-line tools are faithful
front-ends of the library.

pvl.pvl_translate.main(argv) and pvl.pvl_validate.main(argv) are called in-process (stdout captured)
over corpus files, generated labels and damaged files.  Oracles (relational, by the property):
  translate -of F : text == pvl.dumps(pvl.load(infile), encoder=<fresh default encoder of F's class>)
                    [JSON: json.dump(pvl.load(infile))], failing with the same exception type exactly
                    when that library call fails; JSON output additionally parses (object_pairs_hook)
                    to the nested (name, value) pairs of the loaded module.
  validate        : for each dialect row, Loads iff pvl.load(file, parser=<fresh objects of the row's
                    classes>) returns; Encodes iff pvl.dumps(module, encoder=<fresh>) returns; every file
                    and dialect appears in the report; main() never raises for a readable file.
A mismatch seen in-process is re-run in a fresh interpreter (the real tools are one process per
invocation; the module-level parser/encoder objects are shared between in-process calls) and the
key says whether it was confirmed there.
"""
import contextlib
import gc
import hashlib
import io
import json
import logging
import multiprocessing as mp
import os
import random
import re
import shutil
import subprocess
import sys
import tempfile
import time
import warnings

from ..harness import Section, REPO
from . import _entry_labelgen as G

FORMATS = ["PDS3", "ODL", "ISIS", "PVL", "JSON"]
DIALECT_ROWS = ["PDS3", "ODL", "PVL", "ISIS", "Omni"]

DAMAGED = {
    # name: bytes  (why it is interesting)
    "long_key.lbl": b"a_key_that_is_much_longer_than_thirty_characters = 1\nEND\n",
    "nonascii_utf8.lbl": 'name = "café €"\nn = 1\nEND\n'.encode("utf-8"),
    "latin1_bytes.lbl": b'name = "caf\xe9"\nn = 1\nEND\n',
    "naive_time.lbl": b"t = 12:34:56\nd = 2001-01-01\ndt = 2001-01-01T12:00:00\nEND\n",
    "zoned_time.lbl": b"t = 12:34:56+05:30\nu = 01:02:03Z\nEND\n",
    "microseconds.lbl": b"t = 01:02:03.123456\nEND\n",
    "set_of_reals.lbl": b"s = {1.5, 2.5}\nt = {a, 'b c', 3}\nEND\n",
    "empty_seq.lbl": b"s = ()\nEND\n",
    "deep_seq.lbl": b"s = (((1, 2)), (3))\nEND\n",
    "units_on_string.lbl": b"u = abc <m>\nv = (1, 2) <m>\nEND\n",
    "odd_units.lbl": b"u = 1.5 <m^2 ?>\nEND\n",
    "begin_group.lbl": b"BEGIN_GROUP = g\n a = 1\nEND_GROUP = g\nEND\n",
    "hash_comment.lbl": b"# a comment\na = 1\nEND\n",
    "empty_value.lbl": b"a =\nb = 1\nEND\n",
    "empty_value_last.lbl": b"a = 1\nb =\n",
    "unterminated_seq.lbl": b"a = (1, 2\nEND\n",
    "garbage.lbl": b"this is not = = pvl ( at all\n",
    "stray_token.lbl": b"a = 1 x\nEND\n",
    "empty_file.lbl": b"",
    # texts a strict dialect loads but the permissive Omni row does not (a verdict of one row must not depend on another row)
    "strict_only_dash.pvl": b"BEGIN_GROUP = g;\n  tag = abc-\nEND_GROUP = g;\nEND;\n",
    "isis_only_radix_comment.lbl": b"Bands = 12# bands\nEnd\n",
    "only_end.lbl": b"END",
    "binary_tail.lbl": b"a = 1\nGROUP = g\n b = 2\nEND_GROUP\nEND\n" + bytes(range(256)) * 4,
    "nul_tail.lbl": b"a = 1\nEND\n" + b"\x00" * 64,
    "dup_keys.lbl": b"a = 1\na = 2\nGROUP = g\n x = 1\nEND_GROUP\nGROUP = g\n x = 2\nEND_GROUP\nEND\n",
    "group_only.lbl": b"GROUP = g\n x = 1\nEND_GROUP\nEND\n",
    "nested_groups.lbl": b"GROUP = g\n GROUP = h\n  x = 1\n END_GROUP\nEND_GROUP\nOBJECT = o\n y = 2\nEND_OBJECT\nEND\n",
    "pointer.lbl": b"^IMAGE = 12 <BYTES>\n^TABLE = (\"F.DAT\", 3)\nEND\n",
    "quotes.lbl": b"a = \"it's\"\nb = 'say \"hi\"'\nc = \"both ' and \\\" here\"\nEND\n",
    "tabs.lbl": b"a = \"tab\there\"\nEND\n",
    "keywords.lbl": b"a = NULL\nb = TRUE\nc = \"null\"\nd = \"END\"\nEND\n",
    "based.lbl": b"a = 16#FF#\nb = 2#-101#\nc = -2#101#\nEND\n",
    "specials.lbl": b"a = inf\nb = nan\nc = 1e400\nEND\n",
    "dash_continuation.lbl": b"a = abc-\n   def\nEND\n",
    "long_string.lbl": b"note = \"" + b"word " * 60 + b"\"\nEND\n",
    "crlf.lbl": b"a = 1\r\nb = \"x\r\ny\"\r\nEND\r\n",
    "semicolons.lbl": b"a = 1; b = 2;\nEND;\n",
    "isis_style.lbl": b"Object = IsisCube\n  Group = Dimensions\n    Samples = 90\n  End_Group\nEnd_Object\nEnd\n",
    "leap_second.lbl": b"t = 23:59:60\nEND\n",
}


# ---------------------------------------------------------------------------------------
# running the tools
# ---------------------------------------------------------------------------------------
class _Capture(logging.Handler):
    def __init__(self):
        super().__init__()
        self.records = []

    def emit(self, record):
        self.records.append(record.getMessage()[:200])


_LOG = None


def _quiet_logging():
    """pvl_validate.main() calls logging.basicConfig(); with a handler already installed that is a
    no-op, so nothing is written to this process's stderr.  Only the destination of log lines changes."""
    global _LOG
    if _LOG is None:
        _LOG = _Capture()
        logging.getLogger().addHandler(_LOG)
    _LOG.records.clear()
    return _LOG


def run_tool(tool, argv, flush_path=None):
    """-> ('ok', stdout) | ('raise', ExcName, msg) | ('exit', code, stderr)

    main() never closes the argparse.FileType handles.  A real invocation flushes them at interpreter exit;
    in-process the output handle can sit in a reference cycle (exceptions caught while parsing keep frames
    alive) and the cycle collector may finalise the raw file before the text layer, which silently drops
    the buffered text.  So the still-open writer of *flush_path* is flushed first, as exit would."""
    import pvl.pvl_translate
    import pvl.pvl_validate
    main = {"translate": pvl.pvl_translate.main, "validate": pvl.pvl_validate.main}[tool]
    _quiet_logging()
    out, err = io.StringIO(), io.StringIO()
    try:
        with warnings.catch_warnings():
            warnings.simplefilter("ignore")
            with contextlib.redirect_stdout(out), contextlib.redirect_stderr(err):
                main(list(argv))
        return ("ok", out.getvalue())
    except SystemExit as e:
        return ("exit", e.code, err.getvalue()[-200:])
    except Exception as e:
        return ("raise", type(e).__name__, str(e)[:200])
    finally:
        if flush_path is not None:
            _flush_writers(flush_path)
        gc.collect()


def _flush_writers(path):
    """Flush every open text writer of *path* (see run_tool)."""
    for o in gc.get_objects():
        try:
            if isinstance(o, io.TextIOWrapper) and getattr(o, "name", None) == path and not o.closed:
                o.flush()
        except Exception:
            pass


def run_tool_subprocess(tool, argv, stdin_bytes=None, timeout=120):
    """Fresh interpreter -> ('ok', stdout) | ('raise', ExcName, last stderr line)"""
    code = f"import sys; from pvl.pvl_{tool} import main; main(sys.argv[1:])"
    env = dict(os.environ, PYTHONPATH=REPO, PYTHONWARNINGS="ignore", PYTHONIOENCODING="utf-8")
    p = subprocess.run([sys.executable, "-c", code] + list(argv), input=stdin_bytes, capture_output=True,
                       timeout=timeout, env=env)
    if p.returncode == 0:
        return ("ok", p.stdout.decode("utf-8", "replace"))
    last = [ln for ln in p.stderr.decode("utf-8", "replace").strip().splitlines() if ln.strip()]
    last = last[-1] if last else ""
    m = re.match(r"([\w.]+)(?::|$)", last)
    name = m.group(1).split(".")[-1] if m else "exit-%d" % p.returncode
    return ("raise", name, last[:200])


# ---------------------------------------------------------------------------------------
# translate
# ---------------------------------------------------------------------------------------
def lib_translate(path, fmt):
    """The library call the tool is a front-end of -> ('ok', text) | ('raise', ExcName, msg)"""
    import pvl
    import pvl.pvl_translate as T
    try:
        with warnings.catch_warnings():
            warnings.simplefilter("ignore")
            m = pvl.load(path)
            if fmt == "JSON":
                buf = io.StringIO()
                json.dump(m, buf)
                return ("ok", buf.getvalue())
            cls = type(T.formats[fmt].encoder)
            return ("ok", pvl.dumps(m, encoder=cls()))
    except Exception as e:
        return ("raise", type(e).__name__, str(e)[:200])


def json_model(v):
    """What a JSON document 'containing the label's nested names and values' parses to with
    object_pairs_hook=list: blocks -> list of (name, value) tuples, sequences -> lists,
    value-with-units -> [value, units]."""
    import pvl.collections as pc
    if isinstance(v, pc.MutableMappingSequence):
        return [(k, json_model(x)) for k, x in v.items()]
    if isinstance(v, tuple) and hasattr(v, "_fields"):
        return [json_model(x) for x in v]
    if isinstance(v, list):
        return [json_model(x) for x in v]
    if v is None or isinstance(v, (bool, int, float)):
        return v
    if isinstance(v, str):
        return str(v)
    raise TypeError(type(v).__name__)


def file_feature(data):
    try:
        data.decode("utf-8")
        return "utf8-file"
    except UnicodeDecodeError:
        return "undecodable-bytes-in-file"


def same_outcome(a, b):
    if a[0] != b[0]:
        return False
    if a[0] == "ok":
        return a[1] == b[1]
    return a[1] == b[1]


def kind_of(tool, lib):
    t = "ok" if tool[0] == "ok" else f"{tool[0]}s-{tool[1]}"
    b = "ok" if lib[0] == "ok" else f"raises-{lib[1]}"
    if tool[0] == "ok" and lib[0] == "ok":
        return "output-differs"
    return f"tool-{t}:library-{b}"


def check_translate(path, name, tmpdir, modes):
    import pvl
    fails, n, distinct = [], 0, set()
    data = open(path, "rb").read()
    feat = file_feature(data)
    outp = os.path.join(tmpdir, "translated.out")
    for fmt in FORMATS:
        lib = lib_translate(path, fmt)
        for mode in modes:
            n += 1
            distinct.add((name, fmt, mode))
            if mode == "outfile":
                if os.path.exists(outp):
                    os.remove(outp)
                argv = ["-of", fmt, path, outp]
                r = run_tool("translate", argv, flush_path=outp)
                if r[0] == "ok":
                    extra = r[1]
                    with open(outp, "rb") as fh:
                        r = ("ok", fh.read().decode("utf-8", "replace"))
                    if extra:
                        fails.append({"key": f"C20:translate:{fmt}:stdout-not-empty-with-outfile", "check": "translate",
                                      "file": name, "bytes_hex": data.hex(), "fmt": fmt, "mode": mode,
                                      "got": repr(extra)[:200], "want": "nothing on stdout"})
            else:
                argv = ["-of", fmt, path]
                r = run_tool("translate", argv)
            rec = {"check": "translate", "file": name, "bytes_hex": data.hex() if len(data) < 6000 else None,
                   "path": path if len(data) >= 6000 else None, "fmt": fmt, "mode": mode}
            if not same_outcome(r, lib):
                kind = kind_of(r, lib)
                sub = run_tool_subprocess("translate", argv)
                if mode == "outfile" and sub[0] == "ok":
                    with open(outp, "rb") as fh:
                        sub = ("ok", fh.read().decode("utf-8", "replace"))
                conf = "confirmed-in-fresh-process" if not same_outcome(sub, lib) else "in-process-only"
                fails.append(dict(rec, key=f"C20:translate:{fmt}:{kind}:{feat}:{conf}",
                                  got=repr(r)[:300], want=repr(lib)[:300]))
                continue
            if fmt == "JSON" and r[0] == "ok":
                try:
                    with warnings.catch_warnings():
                        warnings.simplefilter("ignore")
                        want = json_model(pvl.load(path))
                    got = json.loads(r[1], object_pairs_hook=list)
                    if repr(got) != repr(want):      # repr: nan compares unequal to itself
                        fails.append(dict(rec, key=f"C20:translate:JSON:document-content:{feat}", got=repr(got)[:300],
                                          want=repr(want)[:300]))
                except TypeError as e:
                    fails.append(dict(rec, key="C20:translate:JSON:driver-model-gap", got=repr(e), want="model"))
                except ValueError as e:
                    fails.append(dict(rec, key=f"C20:translate:JSON:output-is-not-json:{feat}", got=repr(e)[:200],
                                      want="a JSON document"))
    return n, distinct, fails


# ---------------------------------------------------------------------------------------
# validate
# ---------------------------------------------------------------------------------------
def oracle_validate(path):
    """{dialect: (loads, encodes, why)} with fresh objects of the classes pvl_validate.dialects uses."""
    import pvl
    import pvl.pvl_validate as V
    out = {}
    for k, row in V.dialects.items():
        g = type(row["grammar"])()
        d = type(row["decoder"])(grammar=g)
        p = type(row["parser"])(grammar=g, decoder=d)
        e = type(row["encoder"])(grammar=g, decoder=d)
        why = ""
        try:
            with warnings.catch_warnings():
                warnings.simplefilter("ignore")
                m = pvl.load(path, parser=p, grammar=g, decoder=d)
            loads = True
        except Exception as ex:
            loads, why = False, "load:" + type(ex).__name__
        encodes = None
        if loads:
            try:
                with warnings.catch_warnings():
                    warnings.simplefilter("ignore")
                    pvl.dumps(m, encoder=e)
                encodes = True
            except Exception as ex:
                encodes, why = False, "dump:" + type(ex).__name__
        out[k] = (loads, encodes, why)
    return out


CELL = re.compile(r"^\s*(No L|L)\s*(No E|E)?\s*$")


def parse_report(text, files):
    """-> {file: {dialect: (loads, encodes)}} or raises ValueError(description)"""
    lines = text.splitlines()
    if lines and lines[0].startswith("pvl library version:"):
        lines = lines[1:]
    res = {}
    if len(files) == 1:
        rows = {}
        for ln in lines:
            parts = ln.split(" | ")
            if len(parts) != 3:
                raise ValueError(f"unexpected line {ln!r}")
            name, l, e = (x.strip() for x in parts)
            lv = {"Loads": True, "does NOT load": False}.get(l)
            ev = {"Encodes": True, "does NOT encode": False, "": None}.get(e, "?")
            if lv is None or ev == "?":
                raise ValueError(f"unexpected verdict in {ln!r}")
            if name in rows:
                raise ValueError(f"dialect {name} twice")
            rows[name] = (lv, ev)
        res[files[0]] = rows
        return res
    if len(lines) < 3:
        raise ValueError("table too short: " + repr(text[:200]))
    header = [x.strip() for x in lines[1].split(" | ")]
    if header[0] != "File":
        raise ValueError(f"unexpected header {lines[1]!r}")
    flavors = header[1:]
    for ln in lines[3:]:
        parts = ln.split(" | ")
        if len(parts) != len(flavors) + 1:
            raise ValueError(f"unexpected row {ln!r}")
        fname = parts[0].rstrip()
        rows = {}
        for fl, cell in zip(flavors, parts[1:]):
            m = CELL.match(cell)
            if not m:
                raise ValueError(f"unexpected cell {cell!r} in {ln!r}")
            rows[fl] = (m.group(1) == "L", {None: None, "E": True, "No E": False}[m.group(2)])
        if fname in res:
            raise ValueError(f"file {fname} twice")
        res[fname] = rows
    return res


def verdict(t):
    l, e = t[0], t[1]
    return ("Loads" if l else "NoLoad") + {True: "+Encodes", False: "+NoEncode", None: ""}[e]


def check_validate(paths, names, flags):
    """One invocation over *paths* -> (n, distinct, fails)"""
    fails, n, distinct = [], 0, set()
    argv = list(flags) + list(paths)
    mode = ("single" if len(paths) == 1 else "many") + ("" if not flags else flags[0])
    r = run_tool("validate", argv)
    blobs = {}
    for p, nm in zip(paths, names):
        d = open(p, "rb").read()
        blobs[nm] = d.hex() if len(d) < 6000 else None
    rec = {"check": "validate", "files": names, "paths": list(paths), "flags": list(flags), "blobs": blobs}
    n += 1
    if r[0] != "ok":
        sub = run_tool_subprocess("validate", argv)
        conf = "confirmed-in-fresh-process" if sub[0] != "ok" else "in-process-only"
        fails.append(dict(rec, key=f"C20:validate:main-{r[0]}s-{r[1]}:{mode}:{conf}", got=repr(r)[:300],
                          want="a report for every readable file"))
        return n, distinct, fails
    try:
        rep = parse_report(r[1], list(paths))
    except ValueError as e:
        fails.append(dict(rec, key=f"C20:validate:report-layout:{mode}", got=str(e)[:300], want="documented layout"))
        return n, distinct, fails
    sub_rep = None
    for p, nm in zip(paths, names):
        if p not in rep:
            fails.append(dict(rec, key=f"C20:validate:file-missing-from-report:{mode}", got=repr(sorted(rep))[:200],
                              want=p))
            continue
        want = oracle_validate(p)
        for dia in DIALECT_ROWS:
            n += 1
            distinct.add((nm, dia, mode))
            if dia not in rep[p]:
                fails.append(dict(rec, key=f"C20:validate:{dia}:row-missing:{mode}", got=repr(rep[p])[:200], want=dia,
                                  file=nm))
                continue
            got = rep[p][dia]
            w = want[dia]
            if got != w[:2]:
                if sub_rep is None:
                    s2 = run_tool_subprocess("validate", argv)
                    try:
                        sub_rep = parse_report(s2[1], list(paths)) if s2[0] == "ok" else {}
                    except ValueError:
                        sub_rep = {}
                conf = ("confirmed-in-fresh-process" if sub_rep.get(p, {}).get(dia) != w[:2] else "in-process-only")
                fails.append(dict(rec, file=nm, dialect=dia,
                                  key=f"C20:validate:{dia}:tool={verdict(got)}:library={verdict(w)}({w[2]}):{conf}",
                                  got=verdict(got), want=f"{verdict(w)} ({w[2]})"))
    return n, distinct, fails


# ---------------------------------------------------------------------------------------
# workers
# ---------------------------------------------------------------------------------------
def materialise(tmpdir, items):
    """items: (name, bytes-hex or None, path or None) -> list of (path, name)"""
    out = []
    for name, hx, path in items:
        if path is None:
            path = os.path.join(tmpdir, name.replace("/", "_"))
            with open(path, "wb") as fh:
                fh.write(bytes.fromhex(hx))
        out.append((path, name))
    return out


def translate_worker(args):
    items, modes = args
    tmpdir = tempfile.mkdtemp(prefix="vf_c20_")
    try:
        n, distinct, fails = 0, set(), []
        for path, name in materialise(tmpdir, items):
            a, b, c = check_translate(path, name, tmpdir, modes)
            n += a
            distinct |= b
            fails += c
        return n, distinct, _dedupe(fails)
    finally:
        shutil.rmtree(tmpdir, ignore_errors=True)


def validate_worker(args):
    items, flags_list, group = args
    tmpdir = tempfile.mkdtemp(prefix="vf_c20_")
    try:
        n, distinct, fails = 0, set(), []
        files = materialise(tmpdir, items)
        if group:
            for flags in flags_list:
                a, b, c = check_validate([p for p, _ in files], [nm for _, nm in files], flags)
                n += a
                distinct |= b
                fails += c
        else:
            for path, name in files:
                for flags in flags_list:
                    a, b, c = check_validate([path], [name], flags)
                    n += a
                    distinct |= b
                    fails += c
        return n, distinct, _dedupe(fails)
    finally:
        shutil.rmtree(tmpdir, ignore_errors=True)


def _size(f):
    if "bytes_hex" in f:
        return len(f.get("bytes_hex") or "") or 10 ** 6
    return sum(len(v or "") or 10 ** 6 for v in f.get("blobs", {}).values())


def _dedupe(fails):
    best = {}
    for f in fails:
        sz = _size(f)
        if f["key"] not in best or sz < best[f["key"]][0]:
            best[f["key"]] = (sz, f)
    return [v[1] for v in best.values()]


# ---------------------------------------------------------------------------------------
# inputs
# ---------------------------------------------------------------------------------------
def inputs(seed, n_gen):
    rng = random.Random(seed)
    items = []
    for p in G.corpus_files():
        items.append(("corpus/" + os.path.relpath(p, G.CORPUS_DIR), None, p))
    for name, data in DAMAGED.items():
        items.append(("damaged/" + name, data.hex(), None))
    plan = [("omni", dict(empty=True, unicode_strings=True, multiline=True, hash_comments=True)),
            ("pvl", dict()), ("odl", dict())]
    for profile, kw in plan:
        g = G.Gen(rng, profile=profile, **kw)
        for i in range(n_gen):
            t = g.label()[0] + rng.choice(["\n", "", "\r\n"])
            items.append((f"gen/{profile}_{i}.lbl", t.encode("utf-8").hex(), None))
    return items


def ground_section():
    """formats[F].encoder is an instance of F's encoder class with default options."""
    import pvl.pvl_translate as T
    import pvl.encoder as pe
    s = Section("translate-format-table", "bounded", bounded=True,
                rule="the five entries of pvl_translate.formats: encoder class and option values equal a fresh "
                     "default-constructed encoder of that class")
    want = {"PDS3": pe.PDSLabelEncoder, "ODL": pe.ODLEncoder, "ISIS": pe.ISISEncoder, "PVL": pe.PVLEncoder}
    for k in FORMATS:
        s.case(sample={"format": k}, distinct_key=k)
        if k not in T.formats:
            s.violation(f"C20:translate:format-missing:{k}", f"pvl_translate.formats has no {k}", {"check": "ground"})
            continue
        if k == "JSON":
            continue
        enc = T.formats[k].encoder
        if type(enc) is not want[k]:
            s.violation(f"C20:translate:format-class:{k}", f"formats[{k}] uses {type(enc).__name__}", {"check": "ground"})
            continue
        fresh = want[k]()
        simple = lambda o: {a: v for a, v in vars(o).items() if isinstance(v, (int, str, bool, float, type(None)))}
        if simple(enc) != simple(fresh) or type(enc.grammar) is not type(fresh.grammar) \
                or type(enc.decoder) is not type(fresh.decoder):
            s.violation(f"C20:translate:format-options:{k}", f"formats[{k}] options {simple(enc)} != defaults {simple(fresh)}",
                        {"check": "ground"})
    if set(T.formats) != set(FORMATS):
        s.violation("C20:translate:format-set", f"formats = {sorted(T.formats)}", {"check": "ground"})
    return s


def stdin_section():
    """The tool documents STDIN as its default input: a pipe and a redirected file."""
    s = Section("translate-stdin", "bounded", bounded=True,
                rule="pvl_translate -of F with the label on standard input (pipe; redirected regular file) in a fresh "
                     "interpreter, against pvl.dumps(pvl.loads(text)); 2 labels x 5 formats x 2 kinds of stdin")
    t0 = time.time()
    tmpdir = tempfile.mkdtemp(prefix="vf_c20_")
    try:
        for name in ("isis_style.lbl", "dup_keys.lbl"):
            data = DAMAGED[name]
            path = os.path.join(tmpdir, name)
            with open(path, "wb") as fh:
                fh.write(data)
            for fmt in FORMATS:
                lib = lib_translate(path, fmt)
                for kind in ("pipe", "redirect"):
                    if kind == "pipe":
                        r = run_tool_subprocess("translate", ["-of", fmt], stdin_bytes=data)
                    else:
                        code = "import sys; from pvl.pvl_translate import main; main(sys.argv[1:])"
                        env = dict(os.environ, PYTHONPATH=REPO, PYTHONWARNINGS="ignore", PYTHONIOENCODING="utf-8")
                        with open(path, "rb") as fh:
                            p = subprocess.run([sys.executable, "-c", code, "-of", fmt], stdin=fh, capture_output=True,
                                               env=env, timeout=120)
                        if p.returncode == 0:
                            r = ("ok", p.stdout.decode("utf-8", "replace"))
                        else:
                            last = p.stderr.decode("utf-8", "replace").strip().splitlines()[-1:]
                            r = ("raise", (last or ["?"])[0].split(":")[0].split(".")[-1], (last or [""])[0][:200])
                    s.case(sample={"label": name, "fmt": fmt, "stdin": kind}, distinct_key=(name, fmt, kind))
                    if not same_outcome(r, lib):
                        s.violation(f"C20:translate:stdin-{kind}:{kind_of(r, lib)}",
                                    f"pvl_translate -of {fmt} reading {name} from a {kind}: {repr(r)[:200]}; the library "
                                    f"call gives {repr(lib)[:120]}",
                                    {"check": "stdin", "stdin": kind, "fmt": fmt, "bytes_hex": data.hex()})
    finally:
        shutil.rmtree(tmpdir, ignore_errors=True)
    s.seconds = time.time() - t0
    return s


# ---------------------------------------------------------------------------------------
# sections
# ---------------------------------------------------------------------------------------
def _emit(s, fails):
    for f in sorted(_dedupe(fails), key=lambda f: f["key"]):
        if f["check"] == "translate":
            what = (f"pvl_translate -of {f['fmt']} {f['file']} ({f['mode']}): tool {f['got'][:170]}; library call "
                    f"{f['want'][:170]}")
        else:
            what = (f"pvl_validate {' '.join(f['flags'])} {' '.join(f['files'][:3])}"
                    f"{' ...' if len(f['files']) > 3 else ''}: {f.get('file', '')} {f.get('dialect', '')}: report says "
                    f"{f['got'][:200]}; library gives {f['want'][:120]}")
        s.violation(f["key"], what, {k: v for k, v in f.items() if k != "key"})


def sections(ctx):
    thorough = ctx.thorough
    rng = random.Random(ctx.seed)
    items = inputs(ctx.seed, 120 if thorough else 12)
    out = [ground_section(), stdin_section()]
    pool = mp.get_context("fork").Pool(ctx.jobs)
    try:
        s = Section("translate", "bounded", bounded=True,
                    rule="every corpus file, 37 damaged files (refused by some dialect or encoder: long keys, non-ASCII, "
                         "naive/zoned times, sets of reals, empty sequences, units on strings, # comments, empty values, "
                         "binary tails, duplicates ...) and seeded generated labels x 5 output formats x (outfile "
                         "argument | stdout); distinct = (file, format, mode)",
                    bounds={"files": len(items), "formats": FORMATS, "modes": ["outfile", "stdout"]})
        t0 = time.time()
        fails = []
        for a, b, c in pool.imap_unordered(translate_worker, [([it], ["outfile", "stdout"]) for it in items]):
            s.evaluations += a
            s.distinct |= b
            fails += c
        _emit(s, fails)
        s.samples = [{"file": items[0][0], "fmt": "PDS3", "mode": "outfile"}, {"file": "damaged/dup_keys.lbl", "fmt": "JSON"}]
        s.seconds = time.time() - t0
        out.append(s)

        s = Section("validate", "bounded", bounded=True,
                    rule="the same files: one invocation per file x flags (none, -v, -vv), and invocations over many files "
                         "(random groups of 2-7, and all files at once); every (file, dialect row) verdict is compared "
                         "with fresh parser/decoder/encoder objects of the row's classes",
                    bounds={"files": len(items), "rows": DIALECT_ROWS, "flags": ["", "-v", "-vv"]})
        t0 = time.time()
        flags_single = [[], ["-v"], ["-vv"]] if thorough else [[], ["-v"]]
        tasks = [([it], flags_single, False) for it in items]
        order = list(items)
        rng.shuffle(order)
        i = 0
        while i < len(order):
            k = rng.randint(2, 7)
            tasks.append((order[i:i + k], [[]] if not thorough else [[], ["-v"]], True))
            i += k
        tasks.append((items, [[]], True))
        fails = []
        for a, b, c in pool.imap_unordered(validate_worker, tasks):
            s.evaluations += a
            s.distinct |= b
            fails += c
        _emit(s, fails)
        s.samples = [{"files": [items[1][0]], "flags": ["-v"]}, {"files": [x[0] for x in order[:3]], "flags": []}]
        s.seconds = time.time() - t0
        out.append(s)
    finally:
        pool.close()
        pool.join()
    return out


# ---------------------------------------------------------------------------------------
# replay
# ---------------------------------------------------------------------------------------
def replay(data):
    check = data.get("check")
    tmpdir = tempfile.mkdtemp(prefix="vf_c20_")
    try:
        if check == "translate":
            if data.get("bytes_hex") is not None:
                path = os.path.join(tmpdir, os.path.basename(data["file"]))
                with open(path, "wb") as fh:
                    fh.write(bytes.fromhex(data["bytes_hex"]))
            else:
                path = data["path"]
            n, d, fails = check_translate(path, data["file"], tmpdir, [data["mode"]])
            for f in fails:
                if f["fmt"] == data["fmt"]:
                    return f"{f['key']}: tool {f['got'][:200]}; library {f['want'][:200]}"
            return None
        if check == "validate":
            paths = []
            for nm, p in zip(data["files"], data["paths"]):
                hx = data.get("blobs", {}).get(nm)
                if hx is not None:
                    p = os.path.join(tmpdir, nm.replace("/", "_"))
                    with open(p, "wb") as fh:
                        fh.write(bytes.fromhex(hx))
                paths.append(p)
            n, d, fails = check_validate(paths, data["files"], data["flags"])
            for f in fails:
                if f.get("dialect") == data.get("dialect") and f.get("file") == data.get("file"):
                    return f"{f['key']}: report {f['got'][:200]}; library {f['want'][:200]}"
            return None
        if check == "stdin":
            raw = bytes.fromhex(data["bytes_hex"])
            path = os.path.join(tmpdir, "in.lbl")
            with open(path, "wb") as fh:
                fh.write(raw)
            lib = lib_translate(path, data["fmt"])
            if data["stdin"] == "pipe":
                r = run_tool_subprocess("translate", ["-of", data["fmt"]], stdin_bytes=raw)
                return None if same_outcome(r, lib) else f"stdin pipe: {repr(r)[:200]}; library {repr(lib)[:120]}"
            return None
        return None
    finally:
        shutil.rmtree(tmpdir, ignore_errors=True)
