"""Bounded driver for C19 (never counted as proved): the pvl.new loaders return the same content as
the default loaders.

Differential by the property statement: for each text, pvl.new.loads succeeds exactly when pvl.loads
succeeds (same exception type otherwise); the result is made of the New container classes at the
positions where the default result has PVLModule/PVLGroup/PVLObject; list(items()) is equal at every
level (names, values with exact types, `errors`); pvl.new.dumps(new result) is the text
pvl.dumps(default result), for the default encoder and for the four encoder classes.
"""
import hashlib
import multiprocessing as mp
import os
import random
import time
import warnings

from ..harness import Section
from . import _entry_labelgen as G

ENCODERS = ["default", "PVLEncoder", "ODLEncoder", "ISISEncoder", "PDSLabelEncoder"]

FIXED = [
    "a =\nb = 1",                       # empty value repaired by the default loader
    "a =\nb = 1\nEND",
    "a = 1\nb =\nEND",
    "a =\nEND",
    "a =",
    "GROUP = g\n a =\n b = 2\nEND_GROUP\nEND",
    "a = 1\na = 2\na = 3\nEND",
    "GROUP = g\n x = 1\nEND_GROUP\nGROUP = g\n x = 2\nEND_GROUP\nEND",
    "OBJECT = o\n GROUP = g\n  k = (1, 2.5, \"s\")\n END_GROUP\nEND_OBJECT\nEND",
    "a = {1, 2}\nb = 3 <m>\nc = 2001-01-01\nd = 12:00:00\ne = NULL\nf = TRUE\nEND",
    "",
    "END",
    "a = 1",
    "a = (1, 2",                        # ill-formed: both must fail alike
    "GROUP = g\n a = 1\nEND",
]


def val_sig(v):
    """Value signature with exact types; containers by role-independent class name + items."""
    import pvl.collections as pc
    if isinstance(v, pc.MutableMappingSequence):
        return ("container", type(v).__name__, [(k, val_sig(x)) for k, x in v.items()])
    if isinstance(v, tuple) and hasattr(v, "_fields"):
        return (type(v).__name__, [val_sig(x) for x in v])
    if isinstance(v, list):
        return ("list", [val_sig(x) for x in v])
    if isinstance(v, (set, frozenset)):
        return (type(v).__name__, sorted((val_sig(x) for x in v), key=repr))
    return (type(v).__name__, repr(v))


CLASS_MAP = {"PVLModule": "PVLModuleNew", "PVLGroup": "PVLGroupNew", "PVLObject": "PVLObjectNew"}


def compare(old, new, path, probs):
    """old: default-loader value, new: pvl.new value; append (kind, path, got, want)."""
    import pvl.collections as pc
    if isinstance(old, pc.MutableMappingSequence):
        want_cls = CLASS_MAP.get(type(old).__name__, type(old).__name__ + "New")
        if type(new).__name__ != want_cls:
            probs.append(("container-class", path, type(new).__name__, want_cls))
            if not hasattr(new, "items"):
                return
        o = list(old.items())
        n = list(new.items())
        if [k for k, _ in o] != [k for k, _ in n]:
            probs.append(("item-names", path, repr([k for k, _ in n])[:200], repr([k for k, _ in o])[:200]))
            return
        if len(new) != len(o):
            probs.append(("len", path, str(len(new)), str(len(o))))
        for i, ((k, ov), (_k, nv)) in enumerate(zip(o, n)):
            compare(ov, nv, f"{path}/{k}[{i}]", probs)
        return
    if isinstance(old, list) and isinstance(new, list) and len(old) == len(new):
        for i, (a, b) in enumerate(zip(old, new)):
            compare(a, b, f"{path}[{i}]", probs)
        return
    if val_sig(old) != val_sig(new):
        probs.append(("value", path, repr(val_sig(new))[:200], repr(val_sig(old))[:200]))


def attempt(fn):
    try:
        with warnings.catch_warnings():
            warnings.simplefilter("ignore")
            return ("ok", fn())
    except Exception as e:
        return ("raise", type(e).__name__, str(e)[:200])


_EMPTY_RE = None


def features(text):
    """Coarse, text-only feature used to keep keys narrow (never used as an oracle): an equals sign that
    ends its line and is followed by a new statement, a keyword or the end of the text."""
    import re
    global _EMPTY_RE
    if _EMPTY_RE is None:
        _EMPTY_RE = re.compile(r"=[ \t]*(?:/\*.*?\*/[ \t]*)?(?:\r?\n\s*(?:[^\s=(){}\"']+[ \t]*=|END\b|END_\w+|$)|$)",
                               re.I | re.S)
    return "empty-value" if _EMPTY_RE.search(text) else "plain"


def dumps_pair(text, enc, how, path=None):
    """-> (old outcome, new outcome) of dumping freshly loaded results with encoder setting *enc*"""
    import pvl
    import pvl.new
    import pvl.encoder as pe
    from pvl.collections import PVLGroupNew, PVLObjectNew

    def ld(mod):
        return mod.loads(text) if how == "loads" else mod.load(path)

    def old():
        m = ld(pvl)
        if enc == "default":
            return pvl.dumps(m)
        return pvl.dumps(m, encoder=getattr(pe, enc)())

    def new():
        m = ld(pvl.new)
        if enc == "default":
            return pvl.new.dumps(m)
        return pvl.new.dumps(m, encoder=getattr(pe, enc)(group_class=PVLGroupNew, object_class=PVLObjectNew))

    return attempt(old), attempt(new)


def check_text(text, kind, how="loads", path=None):
    import pvl
    import pvl.new
    fails, n, distinct = [], 0, set()
    tid = hashlib.sha1((text if path is None else path).encode("utf-8", "surrogateescape")).hexdigest()[:10]
    rec = {"text": text, "kind": kind, "how": how, "path": path}

    def fail(key, got, want, aspect, **extra):
        fails.append(dict(rec, key=key, got=str(got)[:260], want=str(want)[:200], aspect=aspect, **extra))

    if how == "loads":
        o = attempt(lambda: pvl.loads(text))
        w = attempt(lambda: pvl.new.loads(text))
    else:
        o = attempt(lambda: pvl.load(path))
        w = attempt(lambda: pvl.new.load(path))
    n += 1
    distinct.add((tid, "loads"))
    if path is not None:
        raw = open(path, "rb").read()
        feat = features(raw.decode("utf-8", "replace"))
    else:
        feat = features(text)
    if o[0] != w[0] or (o[0] == "raise" and o[1] != w[1]):
        a = "loads" if w[0] == "ok" else "raises-" + w[1]
        b = "loads" if o[0] == "ok" else "raises-" + o[1]
        fail(f"C19:loads:new-{a}:default-{b}:{feat}", w[1:] if w[0] == "raise" else "returns " + repr(w[1])[:120],
             b if o[0] == "raise" else "returns " + repr(o[1])[:120], "loads")
        return n, distinct, fails
    if o[0] != "ok":
        return n, distinct, fails
    probs = []
    compare(o[1], w[1], "$", probs)
    eo, en = list(getattr(o[1], "errors", ["<missing>"])), list(getattr(w[1], "errors", ["<missing>"]))
    if eo != en:
        probs.append(("errors-attribute", "$", repr(en), repr(eo)))
    seen = set()
    for kindp, pth, got, want in probs:
        key = f"C19:{kindp}:{feat}" if kindp != "container-class" else f"C19:container-class:{got}-for-{want}"
        if key in seen:
            continue
        seen.add(key)
        fail(key, f"at {pth}: {got}", want, kindp)
    if probs:
        # the contents already differ: comparing the dumped texts would only repeat that
        return n, distinct, fails
    for enc in ENCODERS:
        n += 1
        distinct.add((tid, "dumps", enc))
        do, dn = dumps_pair(text, enc, how, path)
        if do[0] != dn[0] or (do[0] == "raise" and do[1] != dn[1]):
            a = "ok" if dn[0] == "ok" else "raises-" + dn[1]
            b = "ok" if do[0] == "ok" else "raises-" + do[1]
            fail(f"C19:dumps:{enc}:new-{a}:default-{b}", dn[1:] if dn[0] == "raise" else repr(dn[1])[:160],
                 do[1:] if do[0] == "raise" else repr(do[1])[:160], "dumps", encoder=enc)
        elif do[0] == "ok" and do[1] != dn[1]:
            i = next((j for j, (x, y) in enumerate(zip(do[1], dn[1])) if x != y), min(len(do[1]), len(dn[1])))
            fail(f"C19:dumps:{enc}:text-differs", repr(dn[1][max(0, i - 40):i + 60]),
                 repr(do[1][max(0, i - 40):i + 60]), "dumps", encoder=enc)
    return n, distinct, fails


def worker(items):
    n, distinct, fails = 0, set(), []
    for it in items:
        a, b, c = check_text(*it)
        n += a
        distinct |= b
        fails += c
    return n, distinct, _dedupe(fails)


def _dedupe(fails):
    best = {}
    for f in fails:
        size = len(f["text"])
        if f["key"] not in best or size < best[f["key"]][0]:
            best[f["key"]] = (size, f)
    return [v[1] for v in best.values()]


def texts(seed, n):
    rng = random.Random(seed)
    out = [(t, "fixed") for t in FIXED]
    plan = [("omni", dict(empty=True, unicode_strings=True, multiline=True, hash_comments=True), n),
            ("omni", dict(empty=False, unicode_strings=False, multiline=True), n),
            ("pvl", dict(), n // 2), ("odl", dict(), n // 2)]
    for profile, kw, k in plan:
        g = G.Gen(rng, profile=profile, dups=True, comments=True, **kw)
        for _ in range(k):
            t = g.label()[0]
            # the END statement is optional: drop it now and then
            if rng.random() < 0.2:
                t = t[: -len(g.end)].rstrip() + rng.choice(["", "\n"])
            out.append((t, "gen-" + profile + ("-empty" if kw.get("empty") else "")))
    return out


def corpus_texts():
    out = []
    for p in G.corpus_files():
        data = open(p, "rb").read()
        try:
            t = data.decode("utf-8")
        except UnicodeDecodeError as e:
            t = data[:e.start].decode("utf-8")
        out.append((t, "corpus:" + os.path.relpath(p, G.CORPUS_DIR)))
    return out


def sections(ctx):
    n = 1500 if ctx.thorough else 110
    tx = texts(ctx.seed, n) + corpus_texts()
    s = Section("new-vs-default", "bounded", bounded=True,
                rule="hand-written texts (empty values, duplicates, nesting, all value kinds, two ill-formed) + seeded "
                     "generated well-formed labels (permissive with empty values / non-ASCII strings / # comments; "
                     "permissive without; strict PVL; ODL subset; END dropped in 20%) + the decodable text of every "
                     "corpus file; per text: loads outcome, container classes, items at every level, errors, and "
                     "dumps under 5 encoder settings; distinct = (text, loads | dumps x encoder)",
                bounds={"texts": len(tx), "encoders": ENCODERS})
    t0 = time.time()
    tasks = [[(t, k)] for t, k in sorted(tx, key=lambda x: -len(x[0]))]
    fails = []
    with mp.get_context("fork").Pool(ctx.jobs) as pool:
        for a, b, c in pool.imap_unordered(worker, tasks, chunksize=2):
            s.evaluations += a
            s.distinct |= b
            fails += c
        s.seconds = time.time() - t0

        s2 = Section("new-load-path", "bounded", bounded=True,
                     rule="pvl.new.load(path) vs pvl.load(path) for every corpus file as it is on disk (incl. the ISIS "
                          "cube with binary data), same comparison", bounds={"files": len(G.corpus_files())})
        t1 = time.time()
        tasks2 = [[("", "corpus-path:" + os.path.relpath(p, G.CORPUS_DIR), "load", p)] for p in G.corpus_files()]
        fails2 = []
        for a, b, c in pool.imap_unordered(worker, tasks2):
            s2.evaluations += a
            s2.distinct |= b
            fails2 += c
        s2.seconds = time.time() - t1
    for sec, fl in ((s, fails), (s2, fails2)):
        for f in sorted(_dedupe(fl), key=lambda f: f["key"]):
            src = repr(f["text"][:80]) if f["how"] == "loads" else f["path"]
            sec.violation(f["key"], f"pvl.new vs pvl on {src}: new gives {f['got']}; default gives {f['want']}",
                          {k: v for k, v in f.items() if k != "key"})
    s.samples = [{"text": tx[len(FIXED)][0][:160]}, {"text": FIXED[0]}]
    s2.samples = [{"path": G.corpus_files()[0]}]
    return [s, s2]


def replay(data):
    n, d, fails = check_text(data.get("text", ""), data.get("kind", ""), data.get("how", "loads"), data.get("path"))
    for f in fails:
        if f["aspect"] == data.get("aspect") and f.get("encoder") == data.get("encoder"):
            return f"{f['key']}: new gives {f['got']}; default gives {f['want']}"
    return None
