"""Shared by the C09 / C18 / C19 / C20 bounded drivers: a seeded generator of well-formed label
texts that also returns the *abstract tree* the text was written from (the oracle of C18 is that
tree, never the library), the list of corpus files, and small helpers.

Tree nodes (JSON-able lists):
  ["int", text, value]   ["real", text]   ["str", text, value]   ["kw", text, value]
  ["dt", text]           ["empty"]        ["q", node, units_text, units_value]
  ["seq", [node...]]     ["set", [node...]]
  items  = [[name, node] ...]  where node may also be ["group", items] / ["object", items]
"""
import os

REPO = os.environ.get("VERIF_REPO", "/repo")
CORPUS_DIR = os.path.join(REPO, "tests", "data")

REALS = ["1.10", "0.1000000000000000055511151231257827", "1e-7", "-.5", "+5.E3", "3.", "1.0E+10",
         "-0.0", "1E5", "12.5e-3", "123456789.123456789123456789", "0.30000000000000004", "2.50",
         "-273.150", "6.02214076E23", "1.e0", "00.5", "9.999999999999999999999E-5"]
INTS = [("5", 5), ("-12", -12), ("+7", 7), ("007", 7), ("0", 0), ("1", 1), ("123456789012345678901234567890",
        123456789012345678901234567890), ("-0", 0), ("65536", 65536)]
BASED = [("2#1010#", 10), ("8#17#", 15), ("16#fF#", 255), ("16#0#", 0), ("2#1#", 1)]
UNITS = [("<m>", "m"), ("<km/s>", "km/s"), ("< DEG >", "DEG"), ("<m**2>", "m**2"), ("<W/m**2/sr>", "W/m**2/sr"),
         ("<pixel>", "pixel")]
IDENT_STRS = ["Mars", "ABC_1", "Tile", "Lsb", "x", "MRO_CTX", "SignedWord", "n0"]
QUOTED_STRS = [('"x y"', "x y"), ("'abc'", "abc"), ('"a,b=(c)"', "a,b=(c)"), ('"it\'s"', "it's"), ('""', ""),
               ('"END"', "END"), ('"1.5"', "1.5"), ('"<m>"', "<m>"), ("'say \"hi\"'", 'say "hi"'),
               ('"GROUP = x"', "GROUP = x"), ('"# not a comment"', "# not a comment"), ('"/* nor this */"', "/* nor this */")]
UNICODE_STRS = [('"café"', "café"), ('"€ 5"', "€ 5"), ('"\U0001f600 ok"', "\U0001f600 ok"),
                ('"°C µm"', "°C µm"), ("'中文'", "中文")]
MULTILINE_STRS = [('"line one\n   line two"', "line one\n   line two"), ('"tab\there"', "tab\there"),
                  ('"cr\r\nlf inside"', "cr\r\nlf inside")]
KWS = [("NULL", None), ("Null", None), ("TRUE", True), ("false", False)]
DTS = ["2001-01-01", "2001-027", "12:34:56", "01:02:03.5Z", "2001-01-01T12:00:00", "1999-12-31T23:59:59.123Z",
       "2010-100T00:00"]
NAMES = ["a", "b", "c", "name", "Lines", "line_samples", "x1", "TARGET_NAME", "note", "k", "Bytes", "StartByte",
         "scale", "v", "w", "ns:key", "^IMAGE", "count", "d0", "q"]
BLOCK_NAMES = ["g", "Core", "IsisCube", "Dimensions", "obj1", "IMAGE", "inner", "B2"]
COMMENTS = ["/* a comment */", "/* multi\n   line */", "/* x = 1 */"]


def corpus_files():
    out = []
    for root, _dirs, files in os.walk(CORPUS_DIR):
        for f in sorted(files):
            out.append(os.path.join(root, f))
    return sorted(out)


class Gen:
    """profile: 'omni' (everything the default loader takes), 'pvl' (strict PVL), 'odl' (ODL/PDS3 subset)."""

    def __init__(self, rng, profile="omni", reals=0.3, dates=True, empty=False, dups=True, comments=True,
                 unicode_strings=False, multiline=False, depth=3, semis=True, hash_comments=False, end="END"):
        self.r = rng
        self.profile = profile
        self.p_real = reals
        self.dates = dates
        self.empty = empty
        self.dups = dups
        self.comments = comments
        self.unicode = unicode_strings
        self.multiline = multiline
        self.depth = depth
        self.semis = semis and profile != "odl"
        self.hash_comments = hash_comments and profile == "omni"
        self.end = end

    # -- values ----------------------------------------------------------------------
    def number(self):
        r = self.r
        x = r.random()
        if x < self.p_real:
            return ["real", r.choice(REALS)]
        if x < self.p_real + 0.12:
            t, v = r.choice(BASED)
            return ["int", t, v]
        t, v = r.choice(INTS)
        return ["int", t, v]

    def string(self):
        r = self.r
        x = r.random()
        if x < 0.35:
            s = r.choice(IDENT_STRS)
            return ["str", s, s]
        if self.unicode and x < 0.6:
            t, v = r.choice(UNICODE_STRS)
            return ["str", t, v]
        if self.multiline and x < 0.7:
            t, v = r.choice(MULTILINE_STRS)
            return ["str", t, v]
        t, v = r.choice(QUOTED_STRS)
        return ["str", t, v]

    def scalar(self):
        r = self.r
        x = r.random()
        if x < 0.5:
            n = self.number()
            if r.random() < 0.3:
                ut, uv = r.choice(UNITS)
                return ["q", n, ut, uv]
            return n
        if x < 0.8:
            return self.string()
        if x < 0.9 or not self.dates:
            t, v = r.choice(KWS)
            return ["kw", t, v]
        return ["dt", r.choice(DTS)]

    def value(self, depth=0):
        r = self.r
        x = r.random()
        if x < 0.6 or depth >= 2:
            return self.scalar()
        if x < 0.85:
            n = r.randint(0 if self.profile != "odl" else 1, 4)
            items = []
            for _ in range(n):
                if self.profile == "odl":
                    items.append(self.scalar() if depth or r.random() < 0.8 else
                                 ["seq", [self.scalar() for _ in range(r.randint(1, 3))]])
                else:
                    items.append(self.value(depth + 1))
            node = ["seq", items]
            if self.profile != "odl" and r.random() < 0.15:
                ut, uv = r.choice(UNITS)
                return ["q", node, ut, uv]
            return node
        # sets: distinct, hashable members only
        n = r.randint(0, 3)
        items, seen = [], set()
        for _ in range(n):
            if self.profile != "odl" and depth == 0 and r.random() < 0.15:
                m = ["set", [self.set_member(seen) for _ in range(r.randint(0, 2))]]
                m[1] = [e for e in m[1] if e is not None]
                key = ("set", tuple(sorted(repr(canon(e)) for e in m[1])))
                if key in seen:
                    continue
                seen.add(key)
                items.append(m)
            else:
                m = self.set_member(seen)
                if m is not None:
                    items.append(m)
        return ["set", items]

    def set_member(self, seen):
        for _ in range(5):
            m = self.scalar()
            if m[0] == "dt":
                continue
            k = canon(m)
            # 1 == 1.0 == True in a Python set: keep numerically distinct members only
            nk = numkey(m)
            if k in seen or (nk is not None and nk in seen):
                continue
            seen.add(k)
            if nk is not None:
                seen.add(nk)
            return m
        return None

    # -- rendering -------------------------------------------------------------------
    def ws(self):
        return self.r.choice([" ", " ", "  ", "\t"])

    def render(self, node, indent=""):
        r = self.r
        k = node[0]
        if k in ("int", "str", "kw"):
            return node[1]
        if k in ("real", "dt"):
            return node[1]
        if k == "q":
            return self.render(node[1], indent) + r.choice([" ", "", "  "]) + node[2]
        if k in ("seq", "set"):
            o, c = ("(", ")") if k == "seq" else ("{", "}")
            sep = r.choice([", ", ",", " , ", ",\n" + indent + "      "])
            pad = r.choice(["", " "])
            return o + pad + sep.join(self.render(e, indent) for e in node[1]) + pad + c
        raise ValueError(node)

    def items(self, depth, n=None):
        r = self.r
        n = r.randint(1, 5) if n is None else n
        items, used = [], []
        for _ in range(n):
            if depth < self.depth and r.random() < 0.22:
                kind = r.choice(["group", "object"])
                name = r.choice(BLOCK_NAMES)
                items.append([name, [kind, self.items(depth + 1)]])
                continue
            if self.dups and used and r.random() < 0.15:
                name = r.choice(used)
            else:
                name = r.choice(NAMES)
                if self.profile == "odl" and name == "ns:key" and r.random() < 0.5:
                    name = "nskey"
            used.append(name)
            if self.empty and r.random() < 0.12:
                items.append([name, ["empty"]])
            else:
                items.append([name, self.value()])
        return items

    def render_items(self, items, level, out):
        r = self.r
        ind = "  " * level if r.random() < 0.9 else ""
        for name, node in items:
            if self.comments and r.random() < 0.08:
                out.append(ind + r.choice(COMMENTS))
            if self.hash_comments and r.random() < 0.05:
                out.append(ind + "# octothorpe comment")
            if node[0] in ("group", "object"):
                if self.profile == "odl":
                    kw = {"group": "GROUP", "object": "OBJECT"}[node[0]]
                else:
                    kw = r.choice({"group": ["GROUP", "BEGIN_GROUP", "Group"],
                                   "object": ["OBJECT", "BEGIN_OBJECT", "Object"]}[node[0]])
                endkw = {"group": "END_GROUP", "object": "END_OBJECT"}[node[0]]
                if kw[1].islower():
                    endkw = endkw.title()
                semi = ";" if self.semis and r.random() < 0.2 else ""
                out.append(f"{ind}{kw}{self.ws()}={self.ws()}{name}{semi}")
                self.render_items(node[1], level + 1, out)
                tail = f" = {name}" if r.random() < 0.5 else ""
                out.append(f"{ind}{endkw}{tail}{semi}")
            elif node[0] == "empty":
                out.append(f"{ind}{name} =")
            else:
                semi = ";" if self.semis and r.random() < 0.2 else ""
                eq = r.choice([" = ", " = ", "=", "  =  ", " =\n" + ind + "    "])
                out.append(f"{ind}{name}{eq}{self.render(node, ind)}{semi}")
            if r.random() < 0.05:
                out.append("")

    def label(self, n=None):
        """-> (text ending with the END statement, items tree)"""
        items = self.items(0, n)
        if self.empty and items and items[-1][1][0] in ("group", "object"):
            pass
        out = []
        self.render_items(items, 0, out)
        out.append(self.end)
        nl = self.r.choice(["\n", "\n", "\r\n"])
        return nl.join(out), items


def canon(node):
    """Canonical hashable identity of a tree node (value semantics of the *written* text)."""
    k = node[0]
    if k == "int":
        return ("int", node[2])
    if k == "real":
        return ("real", float(node[1]))
    if k in ("str", "kw"):
        return (k, node[2])
    if k == "dt":
        return ("dt", node[1])
    if k == "q":
        return ("q", canon(node[1]), node[3])
    if k in ("seq",):
        return ("seq", tuple(canon(e) for e in node[1]))
    if k == "set":
        return ("set", tuple(sorted((canon(e) for e in node[1]), key=repr)))
    if k == "empty":
        return ("empty",)
    raise ValueError(node)


def numkey(node):
    if node[0] == "int":
        return ("num", float(node[2]))
    if node[0] == "real":
        return ("num", float(node[1]))
    if node[0] == "kw" and isinstance(node[2], bool):
        return ("num", float(node[2]))
    if node[0] == "q":
        inner = numkey(node[1])
        return None if inner is None else ("qnum", inner[1], node[3])
    return None


def tree_has(items, pred):
    for _name, node in items:
        if _node_has(node, pred):
            return True
    return False


def _node_has(node, pred):
    if pred(node):
        return True
    k = node[0]
    if k in ("group", "object"):
        return tree_has(node[1], pred)
    if k == "q":
        return _node_has(node[1], pred)
    if k in ("seq", "set"):
        return any(_node_has(e, pred) for e in node[1])
    return False


def chunks(lst, n):
    n = max(1, n)
    size = (len(lst) + n - 1) // n
    return [lst[i:i + size] for i in range(0, len(lst), size)] if size else []
