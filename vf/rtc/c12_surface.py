"""Bounded driver for C12 (never counted as proved): "Encoder output obeys the surface rules of
its dialect".

The REAL encoders (pvl.encoder.PVLEncoder / ODLEncoder / PDSLabelEncoder / ISISEncoder) are run
on modules built fresh from an abstract description (vf.rtc.enc_modgen); every returned text is
given to an independent *line-level conformance reader* written from the property statement.
The reader uses no pvl lexer / parser / grammar object: character sets, keyword families and
statement forms are hard-coded here.  It knows the order of statements from the description and
walks the text statement by statement.

Clauses checked (sub-key in parentheses):
  character set of the dialect (charset:*)                    PVL/ISIS: ISO 8859-1 minus 0-8, 14-31, 127-159
                                                              ODL/PDS3: 7-bit ASCII
  CR-LF line ends, ODL/PDS3 with newline CR LF (bare-LF-*, bare-CR-*)
  final END line followed by a line end, ODL/PDS3 (final-END)
  parameter names: upper-cased identifier, <= 30 chars, ODL/PDS3 (parameter-name:*)
  statement delimiters ';' present / absent as configured (delimiter:*)
  keyword families and matching end statements (+ block name iff aggregation_end) (keyword:*, end-statement:*)
  units only after numeric values, ODL/PDS3 (units-after-non-number:*)
  single-quoted symbol strings stay on one line, ODL/PDS3 (symbol-string-*)
  no TAB in PDS3 output when tab_replace > 0 (tab-in-output)
  each statement on its own line, indented level x indent (statement-start:*, indentation)
  '=' aligned among sibling assignments that fit on one line (alignment)
  the text consists of exactly the statements of the module, in order (structure:*, value-form:*)
An encoder may refuse a module with ValueError / TypeError; any other exception is a violation.
"""
import itertools
import json
import multiprocessing as mp
import random
import re
import time
import warnings

from ..harness import Section
from . import enc_modgen as G

ENCODERS = ("PVLEncoder", "ODLEncoder", "PDSLabelEncoder", "ISISEncoder")

# --- hard-coded dialect tables (from the property statement) ---------------------------------
DIALECT = {
    "PVLEncoder": dict(name="PVL", begin={"group": "BEGIN_GROUP", "object": "BEGIN_OBJECT"},
                       end={"group": "END_GROUP", "object": "END_OBJECT"}, nl="\n", delim=True, odl=False),
    "ODLEncoder": dict(name="ODL", begin={"group": "GROUP", "object": "OBJECT"},
                       end={"group": "END_GROUP", "object": "END_OBJECT"}, nl="\r\n", delim=False, odl=True),
    "PDSLabelEncoder": dict(name="PDS3", begin={"group": "GROUP", "object": "OBJECT"},
                            end={"group": "END_GROUP", "object": "END_OBJECT"}, nl="\r\n", delim=False, odl=True),
    "ISISEncoder": dict(name="ISIS", begin={"group": "Group", "object": "Object"},
                        end={"group": "End_Group", "object": "End_Object"}, nl="\n", delim=False, odl=False),
}
DEFAULTS = {
    "PVLEncoder": dict(indent=2, width=80, aggregation_end=True, end_delimiter=True, newline="\n"),
    "ODLEncoder": dict(indent=2, width=80, aggregation_end=True, end_delimiter=False, newline="\r\n"),
    "ISISEncoder": dict(indent=2, width=80, aggregation_end=True, end_delimiter=False, newline="\n"),
    "PDSLabelEncoder": dict(indent=2, width=80, aggregation_end=True, convert_group_to_object=True,
                            tab_replace=4, symbol_single_quote=True, time_trailing_z=True),
}

ODL_IDENT = r"[A-Za-z](?:[A-Za-z0-9_]*[A-Za-z0-9])?"
ODL_NAME_RE = re.compile(rf"\^?{ODL_IDENT}(?::{ODL_IDENT})?\Z")
ODL_IDENT_RE = re.compile(rf"{ODL_IDENT}\Z")
ODL_NUM_RE = re.compile(r"[+-]?(?:\d+\.?\d*|\.\d+)(?:[eE][+-]?\d+)?\Z|(?:[2-9]|1[0-6])#[+-]?[0-9A-Fa-f]+#\Z")
PVL_RESERVED = set("&<>'{},[]=!#()%+\";~|")
PVL_WS = " \t\n\r\v\f"
KEYWORDS = ("END", "GROUP", "OBJECT", "BEGIN_GROUP", "BEGIN_OBJECT", "END_GROUP", "END_OBJECT")


def char_ok(dialect, ch):
    o = ord(ch)
    if dialect in ("ODL", "PDS3"):
        return o < 128
    return o <= 255 and not (0 <= o <= 8 or 14 <= o <= 31 or 127 <= o <= 159)


def pvl_name_ok(name, isis=False):
    """A PVL parameter / block name: non-empty, no white space, no reserved character, no comment
    delimiter, not a reserved keyword."""
    if name == "":
        return False
    res = PVL_RESERVED - {"+"} if isis else PVL_RESERVED
    if any(c in PVL_WS or c in res for c in name):
        return False
    if "/*" in name or "*/" in name:
        return False
    if name.upper() in KEYWORDS:
        return False
    return True


def kind_of_block(d):
    return "group" if d[0] == "group" else "object"


# --- PDS group rules (PDS3 Standards Reference 12.5.x as quoted in the property / encoder doc) ------
def _is_intlike(d):
    return isinstance(d, int)            # bool included: Python's int family


def pds_group_valid(items):
    keys = [k for k, _ in items]
    if len(keys) != len(set(keys)):
        return False
    for k, v in items:
        if G.is_container(v):
            return False
        if isinstance(k, str) and k.startswith("^"):
            if _is_intlike(v):
                return False
            if G.tag(v) == "quantity" and _is_intlike(v[1]):
                return False
    return True


class Desync(Exception):
    def __init__(self, sub, what):
        super().__init__(what)
        self.sub = sub
        self.what = what


class Reader:
    """Independent line-level conformance reader."""

    def __init__(self, text, enc, opts, mdesc):
        self.t = text
        self.n = len(text)
        self.enc = enc
        self.D = DIALECT[enc]
        o = dict(DEFAULTS[enc])
        o.update(opts or {})
        self.o = o
        self.nl = o.get("newline", "\r\n" if enc == "PDSLabelEncoder" else None)
        self.delim = o.get("end_delimiter", False)
        self.indent = o["indent"]
        self.width = o["width"]
        self.aggend = o["aggregation_end"]
        self.mdesc = mdesc
        self.out = []            # (subkey, what)
        self.values = []         # scanned value nodes
        self.p = 0

    def bad(self, sub, what):
        if not any(s == sub for s, _ in self.out):
            self.out.append((sub, what))

    # ---- global clauses -------------------------------------------------------------------
    def quote_map(self):
        """'"' / "'" for characters inside a quoted string, None outside (own pass, toggling)."""
        cur = None
        res = [None] * self.n
        for i, c in enumerate(self.t):
            if cur is None:
                if c in "\"'":
                    cur = c
            else:
                if c == cur:
                    cur = None
                else:
                    res[i] = cur
        return res

    def global_checks(self):
        t = self.t
        name = self.D["name"]
        for i, c in enumerate(t):
            if not char_ok(name, c):
                o = ord(c)
                cat = ("non-latin1" if o > 255 else "non-ascii" if (o > 127 and self.D["odl"]) else
                       "c1-control" if 127 <= o <= 159 else "c0-control")
                self.bad(f"charset:{cat}", f"character U+{o:04X} at offset {i} is outside the {name} character set")
                break
        if self.D["odl"] and self.nl == "\r\n":
            qm = None
            for i, c in enumerate(t):
                if c == "\n" and (i == 0 or t[i - 1] != "\r"):
                    which = "LF"
                elif c == "\r" and (i + 1 >= self.n or t[i + 1] != "\n"):
                    which = "CR"
                else:
                    continue
                if qm is None:
                    qm = self.quote_map()
                ctx = {None: "between-statements", '"': "in-text-string", "'": "in-symbol-string"}[qm[i]]
                self.bad(f"bare-{which}-{ctx}",
                         f"line end at offset {i} is a bare {which} (not CR LF), {ctx.replace('-', ' ')}: "
                         f"...{t[max(0, i - 12):i + 6]!r}")
        if self.enc == "PDSLabelEncoder" and self.o["tab_replace"] > 0 and "\t" in t:
            self.bad("tab-in-output", f"TAB at offset {t.index(chr(9))} of PDS3 output with tab_replace="
                                      f"{self.o['tab_replace']}")
        if self.D["odl"]:
            last = "END" + (";" if self.delim else "") + self.nl
            if not t.endswith(last) or not (len(t) == len(last) or t[:-len(last)].endswith(self.nl)
                                            or t[:-len(last)] == ""):
                self.bad("final-END", f"text does not end with an END line followed by a line end: ...{t[-12:]!r}")

    # ---- scanning -------------------------------------------------------------------------
    def at_line_start(self, p):
        return p == 0 or self.t.startswith(self.nl, p - len(self.nl))

    def stmt_start(self, level, what):
        """Skip blank lines; require own line and level*indent spaces; -> (line start, first char)."""
        t = self.t
        p = self.p
        while t.startswith(self.nl, p):
            p += len(self.nl)
        if not self.at_line_start(p):
            raise Desync("statement-start:not-on-own-line",
                         f"{what} does not start on its own line: ...{t[max(0, p - 15):p + 15]!r}")
        q = p
        while q < self.n and t[q] == " ":
            q += 1
        return p, q

    def indent_check(self, level, ls, q, what):
        if q - ls != level * self.indent:
            self.bad("indentation", f"{what} at nesting level {level} is indented by {q - ls} spaces, expected "
                                    f"{level} x {self.indent}: {self.t[ls:q + 20]!r}")

    def skip_ws(self, p):
        t = self.t
        while p < self.n and t[p] in " \r\n":
            p += 1
        return p

    def scan_value(self, p):
        t = self.t
        p = self.skip_ws(p)
        if p >= self.n:
            raise Desync("structure:value-missing", "text ends where a value is expected")
        c = t[p]
        if c in "\"'":
            e = t.find(c, p + 1)
            if e < 0:
                raise Desync("structure:unterminated-quote", f"quoted string opened at {p} is never closed")
            node = ("q", c, t[p + 1:e], p, e + 1)
            p = e + 1
        elif c in "({":
            close = ")" if c == "(" else "}"
            items = []
            s0 = p
            p = self.skip_ws(p + 1)
            if p < self.n and t[p] == close:
                p += 1
            else:
                while True:
                    v, p = self.scan_value(p)
                    items.append(v)
                    p = self.skip_ws(p)
                    if p < self.n and t[p] == ",":
                        p += 1
                        continue
                    if p < self.n and t[p] == close:
                        p += 1
                        break
                    raise Desync("structure:sequence-or-set-not-closed",
                                 f"expected ',' or {close!r} at offset {p}: {t[max(0, p - 15):p + 15]!r}")
            node = ("seq" if c == "(" else "set", items, s0, p)
        else:
            q = p
            while q < self.n and t[q] not in " \r\n\t,(){}<>;\"'=":
                q += 1
            if q == p:
                raise Desync("structure:value-missing", f"no value at offset {p}: {t[max(0, p - 15):p + 15]!r}")
            node = ("bare", t[p:q], p, q)
            p = q
        q = self.skip_ws(p)
        if q < self.n and t[q] == "<":
            e = t.find(">", q)
            if e < 0:
                raise Desync("structure:units-not-closed", f"units expression opened at {q} is never closed")
            u = t[q + 1:e]
            if "<" in u or t.startswith(">", e + 1):
                raise Desync("units-expression:malformed",
                             f"units expression contains a units delimiter: {t[q:e + 3]!r}")
            if u.strip(" \r\n") == "":
                self.bad("units-expression:empty", f"empty units expression: {t[max(0, q - 10):e + 1]!r}")
            node = ("units", node, u, node[-2], e + 1)
            p = e + 1
        return node, p

    def end_of_statement(self, p, what):
        """Delimiter clause and 'next statement starts on a new line'. -> position after the statement."""
        t = self.t
        has = p < self.n and t[p] == ";"
        if self.delim and not has:
            self.bad("delimiter:missing", f"no ';' after {what} although end_delimiter is on: {t[max(0, p - 20):p + 5]!r}")
        if has and not self.delim:
            self.bad("delimiter:present", f"';' after {what} although the dialect/option says no statement "
                                          f"delimiters: {t[max(0, p - 20):p + 5]!r}")
        if has:
            p += 1
        if p < self.n and not t.startswith(self.nl, p):
            raise Desync("statement-start:not-on-own-line",
                         f"text after {what} continues on the same line: {t[max(0, p - 20):p + 20]!r}")
        return p

    # ---- statements -----------------------------------------------------------------------
    def expect_literal(self, q, lit, sub, what):
        if not self.t.startswith(lit, q):
            raise Desync(sub, f"expected {what} {lit!r}, found {self.t[q:q + max(12, len(lit))]!r}")
        return q + len(lit)

    def found_kind(self, q):
        w = re.match(r"[^\s=;]*", self.t[q:]).group(0)
        allkw = {"END": "END"}
        for d in DIALECT.values():
            for k in d["begin"].values():
                allkw[k] = "begin-block"
            for k in d["end"].values():
                allkw[k] = "end-block"
        if q >= self.n:
            return "end-of-text"
        return allkw.get(w, "assignment-or-other")

    def walk_assign(self, key, v, level):
        """One assignment statement.  When the parameter name itself is not a writable name (empty, keyword,
        white space / '=' / reserved characters, not an ODL identifier) every derailment of THIS statement is a
        consequence of that defect and is reported under the name's key only; `structure:parameter-name-not-written`
        is reserved for a valid name that the encoder failed to write."""
        odl = self.D["odl"]
        written = key.upper() if odl else key
        name_bad = None
        if written == "":
            name_bad = ("parameter-name:empty", "a statement with an empty parameter name was written: "
                                                f"{self.t[self.p:self.p + 30]!r}")
        elif written.upper() in KEYWORDS:
            name_bad = ("parameter-name:reserved-keyword", f"parameter name {written!r} is a reserved keyword")
        elif odl:
            if not ODL_NAME_RE.match(written):
                name_bad = ("parameter-name:not-an-identifier", f"parameter name {written!r} is not an ODL identifier")
        elif not pvl_name_ok(written, isis=self.enc == "ISISEncoder"):
            name_bad = ("parameter-name:not-a-pvl-name",
                        f"parameter name {written!r} contains white space / '=' / reserved characters")
        if written == "":
            raise Desync(*name_bad)
        if name_bad is None:
            return self._walk_assign(key, v, level, written)
        try:
            r = self._walk_assign(key, v, level, written)
        except Desync as e:
            raise Desync(name_bad[0], name_bad[1] + f" (and the statement derails: {e.what[:120]})")
        self.bad(*name_bad)
        return r

    def _walk_assign(self, key, v, level, written):
        t = self.t
        what = f"assignment {key!r}"
        odl = self.D["odl"]
        ls, q = self.stmt_start(level, what)
        if odl and not t.startswith(written, q) and t[q:q + len(written)].upper() == written:
            self.bad("parameter-name:not-upper-case",
                     f"parameter name {t[q:q + len(written)]!r} is not upper case (key {key!r})")
        elif not t.startswith(written, q):
            fk = self.found_kind(q)
            if fk == "assignment-or-other":
                sub = "structure:parameter-name-not-written"
            else:
                sub = f"structure:expected-assignment-found-{fk}"
            raise Desync(sub, f"expected the statement of parameter {written!r} at offset {q}, found {t[q:q + 30]!r}")
        self.indent_check(level, ls, q, what)
        if odl:
            if len(written) > 30:
                self.bad("parameter-name:over-30", f"parameter name {written!r} has {len(written)} characters")
            if written != written.upper():
                self.bad("parameter-name:not-upper-case", f"parameter name {written!r} is not upper case")
        p = q + len(written)
        e = p
        while e < self.n and t[e] == " ":
            e += 1
        if e >= self.n or t[e] != "=":
            raise Desync("structure:equals-missing", f"no '=' after parameter name {written!r}: {t[q:q + 40]!r}")
        eqcol = e - ls
        p = e + 1
        if t.startswith(self.nl, p) or p >= self.n:
            raise Desync("structure:value-missing", f"nothing after '=' on the line of {written!r}: {t[q:q + 40]!r}")
        node, p = self.scan_value(p)
        self.values.append((key, v, node))
        m = self.form_mismatch(v, node)
        if m:
            self.bad(f"value-form:{m[0]}", f"value of {key!r} ({G.canon(v)[:80]}) {m[1]}: {t[node[-2]:node[-1]][:60]!r}")
        p = self.end_of_statement(p, what)
        stmt = t[ls:p]
        single = "\n" not in stmt and "\r" not in stmt
        self.p = p
        return dict(key=key, eqcol=eqcol, single=single, length=len(stmt), namelen=len(written))

    def walk_block(self, key, d, level, top):
        t = self.t
        kind = kind_of_block(d)
        items = d[1]
        allowed = [kind]
        if self.enc == "PDSLabelEncoder" and kind == "group":
            if not pds_group_valid(items):
                allowed = ["object"]            # convert (or refuse)
            elif top and self.pds_converted_index is not None and self.pds_converted_index == self.top_index:
                allowed = ["object"]
        what = f"begin statement of block {key!r}"
        ls, q = self.stmt_start(level, what)
        got = None
        for k in ("group", "object"):
            kw = self.D["begin"][k]
            if re.match(re.escape(kw) + r"(?![A-Za-z0-9_])", t[q:]):
                got = k
        if got is None:
            fk = self.found_kind(q)
            anykw = re.match(r"(?i)(begin_)?(group|object)(?![A-Za-z0-9_])", t[q:])
            if anykw:
                raise Desync("keyword:wrong-family", f"block {key!r} opens with {anykw.group(0)!r}, the "
                             f"{self.D['name']} keywords are {sorted(self.D['begin'].values())}")
            raise Desync(f"structure:expected-begin-block-found-{fk}",
                         f"expected the begin statement of block {key!r} at offset {q}, found {t[q:q + 30]!r}")
        self.indent_check(level, ls, q, what)
        if got not in allowed:
            self.bad(f"keyword:{kind}-written-as-{got}",
                     f"block {key!r} is a {kind} (expected keyword family {allowed}) but is written with "
                     f"{self.D['begin'][got]!r}")
        p = q + len(self.D["begin"][got])
        p = self.expect_literal(p, " = ", "structure:block-begin-form", "' = ' after the begin keyword")
        if key == "":
            raise Desync("block-name:empty", f"a block with an empty name was written: {t[q:q + 30]!r}")
        name_bad = None
        if key.upper() in KEYWORDS:
            name_bad = ("block-name:reserved-keyword", f"block name {key!r} is a reserved keyword")
        elif self.D["odl"]:
            if not ODL_IDENT_RE.match(key):
                name_bad = ("block-name:not-an-identifier", f"block name {key!r} is not an ODL identifier")
        elif not pvl_name_ok(key, isis=self.enc == "ISISEncoder"):
            name_bad = ("block-name:not-a-pvl-name", f"block name {key!r} contains white space / reserved characters")
        if not t.startswith(key, p):
            if name_bad:                       # e.g. a name with a space, wrapped at that space
                raise Desync(*name_bad)
            raise Desync("structure:block-name-not-written", f"expected block name {key!r}, found {t[p:p + 30]!r}")
        if name_bad:
            self.bad(*name_bad)
        p += len(key)
        self.p = self.end_of_statement(p, what)
        self.walk_items(items, level + 1, top=False)
        what = f"end statement of block {key!r}"
        ls, q = self.stmt_start(level, what)
        kw = self.D["end"][got]
        if not re.match(re.escape(kw) + r"(?![A-Za-z0-9_])", t[q:]):
            fk = self.found_kind(q)
            other = self.D["end"]["group" if got == "object" else "object"]
            if t.startswith(other, q):
                raise Desync("end-statement:keyword-does-not-match-begin",
                             f"block {key!r} opened with {self.D['begin'][got]!r} is closed with {other!r}")
            raise Desync(f"structure:expected-end-block-found-{fk}",
                         f"expected {kw!r} closing block {key!r} at offset {q}, found {t[q:q + 30]!r}")
        self.indent_check(level, ls, q, what)
        p = q + len(kw)
        if self.aggend:
            if not t.startswith(" = " + key, p):
                if name_bad:
                    raise Desync(*name_bad)
                raise Desync("end-statement:block-name-missing",
                             f"aggregation_end is on but the end statement of {key!r} reads {t[q:q + 40]!r}")
            p += 3 + len(key)
        else:
            if t.startswith(" =", p):
                self.bad("end-statement:block-name-present",
                         f"aggregation_end is off but the end statement of {key!r} reads {t[q:q + 40]!r}")
                p = t.find(self.nl, p) if t.find(self.nl, p) >= 0 else self.n
                if p > 0 and t[p - 1] == ";":
                    p -= 1
        self.p = self.end_of_statement(p, what)

    def walk_items(self, items, level, top):
        sibs = []
        for i, (key, v) in enumerate(items):
            if top:
                self.top_index = i
            if G.is_container(v):
                self.walk_block(key, v, level, top)
            else:
                sibs.append(self.walk_assign(key, v, level))
        if sibs:
            col = level * self.indent + max(s["namelen"] for s in sibs) + 1
            for s in sibs:
                if s["single"] and s["eqcol"] != col:
                    would = s["length"] + (col - s["eqcol"]) + len(self.nl)
                    if s["eqcol"] > col or would <= self.width:
                        self.bad("alignment", f"'=' of {s['key']!r} is in column {s['eqcol']}, its siblings' in column "
                                              f"{col}; aligned the line would take {would} of width {self.width}")

    def pds_top_conversion(self):
        """Index of the top-level group PDS3 output shows as OBJECT because the label has no OBJECT."""
        self.pds_converted_index = None
        if self.enc != "PDSLabelEncoder":
            return
        items = self.mdesc[1]
        blocks = [(i, v) for i, (k, v) in enumerate(items) if G.is_container(v)]
        n_grp = sum(1 for _, v in blocks if v[0] == "group")
        if n_grp == 0 or n_grp != len(blocks):
            return
        for i, v in blocks:
            if not pds_group_valid(v[1]):
                self.pds_converted_index = i
                return
        self.pds_converted_index = blocks[0][0]

    def form_mismatch(self, d, node):
        k = G.tag(d)
        nk = node[0]
        if k == "quantity":
            if nk != "units":
                return ("quantity-without-units", "is a quantity but no units expression follows")
            return self.form_mismatch(d[1], node[1])
        if nk == "units":
            return (f"units-after-{k}", f"is a plain {k} but is followed by a units expression")
        if k in ("list",):
            if nk != "seq":
                return (f"list-written-as-{nk}", "is a list but is not written as a sequence")
            if len(node[1]) != len(d[1]):
                return ("sequence-length", f"has {len(d[1])} elements, the written sequence {len(node[1])}")
            for a, b in zip(d[1], node[1]):
                m = self.form_mismatch(a, b)
                if m:
                    return m
            return None
        if k in ("set", "frozenset"):
            if nk != "set":
                return (f"set-written-as-{nk}", "is a set but is not written as a set")
            want = len(set(G.build(x) for x in d[1]))
            if len(node[1]) != want:
                return ("set-length", f"has {want} elements, the written set {len(node[1])}")
            return None
        if k == "str":
            if nk not in ("bare", "q"):
                return (f"str-written-as-{nk}", "is a string but is written as a sequence/set")
            return None
        if nk != "bare":
            return (f"{k}-written-as-{nk}", f"is a {k} but is not written as one bare token")
        return None

    def value_clauses(self):
        if not self.D["odl"]:
            return

        def visit(node, key):
            if node[0] == "units":
                inner = node[1]
                if not (inner[0] == "bare" and ODL_NUM_RE.match(inner[1])):
                    tok = inner[1] if inner[0] == "bare" and re.fullmatch(r"[A-Za-z]{1,8}", inner[1]) else \
                        {"q": "string", "seq": "sequence", "set": "set", "bare": "non-numeric-token"}[inner[0]]
                    self.bad(f"units-after-non-number:{tok}",
                             f"units expression <{node[2]}> of {key!r} follows {self.t[inner[-2]:inner[-1]][:40]!r}, "
                             f"which is not a number")
                visit(inner, key)
            elif node[0] in ("seq", "set"):
                for x in node[1]:
                    visit(x, key + "[]")
            elif node[0] == "q" and node[1] == "'":
                c = node[2]
                if "\n" in c or "\r" in c:
                    where = "in-sequence" if key.endswith("[]") else "scalar"
                    self.symbol_break(key, node, where)
                elif "\v" in c or "\f" in c:
                    self.bad("symbol-string-with-format-effector",
                             f"single-quoted string of {key!r} contains VT/FF: {c[:40]!r}")

        for key, v, node in self.values:
            self._cur_desc = v
            visit(node, key)

    def symbol_break(self, key, node, where):
        """A single-quoted string that does not stay on one line.  Sub-keys:
          value-has-line-end        the module's own string contains the line end (it was single-quoted anyway)
          wrapped:...:len<=half-width   a string short enough to count as a symbol (len <= width/2) was broken by
                                        line wrapping (long key / narrow width / position in a sequence)
          wrapped:...:len>half-width    a string LONGER than width/2 was single-quoted at all and then wrapped
                                        (the encoder's "too long to be a symbol" rule did not apply)
          wrapped:...:len>half-width:has-double-quote   same, but the string contains '"', so the single quotes are
                                        the fall-back quoting of a text string"""
        def strings(d):
            if isinstance(d, str):
                yield d
            elif isinstance(d, list) and d and d[0] in ("list", "set", "frozenset"):
                for x in d[1]:
                    yield from strings(x)
            elif isinstance(d, list) and d and d[0] == "quantity":
                yield from strings(d[1])
        written = node[2]
        norm = written.split()
        cands = list(strings(self._cur_desc))
        own = [s for s in cands if ("\n" in s or "\r" in s) and s.split() == norm]
        if own:
            self.bad(f"symbol-string-spans-lines:value-has-line-end:{where}",
                     f"single-quoted string of {key!r} does not stay on one line (the value itself has a line end): "
                     f"{written[:50]!r}")
            return
        # PDS3 replaces tabs after wrapping: compare with tabs mapped to nothing on both sides
        def squash(x):
            return "".join(x.split())
        orig = [s for s in cands if squash(s) == squash(written)]
        n = len(orig[0]) if orig else len(" ".join(norm))
        size = "len<=half-width" if n <= self.width / 2 else "len>half-width"
        if size == "len>half-width" and '"' in written:
            # too long to be a symbol, but it contains a double quote: single quotes are the fall-back quoting of a
            # text string (a different cause than a lost "too long to be a symbol" rule)
            size += ":has-double-quote"
        self.bad(f"symbol-string-spans-lines:wrapped:{where}:{size}",
                 f"single-quoted string of {key!r} ({n} characters, width {self.width}) does not stay on one line "
                 f"(broken by line wrapping): {written[:60]!r}")

    def run(self):
        self.global_checks()
        self.pds_top_conversion()
        try:
            self.walk_items(self.mdesc[1], 0, top=True)
            ls, q = self.stmt_start(0, "END statement")
            if not re.match(r"END(?![A-Za-z0-9_])", self.t[q:]):
                fk = self.found_kind(q)
                raise Desync(f"structure:expected-END-found-{fk}",
                             f"expected the END statement at offset {q}, found {self.t[q:q + 30]!r}")
            self.indent_check(0, ls, q, "END statement")
            p = q + 3
            has = p < self.n and self.t[p] == ";"
            if self.delim and not has:
                self.bad("delimiter:missing", "no ';' after END although end_delimiter is on")
            if has and not self.delim:
                self.bad("delimiter:present", "';' after END although the dialect/option says no statement delimiters")
            p += 1 if has else 0
            rest = self.t[p:]
            if self.D["odl"]:
                if rest != self.nl:
                    self.bad("final-END", f"after END there is {rest[:20]!r}, expected exactly one line end")
            elif rest != "":
                self.bad("structure:text-after-END", f"text after the END statement: {rest[:20]!r}")
        except Desync as e:
            self.bad(e.sub, e.what)
        self.value_clauses()
        return self.out


# ---------------------------------------------------------------------------------------------
def make_encoder(enc, opts):
    import pvl.encoder as pe
    with warnings.catch_warnings():
        warnings.simplefilter("ignore")
        return getattr(pe, enc)(**(opts or {}))


def classify_structure(sub, enc, mdesc):
    """Narrow a generic 'statement missing' key by a property of the input (no suppression)."""
    walk_keys = ("structure:", "keyword:", "indentation", "alignment", "value-form:", "end-statement:",
                 "statement-start:")
    if enc == "PDSLabelEncoder" and sub.startswith(walk_keys):
        items = mdesc[1]
        blocks = [(k, v) for k, v in items if G.is_container(v)]
        if blocks and all(v[0] == "group" for _, v in blocks):
            gk = [k for k, _ in blocks]
            allk = [k for k, _ in items]
            if len(set(gk)) != len(gk):
                return "structure:duplicate-group-name-dropped"
            if any(allk.count(k) > 1 for k in gk):
                return "structure:item-sharing-group-name-dropped"
    return sub


def run_one(mdesc, enc, opts, encoder=None):
    """-> ('refused', exc name) | ('crash', exc name, msg) | ('ok', text, [(subkey, what)])"""
    m = G.build(mdesc)
    try:
        e = encoder if encoder is not None else make_encoder(enc, opts)
        with warnings.catch_warnings():
            warnings.simplefilter("ignore")
            text = e.encode(m)
    except (ValueError, TypeError) as ex:
        return ("refused", type(ex).__name__)
    except Exception as ex:                                  # any other exception type is a violation
        return ("crash", type(ex).__name__, str(ex)[:200])
    if not isinstance(text, str):
        return ("crash", "not-a-str", repr(type(text)))
    out = Reader(text, enc, opts, mdesc).run()
    out = [(classify_structure(s, enc, mdesc), w) for s, w in out]
    return ("ok", text, out)


def _work(chunk):
    """chunk: list of (mdesc, enc, opts).  -> (n, n_refused, distinct hashes, best witnesses)"""
    n = 0
    refused = 0
    distinct = set()
    best = {}
    cache = {}
    for mdesc, enc, opts in chunk:
        n += 1
        ck = (enc, G.canon(opts))
        if ck not in cache:
            cache[ck] = make_encoder(enc, opts)
        # a fresh encoder per (class, options) per chunk; the module is built fresh for every call
        r = run_one(mdesc, enc, opts, cache[ck])
        if r[0] == "refused":
            refused += 1
            continue
        distinct.add(G.h64([mdesc, enc, opts]))
        if r[0] == "crash":
            outs = [(f"exception:{r[1]}", f"encode raised {r[1]}: {r[2]}")]
            text = None
        else:
            outs = r[2]
            text = r[1]
        for sub, what in outs:
            cost = (G.size(mdesc), len(opts or {}))
            if (enc, sub) not in best or cost < best[(enc, sub)][0]:
                best[(enc, sub)] = (cost, mdesc, enc, opts, text, what)
    return n, refused, distinct, best


# ---- option sets ------------------------------------------------------------------------------
def option_sets(enc, level):
    """level 0: defaults + one-factor deviations; level 1: + indent x width grid and pairs; 2: full grid"""
    pds = enc == "PDSLabelEncoder"
    sets = [{}]
    for i in (0, 1, 3, 4):
        sets.append({"indent": i})
    for w in (20, 30, 40, 60, 120):
        sets.append({"width": w})
    sets.append({"aggregation_end": False})
    if pds:
        sets += [{"convert_group_to_object": False}, {"tab_replace": 0}, {"tab_replace": 1},
                 {"symbol_single_quote": False}, {"time_trailing_z": False}]
    else:
        d = DEFAULTS[enc]
        sets += [{"end_delimiter": not d["end_delimiter"]}, {"newline": "\r\n" if d["newline"] == "\n" else "\n"}]
    if level >= 1:
        for i in (0, 1, 3, 4):
            for w in (20, 30, 40, 60, 120):
                sets.append({"indent": i, "width": w})
        for w in (20, 40):
            sets.append({"width": w, "aggregation_end": False})
            if pds:
                sets.append({"width": w, "symbol_single_quote": False})
                sets.append({"width": w, "tab_replace": 0})
            else:
                d = DEFAULTS[enc]
                sets.append({"width": w, "end_delimiter": not d["end_delimiter"]})
                sets.append({"width": w, "newline": "\r\n" if d["newline"] == "\n" else "\n"})
    if level >= 2:
        sets = []
        for i in range(5):
            for w in (20, 30, 40, 60, 80, 120):
                for ae in (True, False):
                    if pds:
                        for cg in (True, False):
                            for tr in (4, 0):
                                for sq in (True, False):
                                    sets.append({"indent": i, "width": w, "aggregation_end": ae,
                                                 "convert_group_to_object": cg, "tab_replace": tr,
                                                 "symbol_single_quote": sq})
                    else:
                        for ed in (True, False):
                            for nl in ("\n", "\r\n"):
                                sets.append({"indent": i, "width": w, "aggregation_end": ae,
                                             "end_delimiter": ed, "newline": nl})
    seen = set()
    out = []
    for s in sets:
        c = G.canon(s)
        if c not in seen:
            seen.add(c)
            out.append(s)
    return out


def random_options(rng, enc):
    o = {"indent": rng.randint(0, 4), "width": rng.randint(20, 120), "aggregation_end": rng.random() < 0.5}
    if enc == "PDSLabelEncoder":
        o.update(convert_group_to_object=rng.random() < 0.7, tab_replace=rng.choice([0, 1, 4, 8]),
                 symbol_single_quote=rng.random() < 0.7, time_trailing_z=rng.random() < 0.5)
    else:
        o.update(end_delimiter=rng.random() < 0.5, newline=rng.choice(["\n", "\r\n"]))
    return o


# ---- universes ----------------------------------------------------------------------------------
SIB_PAIRS = [
    ["a", 1], ["long_key_name", "two words"], ["X" * 30, ["list", list(range(1000, 1030))]],
    ["k", "line1\nline2"], ["sym", "sym bol"], ["q", ["quantity", 5, "m"]],
    ["t", ("long words " * 12).strip()], ["seq", ["list", ["a b", "c d", "e f", "g h", "i j", "k l", "m n", "o p"]]],
    ["MixedCase", ["float", "1.5"]], ["^PTR", 5], ["^PTR", "FILE.DAT"],
    ["g", ["group", [["a", 1], ["bb", "x y"]]]], ["g", ["group", []]], ["o", ["object", [["ccc", 2], ["d", None]]]],
    ["g", ["group", [["h", ["group", [["a", 1]]]]]]], ["d", ["dict", [["a", 1]]]],
    ["g", ["group", [["a", 1], ["a", 2]]]], ["g", ["group", [["^P", 5]]]],
]


def universe_single():
    """one (key, value) item in every placement; all keys x a plain value, all values x two keys"""
    mods = []
    placements = ("top", "group", "object", "object>group", "group>group", "dict")
    kv = []
    for k in G.KEY_POOL:
        for v in (1, "two words"):
            kv.append([k, v])
    for v in G.VALUE_POOL:
        for k in ("a", "Key_Name_Of_Some_Length"):
            kv.append([k, v])
    for item in kv:
        for pl in placements:
            mods.append(G.place([item], pl))
    universe_single.n_core = len(mods)         # what follows is not in placement-major order
    for k in G.KEY_POOL:                       # every key of the pool as a block name
        for kind in ("group", "object", "dict"):
            mods.append(["module", [[k, [kind, [["a", 1]]]]]])
            mods.append(["module", [["o", ["object", [[k, [kind, [["a", 1]]]]]]]]])
    mods.append(["module", []])
    mods.append(["dict", []])
    return mods


def universe_siblings(maxlen):
    mods = []
    for n in range(2, maxlen + 1):
        for tup in itertools.product(SIB_PAIRS, repeat=n):
            items = [list(x) for x in tup]
            mods.append(["module", items])
            if n == 2 or all(not G.is_container(v) for _, v in items):
                mods.append(G.place(items, "group"))
                mods.append(G.place(items, "object>group"))
    return mods


def _chunks(tasks, size):
    for i in range(0, len(tasks), size):
        yield tasks[i:i + size]


def _run_tasks(ctx, s, tasks):
    with mp.get_context("fork").Pool(ctx.jobs) as pool:
        outs = pool.map(_work, list(_chunks(tasks, 400)), chunksize=1)
    merged = {}
    refused = 0
    for n, r, distinct, best in outs:
        s.evaluations += n
        refused += r
        s.distinct.update(distinct)
        for sub, w in best.items():
            if sub not in merged or w[0] < merged[sub][0]:
                merged[sub] = w
    for _, sub in sorted(merged):
        cost, mdesc, enc, opts, text, what = merged[(_, sub)]
        s.violation(f"C12:{enc}:{sub}", f"{enc}({_fmt(opts)}).encode({_short(mdesc)}): {what}",
                    {"module": G.canon(mdesc), "encoder": enc, "options": opts, "text": text, "subkey": sub,
                     "python": f"pvl.encoder.{enc}({_fmt(opts)}).encode({G.pysrc(mdesc)})"})
    return refused


def _fmt(opts):
    return ", ".join(f"{k}={v!r}" for k, v in (opts or {}).items())


def _short(mdesc):
    c = G.pysrc(mdesc)
    return c if len(c) < 300 else c[:297] + "..."


def sections(ctx):
    out = []
    lvl = 1 if ctx.thorough else 0
    # -- exhaustive small universe -------------------------------------------------------------
    t0 = time.time()
    single = universe_single()
    sib = universe_siblings(3 if ctx.thorough else 2)
    s = Section("surface-enumerated", "bounded", bounded=True,
                rule="every module of the small universe (one item: every key of the key pool and every value of the "
                     "boundary pool in 6 placements up to depth 2; siblings: all tuples of length 2"
                     + ("..3" if ctx.thorough else "") + " over a pool of alignment/wrapping-relevant items, flat and "
                     "nested) x 4 encoders x option sets (defaults, one-factor deviations"
                     + (", indent x width grid, width pairs; full option grid for one-item modules" if ctx.thorough else "")
                     + "); the returned text is read by an independent line-level conformance reader; distinct = "
                     "(module, encoder, options) accepted by the encoder",
                bounds={"keys": len(G.KEY_POOL), "values": len(G.VALUE_POOL), "sibling_pool": len(SIB_PAIRS),
                        "one_item_modules": len(single), "sibling_modules": len(sib),
                        "max_items": 3 if ctx.thorough else 2, "max_depth": 2})
    tasks = []
    for enc in ENCODERS:
        osets = option_sets(enc, lvl)
        for o in osets:
            for m in single:
                tasks.append((m, enc, o))
        for o in option_sets(enc, 0):
            for m in sib:
                tasks.append((m, enc, o))
    if ctx.thorough:
        # full option grid on the one-item modules placed at top level and in a group
        for enc in ENCODERS:
            grid = option_sets(enc, 2)
            core = single[:universe_single.n_core]
            for m in core[::6] + core[1::6]:          # placements "top" and "group"
                for o in grid:
                    tasks.append((m, enc, o))
    refused = _run_tasks(ctx, s, tasks)
    s.samples = [{"module": single[7], "encoder": "PDSLabelEncoder", "options": {}},
                 {"module": sib[5], "encoder": "PVLEncoder", "options": {"width": 20}},
                 {"module": sib[-1], "encoder": "ISISEncoder", "options": {"indent": 4}}]
    s.exhaustive = True
    s.notes.append(f"{refused} of {s.evaluations} encode calls were refused with ValueError/TypeError (allowed)")
    s.seconds = time.time() - t0
    out.append(s)

    # -- seeded random --------------------------------------------------------------------------
    t0 = time.time()
    rng = random.Random(ctx.seed)
    nrand = 60000 if ctx.thorough else 6000
    s2 = Section("surface-random", "bounded", bounded=True,
                 rule="seeded random modules (<= 6 items per level, depth <= 3, keys and values from the boundary pools "
                      "and random strings/sequences, duplicate keys) x random encoder x random options "
                      "(indent 0..4, width 20..120, every flag); same reader",
                 bounds={"modules": nrand, "max_items": 6, "max_depth": 3, "seed": ctx.seed})
    tasks = []
    for i in range(nrand):
        m = G.random_container(rng, rng.choice(["module", "module", "dict"]), depth_left=2)
        enc = rng.choice(ENCODERS)
        tasks.append((m, enc, random_options(rng, enc)))
    refused = _run_tasks(ctx, s2, tasks)
    s2.samples = [{"module": t[0], "encoder": t[1], "options": t[2]} for t in tasks[:2]]
    s2.notes.append(f"{refused} of {s2.evaluations} encode calls were refused with ValueError/TypeError (allowed)")
    s2.seconds = time.time() - t0
    out.append(s2)
    return out


def replay(data):
    if "module" not in data:
        # witness style of older findings: {"value": ..., "encoder": ...}
        if "value" in data:
            data = {"module": ["module", [["a", data["value"]]]], "encoder": data.get("encoder", "PDSLabelEncoder"),
                    "options": data.get("options") or {}}
        else:
            return None
    mdesc, enc, opts = data["module"], data["encoder"], data.get("options") or {}
    if isinstance(mdesc, str):                 # descriptions travel as JSON text (the harness cuts deep nesting)
        mdesc = json.loads(mdesc)
    r = run_one(mdesc, enc, opts)
    if r[0] == "refused":
        return None
    if r[0] == "crash":
        return f"{enc}({_fmt(opts)}).encode({_short(mdesc)}) raised {r[1]}: {r[2]}"
    want = data.get("subkey")
    hits = [(s, w) for s, w in r[2] if want is None or s == want]
    if not hits:
        return None
    return f"{enc}({_fmt(opts)}).encode({_short(mdesc)}) -> {r[1]!r}: " + "; ".join(w for _, w in hits)
