"""Bounded driver for C13 (never counted as proved): "Dumping is repeatable and does not damage
its argument".

For every module of an enumerated universe (and seeded random ones) and every route
(PVLEncoder / ODLEncoder / PDSLabelEncoder / ISISEncoder .encode, pvl.dumps default, and a few option
variants) the module is built FRESH from its abstract description, a deep structural snapshot is
taken (own recursive walk: container classes, order of items, keys, id() of every nested container
and value, repr of leaves, and for multi-dicts also the mapping-side storage), encode is called
three times, and
  * the three outcomes (text, or exception type + message) must be identical,
  * the snapshot afterwards must equal the snapshot before, except that on the PDS3 routes ONE
    top-level PVLGroup may have become a PVLObject with identical content - and only when the
    module had a group and no object-like block at top level.
ValueError / TypeError are refusals (allowed, but they too must leave the module intact and repeat);
any other exception type is a violation.
"""
import itertools
import json
import multiprocessing as mp
import random
import time
import warnings
from collections import abc

from ..harness import Section
from . import enc_modgen as G

ROUTES = [
    ("PVLEncoder", {}), ("ODLEncoder", {}), ("PDSLabelEncoder", {}), ("ISISEncoder", {}), ("dumps", {}),
    ("PDSLabelEncoder", {"convert_group_to_object": False}), ("PDSLabelEncoder", {"width": 20}),
    ("PVLEncoder", {"width": 20}), ("dumps", {"aggregation_end": False, "indent": 0}),
    ("new.dumps", {}),          # the same module in the pvl.new container classes, through pvl.new.dumps
]
PDS_ROUTES = ("PDSLabelEncoder", "dumps", "new.dumps")
CONVERSIONS = {("PVLGroup", "PVLObject"), ("PVLGroupNew", "PVLObjectNew")}


def to_new(x):
    """The same content in the multidict-based container classes of pvl.new (other values shared)."""
    import pvl.collections as pc
    if isinstance(x, pc.OrderedMultiDict):
        cls = (pc.PVLModuleNew if isinstance(x, pc.PVLModule) else pc.PVLGroupNew if isinstance(x, pc.PVLGroup)
               else pc.PVLObjectNew if isinstance(x, pc.PVLObject) else pc.PVLMultiDict)
        m = cls()
        for k, v in x:
            m.append(k, to_new(v))
        return m
    return x


def build_for(mdesc, route):
    m = G.build(mdesc)
    return to_new(m) if route == "new.dumps" else m


def snap(x):
    """Deep structural snapshot (identity-sensitive)."""
    import pvl.collections as pc
    if isinstance(x, abc.Mapping):
        if isinstance(x, pc.OrderedMultiDict):
            pairs = list(x)
            storage = sorted(((repr(k), [id(v) for v in dict.__getitem__(x, k)]) for k in dict.keys(x)))
        else:
            pairs = list(x.items())
            storage = None
        attrs = sorted((k, repr(v)) for k, v in getattr(x, "__dict__", {}).items() if not k.endswith("__items"))
        return ("map", type(x).__name__, id(x), [(k, snap(v)) for k, v in pairs], storage, attrs)
    if isinstance(x, pc.Quantity):
        return ("quantity", id(x), snap(x.value), repr(x.units))
    if isinstance(x, list):
        return ("list", id(x), [snap(v) for v in x])
    if isinstance(x, (set, frozenset)):
        return ("set", type(x).__name__, id(x), sorted(repr(v) for v in x))
    return ("leaf", type(x).__name__, id(x), repr(x))


def sid(s):
    """id() recorded in a snapshot node"""
    return s[1] if s[0] in ("quantity", "list") else s[2]


def content(s):
    """Snapshot of a container without its own class / identity (for the permitted conversion)."""
    return (s[3], s[5])


def diff(before, after, route, mdesc):
    """-> list of (subkey, what).  Empty if after == before up to the permitted conversion."""
    if before == after:
        return []
    out = []
    if before[0] != "map" or after[0] != "map" or before[1] != after[1] or before[2] != after[2]:
        return [("module-object-replaced", "the module object itself changed class or identity")]
    bi, ai = before[3], after[3]
    items = mdesc[1]
    if len(bi) != len(ai):
        lost = [k for k, _ in bi]
        for k, _ in ai:
            if k in lost:
                lost.remove(k)
        blocks = [(k, v) for k, v in items if G.is_container(v)]
        groups = [k for k, v in blocks if v[0] == "group"]
        if any(k in groups for k in lost):
            if all(G.is_container(v) and v[0] == "group" for k, v in items if k in set(lost)):
                sub = "duplicate-group-name-dropped"
            else:
                sub = "item-sharing-group-name-dropped"
        else:
            sub = "item-count-changed"
        return [(sub, f"the module had {len(bi)} items {[k for k, _ in bi]!r} before and {len(ai)} "
                      f"{[k for k, _ in ai]!r} after the call")]
    conv = 0
    for i, ((kb, vb), (ka, va)) in enumerate(zip(bi, ai)):
        if kb != ka:
            out.append(("items-reordered", f"item {i} had key {kb!r} before and {ka!r} after"))
            break
        if vb == va:
            continue
        if (vb[0] == "map" and va[0] == "map" and (vb[1], va[1]) in CONVERSIONS
                and content(vb) == content(va)):
            conv += 1
            if route not in PDS_ROUTES:
                out.append(("group-converted-by-non-PDS-encoder", f"item {i} ({kb!r}) became a PVLObject"))
            continue
        if vb[0] == "map" and va[0] == "map" and vb[2] != va[2]:
            out.append(("nested-container-replaced",
                        f"item {i} ({kb!r}): {vb[1]} replaced by another {va[1]} object "
                        f"(content {'equal' if content(vb) == content(va) else 'different'})"))
        else:
            out.append(("value-altered", f"item {i} ({kb!r}) changed: {str(vb)[:80]} -> {str(va)[:80]}"))
    if conv:
        blocks = [v for _, v in items if G.is_container(v)]
        if any(v[0] != "group" for v in blocks):
            out.append(("group-converted-although-object-present",
                        "a top-level group was converted although the module already had an object-like block"))
        if conv > 1:
            out.append(("more-than-one-group-converted", f"{conv} top-level groups became objects"))
    if before[4] is not None and not out:
        # list side equal up to the conversion: the mapping side must tell the same story
        want = {}
        for k, v in ai:
            want.setdefault(repr(k), []).append(sid(v))
        got = {k: ids for k, ids in after[4]}
        if got != want:
            out.append(("mapping-view-disagrees-after-dump",
                        f"after the call the dict storage holds {got!r}, the list of pairs implies {want!r}"))
    if before[5] != after[5]:
        out.append(("module-attribute-changed", f"instance attributes {before[5]!r} -> {after[5]!r}"))
    return out


def call(route, opts, m):
    import pvl
    import pvl.encoder as pe
    with warnings.catch_warnings():
        warnings.simplefilter("ignore")
        try:
            if route == "dumps":
                return ("ok", pvl.dumps(m, **opts))
            if route == "new.dumps":
                import pvl.new
                return ("ok", pvl.new.dumps(m, **opts))
            return ("ok", getattr(pe, route)(**opts).encode(m))
        except (ValueError, TypeError) as e:
            return ("refused", type(e).__name__, str(e))
        except Exception as e:
            return ("crash", type(e).__name__, str(e)[:200])


def check_one(mdesc, route, opts, same_instance=False):
    """-> (accepted?, [(subkey, what)], text)"""
    import pvl.encoder as pe
    m = build_for(mdesc, route)
    before = snap(m)
    outs = []
    if same_instance and route not in ("dumps", "new.dumps"):
        with warnings.catch_warnings():
            warnings.simplefilter("ignore")
            enc = getattr(pe, route)(**opts)
        for _ in range(3):
            try:
                with warnings.catch_warnings():
                    warnings.simplefilter("ignore")
                    outs.append(("ok", enc.encode(m)))
            except (ValueError, TypeError) as e:
                outs.append(("refused", type(e).__name__, str(e)))
            except Exception as e:
                outs.append(("crash", type(e).__name__, str(e)[:200]))
    else:
        for _ in range(3):
            outs.append(call(route, opts, m))
    after = snap(m)
    res = []
    if any(o[0] == "crash" for o in outs):
        o = [o for o in outs if o[0] == "crash"][0]
        res.append((f"exception:{o[1]}", f"encode raised {o[1]}: {o[2]}"))
    if not (outs[0] == outs[1] == outs[2]):
        kinds = [o[0] for o in outs]
        if len(set(kinds)) > 1:
            res.append(("outcome-differs-between-calls", f"three calls on the same object gave {kinds!r}: "
                                                         f"{[str(o[1])[:60] for o in outs]!r}"))
        elif kinds[0] == "ok":
            a, b = (outs[0][1], outs[1][1]) if outs[0] != outs[1] else (outs[1][1], outs[2][1])
            i = next((j for j, (x, y) in enumerate(zip(a, b)) if x != y), min(len(a), len(b)))
            res.append(("text-differs-between-calls", f"two calls on the same object returned different text at "
                                                      f"offset {i}: {a[max(0, i - 20):i + 20]!r} vs {b[max(0, i - 20):i + 20]!r}"))
        else:
            res.append(("message-differs-between-calls", f"{[o[1:] for o in outs]!r}"))
    res += diff(before, after, route, mdesc)
    text = outs[0][1] if outs[0][0] == "ok" else None
    return outs[0][0] == "ok", res, text


def _work(chunk):
    n = 0
    accepted = 0
    distinct = set()
    best = {}
    for i, (mdesc, route, opts) in enumerate(chunk):
        n += 1
        ok, res, text = check_one(mdesc, route, opts, same_instance=(i % 2 == 1))
        accepted += ok
        distinct.add(G.h64([mdesc, route, opts]))
        for sub, what in res:
            cost = (G.size(mdesc), len(opts))
            k = (route, sub)
            if k not in best or cost < best[k][0]:
                best[k] = (cost, mdesc, route, opts, text, what)
    return n, accepted, distinct, best


ITEMS = [
    ["a", 1], ["b", "two words"], ["a", ["list", [1, 2]]],
    ["g", ["group", [["x", 1]]]], ["g", ["group", [["y", 2]]]],
    ["h", ["group", [["n", ["group", [["x", 1]]]]]]], ["p", ["group", [["^PTR", 5]]]],
    ["r", ["group", [["x", 1], ["x", 2]]]], ["o", ["object", [["x", 1]]]], ["g", ["object", [["x", 1]]]],
    ["d", ["dict", [["x", 1]]]], ["g", 7], ["e", ["group", []]],
    ["o2", ["object", [["gg", ["group", [["^P", 5]]]], ["k", ["list", [1, ["list", [2]]]]]]]],
]
ITEMS_MORE = [
    ["q", ["quantity", 5, "m"]], ["s", ["set", [1, 2]]], ["t", "line1\nline2"], ["bad key", 1],
    ["p", ["group", [["^PTR", "FILE.DAT"]]]], ["seq", ["list", ["a b", "c d", "e f", "g h", "i j", "k l", "m n"]]],
    ["m", ["module", [["x", 1]]]], ["w", ["omd", [["x", 1], ["x", 2]]]],
]


def universe(thorough):
    pool = ITEMS + (ITEMS_MORE if thorough else [])
    maxlen = 3
    mods = []
    for n in range(0, maxlen + 1):
        for tup in itertools.product(pool, repeat=n):
            items = [list(x) for x in tup]
            mods.append(["module", items])
            keys = [k for k, _ in items]
            if len(set(keys)) == len(keys) and n >= 1:
                mods.append(["dict", items])
    if thorough:
        for tup in itertools.product(ITEMS, repeat=4):
            mods.append(["module", [list(x) for x in tup]])
    # every boundary value: does encoding alter a list / set / quantity / string in place?
    for v in G.VALUE_POOL:
        for pl in ("top", "group", "dict", "dict>dict"):
            mods.append(G.place([["a", v], ["b", v]] if pl != "dict" and pl != "dict>dict" else [["a", v]], pl))
    for cls in ("group", "object", "omd"):
        mods.append([cls, [["a", 1], ["g", ["group", [["x", 1]]]], ["g", ["group", [["y", 1]]]]]])
    return mods


def _run(ctx, s, tasks):
    size = 300
    chunks = [tasks[i:i + size] for i in range(0, len(tasks), size)]
    with mp.get_context("fork").Pool(ctx.jobs) as pool:
        outs = pool.map(_work, chunks, chunksize=1)
    merged = {}
    acc = 0
    for n, a, distinct, best in outs:
        s.evaluations += n
        acc += a
        s.distinct.update(distinct)
        for k, w in best.items():
            if k not in merged or w[0] < merged[k][0]:
                merged[k] = w
    for k in sorted(merged):
        cost, mdesc, route, opts, text, what = merged[k]
        s.violation(f"C13:{route}:{k[1]}", f"m = {_short(mdesc)}; {_call(route, opts)}: {what}",
                    {"python": f"m = {G.pysrc(mdesc)}; {_call(route, opts)}", "module": G.canon(mdesc), "route": route, "options": opts, "text": text, "subkey": k[1]})
    return acc


def _call(route, opts):
    o = ", ".join(f"{k}={v!r}" for k, v in opts.items())
    if route == "new.dumps":
        return f"m = to_new(m)  # vf.rtc.c13_dump_pure.to_new: the pvl.new container classes; pvl.new.dumps(m{', ' + o if o else ''})"
    return f"pvl.dumps(m{', ' + o if o else ''})" if route == "dumps" else f"{route}({o}).encode(m)"


def _short(mdesc):
    c = G.pysrc(mdesc)
    return c if len(c) < 300 else c[:297] + "..."


def sections(ctx):
    out = []
    t0 = time.time()
    mods = universe(ctx.thorough)
    s = Section("dump-pure-enumerated", "bounded", bounded=True,
                rule="all modules with <= 3 top-level items" + (" (<= 4 over the base pool)" if ctx.thorough else "")
                     + " over an item pool (scalars, duplicate keys, valid PDS groups, two groups with one name, groups "
                     "that are not PDS groups - nested group, ^PTR = 5, repeated key -, objects, nested dicts, a scalar "
                     "sharing a group's name), as PVLModule and (unique keys) as plain dict, plus every boundary value "
                     "once; x 10 routes (4 encoders, pvl.dumps, option variants, pvl.new.dumps on the same module in the pvl.new classes); three calls, deep identity-sensitive "
                     "snapshot before/after; distinct = (module, route, options)",
                bounds={"item_pool": len(ITEMS) + (len(ITEMS_MORE) if ctx.thorough else 0), "max_items": 4 if ctx.thorough else 3,
                        "routes": len(ROUTES), "modules": len(mods)})
    tasks = [(m, r, o) for m in mods for r, o in ROUTES]
    acc = _run(ctx, s, tasks)
    s.samples = [{"module": tasks[40][0], "route": tasks[40][1], "options": tasks[40][2]},
                 {"module": mods[len(mods) // 2], "route": "dumps", "options": {}}]
    s.exhaustive = True
    s.notes.append(f"{acc} of {s.evaluations} (module, route) pairs were accepted; the rest refused with "
                   "ValueError/TypeError (allowed; they must still repeat and leave the module intact)")
    s.seconds = time.time() - t0
    out.append(s)

    t0 = time.time()
    rng = random.Random(ctx.seed)
    nrand = 40000 if ctx.thorough else 4000
    s2 = Section("dump-pure-random", "bounded", bounded=True,
                 rule="seeded random modules (<= 6 items per level, depth <= 3, duplicate keys, PVLModule / dict / "
                      "OrderedMultiDict at top level) x random route; same check",
                 bounds={"modules": nrand, "seed": ctx.seed})
    tasks = []
    for _ in range(nrand):
        m = G.random_container(rng, rng.choice(["module", "module", "dict", "omd"]), depth_left=2)
        r, o = rng.choice(ROUTES)
        tasks.append((m, r, o))
    acc = _run(ctx, s2, tasks)
    s2.samples = [{"module": t[0], "route": t[1], "options": t[2]} for t in tasks[:2]]
    s2.notes.append(f"{acc} of {s2.evaluations} accepted")
    s2.seconds = time.time() - t0
    out.append(s2)
    return out


def replay(data):
    if "module" not in data:
        return None
    mdesc, route, opts = data["module"], data.get("route", "PDSLabelEncoder"), data.get("options") or {}
    if isinstance(mdesc, str):                 # descriptions travel as JSON text (the harness cuts deep nesting)
        mdesc = json.loads(mdesc)
    want = data.get("subkey")
    for same in (False, True):
        ok, res, text = check_one(mdesc, route, opts, same_instance=same)
        hits = [(s, w) for s, w in res if want is None or s == want]
        if hits:
            return f"{_call(route, opts)} on {_short(mdesc)}: " + "; ".join(w for _, w in hits)
    return None
