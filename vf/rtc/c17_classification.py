"""Bounded driver for C17 (never counted as proved): value classification is total, exclusive and
shared by reader and writer.

For every string s of the enumerated space and every grammar/decoder pair the real
`decoder.decode_simple_value(s)` assigns s a class (keyword, quoted, based, decimal, datetime,
unquoted, notvalue).  Checked:
  totality      only ValueError may escape from decode_simple_value and from any Token.is_* predicate;
  spec-class    the class agrees with an independent classifier written from the PVL / ODL syntax
                (`spec_class`; the date/time part is the C14 oracle, no library code);
  predicates    every public Token predicate agrees with the class;
  writer/reader for the four encoders: needs_quotes(s) False  =>  the encoder's own decoder reads s back as the
                identical str; encode_string(s) is refused (ValueError) or decodes back to s (ODL family: modulo
                the documented white-space folding), also end-to-end through pvl.loads with the strict parser.
"""
import datetime as _dt
import itertools
import multiprocessing as mp
import random
import re
import time as _time
import warnings

from ..harness import Section
from . import c14_datetime as C14

PAIRS = ("PVL", "ODL", "PDS3", "ISIS", "Omni")
ENCODERS = {"PVLEncoder": "PVL", "ODLEncoder": "ODL", "PDSLabelEncoder": "PDS3", "ISISEncoder": "ISIS"}
ODL_FAMILY = ("ODL", "PDS3", "Omni")        # decoders that fold white space inside quoted strings

ALPHABET = list("aeEndNulLtrfsi012_-+.#:TZ\"' ")
ALPHA_Q4 = list("naife1_-+.")
ALPHA_T4 = list("naifeulE12_-+.#:T\"' ")
ALPHA_T5 = list("naife1_-.+")

CURATED = [
    "", " ", "  ", "a b", " a", "a ", "\t", "a\tb", "a\nb", "a-\nb", "a-\n  b",
    "null", "Null", "NULL", "nUlL", "TRUE", "true", "True", "false", "FALSE", "False",
    "end", "END", "End", "End_Group", "end_group", "END_GROUP", "end_object", "End_Object", "END_OBJECT",
    "BEGIN_GROUP", "begin_group", "BEGIN_OBJECT", "Begin_Object", "object", "Object", "OBJECT", "group", "Group", "GROUP",
    "ENDS", "END_", "_END", "NULLS", "TRUEE", "GROUPS",
    "inf", "Inf", "INF", "nan", "NaN", "NAN", "Infinity", "infinity", "INFINITY", "-inf", "+inf", "-nan", "+nan", "-Infinity",
    "infi", "in", "na", "nane",
    "1e5", "1E+5", "1e-5", "1e+", "1e", "e5", "1.", ".1", ".", "+", "-", "+.", "-.", "+-1", "--1", "1-", "1+", "1.e5", ".5e-3",
    "1_0", "1_000", "_1", "1_", "1__0", "1_0.5", "1e1_0", "0_0", "0x10", "0X1F", "0o17", "0b101", "1e400", "-1e400", "00", "007",
    " 1", "1 ", " 1.5 ", "\t1", "1\n",
    "2#101#", "+2#101#", "-2#1#", "2#-1#", "2#+1#", "+2#-1#", "-2#+1#", "2#102#", "2#2#", "8#9#", "8#17#", "16#FF#", "16#ff#",
    "-16#FF#", "16#-FF#", "16#G#", "3#12#", "10#99#", "16#1F", "16##", "#", "##", "1#1#", "17#1#", "2#1", "#1#", "2#1#2", "7#66#",
    "2001-001", "2001-365", "2001-366", "2000-366", "2001-367", "2001-000", "2001-01-01", "2001-02-29", "2000-02-29", "2001-13-01",
    "2001-01-00", "2001-01-32", "0000-01-01", "0001-01-01", "9999-12-31", "999-01-01", "2001-1-1", "2001-01- 1", "2001-01-01Z",
    "01:02", "1:2", "01:02:03", "01:02:03.5", "01:02:03.123456", "01:02:03.1234567", "01:02Z", "01:02z", "24:00", "23:60", "01:02:60",
    "01:02:60Z", "01:02:60.5", "01:02:61", "2001-01-01T01:02", "2001-01-01t01:02", "2001-01-01T01:02Z", "2001-001T01:02:03.5Z",
    "2001-01-01T01:02:60", "2000-01-01T01:02:60", "2010-001T23:59:60", "2001-366T01:02:60", "2001-02-30T01:02:60",
    "12:00+05", "12:00-05", "12:00+05:30", "12:00-05:30", "12:00+0530", "12:00+5", "12:00Z+05", "12:00+13", "12:00:60+05",
    "2001-01-01+05", "2001-01-01-05", "2001-01-01T12:00+05", "2001-01-01T12:00-05:30",
    "\"\"", "''", "\"", "'", "\"a\"", "'a'", "\"a'", "'a\"", "\"a", "a\"", "'a", "a'", "\"a\"b\"", "'a'b'", "\"'\"", "'\"'", "\"\"\"", "'''",
    "\"a b\"", "\" a \"", "\"null\"", "'1'", "\"a-\nb\"", "it's", "say \"hi\"", "both ' and \"", "a\"b'c",
    "a/*b", "/*c*/", "a*/", "a/b", "a*b", "/*", "*/", "/", "*", "#c", "a#b", "a#",
    "a+b", "+a", "a+", "a=b", "a;b", "a,b", "(a)", "{a}", "<a>", "a&b", "a|b", "a~b", "a%b", "a!b", "a[1]", "a(b", "=", ";", ",",
    "a", "A", "z9", "a_b", "a_", "_a", "_", "__", "a-b", "-a", "a-", "a.b", ".a", "a.", "a:b", ":a", "a:", "^a", "a^", "1a", "a1", "9_a",
    "A_VERY_LONG_IDENTIFIER_NAME_1", "Th1s_1s", "a\\b", "a$b", "a@b", "a?b", "a`b",
    "é", "café", "١٢", "１２", "２００１-０１-０１", "²", "½", "a b", "\x00", "a\x00b",
    "İ", "ß", "nuſſ", "K",
]

WS = " \t\n\r\v\f"
QUOTES = "\"'"
PVL_RESERVED = "&<>'{},[]=!#()%+\";~|"
RESERVED = {"PVL": PVL_RESERVED, "ODL": PVL_RESERVED, "PDS3": PVL_RESERVED,
            "ISIS": PVL_RESERVED.replace("+", ""), "Omni": PVL_RESERVED.replace("+", "") + "\0"}
COMMENT_MARKS = {"PVL": ("/*", "*/"), "ODL": ("/*", "*/"), "PDS3": ("/*", "*/"),
                 "ISIS": ("/*", "*/", "#", "\n"), "Omni": ("/*", "*/", "#", "\n")}
AGG_FULL = ("group", "begin_group", "end_group", "object", "begin_object", "end_object")
AGG_KW = {"PVL": AGG_FULL, "ODL": AGG_FULL, "PDS3": AGG_FULL, "Omni": AGG_FULL,
          "ISIS": ("group", "end_group", "object", "end_object")}

_DEC_RE = re.compile(r"[+-]?(?:[0-9]+(?:\.[0-9]*)?|\.[0-9]+)(?:[eE][+-]?[0-9]+)?")
_BASED_PVL = re.compile(r"[+-]?(?:2#[01]+#|8#[0-7]+#|16#[0-9A-Fa-f]+#)")
_BASED_ODL = re.compile(r"(?P<radix>[2-9]|1[0-6])#(?P<sign>[+-]?)(?P<digits>[0-9A-Fa-f]+)#")
_BASED_OMNI = re.compile(r"(?P<s1>[+-]?)(?P<radix>[2-9]|1[0-6])#(?P<sign>[+-]?)(?P<digits>[0-9A-Fa-f]+)#")
_IDENT = re.compile(r"[A-Za-z](?:[A-Za-z0-9_]*[A-Za-z0-9])?")
_INFNAN = re.compile(r"[+-]?(?:inf|infinity|nan)")


# --------------------------------------------------------------------------------------------
# independent classifier (from the syntax, never from the library)
# --------------------------------------------------------------------------------------------
def _digits_fit(digits, radix):
    return all(int(c, 16) < radix for c in digits)


def is_based(pair, s):
    if pair in ("PVL", "ISIS"):
        return _BASED_PVL.fullmatch(s) is not None
    m = (_BASED_OMNI if pair == "Omni" else _BASED_ODL).fullmatch(s)
    if not m:
        return False
    if pair == "Omni" and m.group("s1") and m.group("sign"):
        return False
    return _digits_fit(m.group("digits"), int(m.group("radix")))


def datetime_status(pair, s):
    """'yes' | 'no' | 'maybe' (syntax the property is silent about: either reading is accepted)."""
    lenient = False
    t = s
    if re.search(r"[tz]", s) and re.fullmatch(r"[0-9:.\-+tTzZ]+", s):
        t = s.replace("t", "T").replace("z", "Z")     # letter case of the T / Z markers: not decided here
        lenient = True
    spec = C14.spec_from_text(t)
    if spec is None:
        return "no"
    e = C14.expect(pair, spec)
    if e[0] == "reject":
        return "no"
    return "maybe" if (lenient or e[0] == "may") else "yes"


def plain_class(pair, s):
    """Class of s when it is not a date/time: keyword | quoted | based | decimal | unquoted | notvalue."""
    f = s.casefold()
    if f in ("null", "true", "false") and s.isascii():
        return "keyword"
    if len(s) >= 2 and s[0] in QUOTES and s[-1] == s[0]:
        return "quoted"
    if is_based(pair, s):
        return "based"
    if _DEC_RE.fullmatch(s):
        return "decimal"
    if s == "" or any(c in WS for c in s) or any(c in RESERVED[pair] for c in s):
        return "notvalue"
    if any(m in s for m in COMMENT_MARKS[pair]):
        return "notvalue"
    if f == "end" or f in AGG_KW[pair]:
        return "notvalue"
    if pair in ("ODL", "PDS3") and not _IDENT.fullmatch(s):
        return "notvalue"
    return "unquoted"


def spec_class(pair, s):
    """-> set of acceptable classes"""
    p = plain_class(pair, s)
    if pair == "ISIS" and s.casefold() in ("begin_group", "begin_object"):
        return {"unquoted", "notvalue"}      # ISIS has no written syntax; its grammar object is of two minds here
    if p in ("keyword", "quoted", "based", "decimal"):
        return {p}
    d = datetime_status(pair, s)
    if d == "yes":
        return {"datetime"}
    if d == "maybe":
        return {"datetime", p}
    return {p}


def feature(s):
    """Coarse, stable shape of s: groups the witnesses of one defect under one key."""
    f = s.casefold()
    if s == "":
        return "empty"
    if not s.isascii():
        return "non-ascii"
    if f in ("null", "true", "false"):
        return "kw-null-bool"
    if f == "end" or f in AGG_FULL:
        return "kw-reserved"
    if any(c in WS for c in s):
        return "whitespace"
    if any(c in QUOTES for c in s):
        return "quote"
    if _INFNAN.fullmatch(f):
        return "inf-nan"
    if "#" in s:
        return "hash"
    if "_" in s and re.fullmatch(r"[0-9_.eE+\-]+", s) and re.search(r"[0-9]", s):
        return "underscore-number"
    if ":" in s:
        if ":60" in s:
            return "time-seconds-60"
        if re.search(r"[Zz][+-]", s):
            return "time-Z-then-offset"
        if re.search(r":[0-9]{1,2}(?:\.[0-9]+)?[+-][0-9]", s):
            return "time-offset"
        return "colon"
    if re.match(r"[0-9]{4}-[0-9]", s):
        return "date-like"
    if "+" in s:
        return "plus"
    if s[0] in "0123456789+-.":
        return "numlike"
    if "-" in s:
        return "dash"
    if s[0] == "_" or s[-1] == "_":
        return "underscore-edge"
    if "." in s:
        return "dot"
    return "word"


def charset_ok(pair, s):
    """Characters of the dialect's character set only (whole labels outside it are C12's subject, not C17's)."""
    for c in s:
        o = ord(c)
        if pair in ("ODL", "PDS3"):
            if not (32 <= o < 127 or c in WS):
                return False
        elif o > 255 or o <= 8 or 14 <= o <= 31 or 127 <= o <= 159:
            return False
    return True


def odl_fold(s):
    s = re.sub(r"-[\n\r\v\f][ \t\n\r\v\f]*", "", s)
    return re.sub(r"[ \t\n\r\v\f]+", " ", s.strip(WS))


# --------------------------------------------------------------------------------------------
# the real library
# --------------------------------------------------------------------------------------------
_CACHE = {}


def pair_objects(pair):
    if pair not in _CACHE:
        d = C14.decoder_for(pair)
        _CACHE[pair] = (d.grammar, d)
    return _CACHE[pair]


def call(fn, *a):
    try:
        return ("ok", fn(*a))
    except ValueError as e:
        return ("ValueError", str(e)[:100])
    except Exception as e:            # judged below, never ignored
        return (type(e).__name__, str(e)[:100])


def got_class(pair, s, out):
    """-> (class, problem | None)"""
    if out[0] == "ValueError":
        return "notvalue", None
    if out[0] != "ok":
        return "exception", None
    v = out[1]
    if v is None or type(v) is bool:
        return "keyword", None
    if type(v) is int:
        return ("based" if "#" in s else "decimal"), None
    if type(v) is float:
        return "decimal", None
    if type(v) in (_dt.date, _dt.time, _dt.datetime):
        return "datetime", None
    if type(v) is str:
        if len(s) >= 2 and s[0] in QUOTES and s[-1] == s[0]:
            want = odl_fold(s[1:-1]) if pair in ODL_FAMILY else s[1:-1]
            return "quoted", (None if v == want else f"quoted text reads as {v!r}, expected {want!r}")
        if v != s:
            return "unquoted", f"unquoted text reads as a different string {v!r}"
        sp = C14.spec_from_text(s)
        if sp is not None and sp[1] is not None and sp[1][2] == 60:
            return "leaptext", None         # seconds = 60: a date/time kept as text - or a plain string (resolved below)
        return "unquoted", None
    return "other:" + type(v).__name__, None


PREDICATES = ("is_quoted_string", "is_non_decimal", "is_decimal", "is_numeric", "is_datetime", "is_simple_value",
              "is_unquoted_string", "is_string", "is_parameter_name")
OTHER_PREDICATES = ("is_space", "is_WSC", "is_comment", "is_quote", "is_delimiter", "is_begin_aggregation",
                    "is_end_statement", "isspace", "isnumeric")


def check_pair(pair, s):
    """-> (class, [(check, detail, what)])"""
    from pvl.token import Token
    g, d = pair_objects(pair)
    bad = []
    out = call(d.decode_simple_value, s)
    cls, problem = got_class(pair, s, out)
    shown = repr(out[1]) if out[0] == "ok" else f"{out[0]}({out[1]!r})"
    if cls == "exception":
        bad.append(("decode_simple_value", "exception-" + out[0],
                    f"{pair}: decode_simple_value({s!r}) raised {out[0]}: {out[1]} (only ValueError is allowed)"))
    elif cls.startswith("other:"):
        bad.append(("decode_simple_value", "type-" + cls[6:], f"{pair}: decode_simple_value({s!r}) -> {shown}: not a value type"))
    if problem:
        bad.append(("decode_simple_value", "string-value", f"{pair}: decode_simple_value({s!r}): {problem}"))
    if cls == "leaptext":
        # the identical str comes back whether the decoder saw a leap-second date/time or a plain string:
        # its own is_datetime answer says which, and the syntax classifier then judges that class
        o = call(lambda: Token(s, g, d).is_datetime())
        cls = "datetime" if (o[0] == "ok" and o[1]) else "unquoted"
    want = spec_class(pair, s)
    if cls != "exception" and not cls.startswith("other:") and cls not in want:
        bad.append(("spec-class", f"reads-as-{cls}",
                    f"{pair}: {s!r} is {' or '.join(sorted(want))} by the dialect's syntax but decode_simple_value gives {shown} ({cls})"))
    tc = call(Token, s, g, d)
    if tc[0] != "ok":
        bad.append(("Token", "exception-" + tc[0], f"{pair}: Token({s!r}) raised {tc[0]}: {tc[1]}"))
        return cls, bad
    tok = tc[1]
    r = {}
    also = []
    for p in PREDICATES + OTHER_PREDICATES:
        o = call(getattr(tok, p))
        if o[0] != "ok":
            # predicates answer True / False; even ValueError is not an answer
            if not (cls == "exception" and o[0] == out[0]):     # else: the same escape, already reported once
                bad.append((p, "exception-" + o[0], f"{pair}: Token({s!r}).{p}() raised {o[0]}: {o[1]}"))
            else:
                also.append(p)
            r[p] = None
        elif type(o[1]) is not bool:
            bad.append((p, "non-bool", f"{pair}: Token({s!r}).{p}() returned {o[1]!r}"))
            r[p] = None
        else:
            r[p] = o[1]
    if cls == "exception" and also:
        i = [b[0] for b in bad].index("decode_simple_value")
        bad[i] = (bad[i][0], bad[i][1], bad[i][2] + "; also escapes from Token." + ", ".join(also))
    if cls == "exception" or cls.startswith("other:"):
        return cls, bad

    def agree(p, expected, why):
        if r[p] is not None and r[p] != expected:
            bad.append((p, f"{r[p]}-but-{why}", f"{pair}: Token({s!r}).{p}() is {r[p]} but decode_simple_value gives {shown} ({cls})"))

    agree("is_quoted_string", cls == "quoted", cls)
    agree("is_non_decimal", cls == "based", cls)
    agree("is_decimal", cls == "decimal", cls)
    agree("is_datetime", cls == "datetime", cls)
    agree("is_simple_value", cls != "notvalue", cls)
    agree("is_unquoted_string", cls == "unquoted", cls)
    for p, a, b in (("is_numeric", "is_decimal", "is_non_decimal"), ("is_string", "is_quoted_string", "is_unquoted_string")):
        if None not in (r[p], r[a], r[b]) and r[p] != (r[a] or r[b]):
            bad.append((p, "not-the-disjunction", f"{pair}: Token({s!r}).{p}() is {r[p]} but {a}() is {r[a]} and {b}() is {r[b]}"))
    if r["is_parameter_name"]:
        if cls in ("based", "decimal", "datetime"):
            bad.append(("is_parameter_name", f"True-but-{cls}",
                        f"{pair}: Token({s!r}).is_parameter_name() is True but the text decodes to {shown} ({cls})"))
        if r["is_unquoted_string"] is False:
            bad.append(("is_parameter_name", "True-but-not-unquoted",
                        f"{pair}: Token({s!r}).is_parameter_name() is True but is_unquoted_string() is False"))
        if s.casefold() == "end" or s.casefold() in AGG_KW[pair]:
            bad.append(("is_parameter_name", "True-but-reserved-keyword",
                        f"{pair}: Token({s!r}).is_parameter_name() is True for a reserved keyword"))
    for a, b in (("isspace", "is_space"), ("isnumeric", "is_numeric")):
        if None not in (r[a], r[b]) and r[a] != r[b]:
            bad.append((a, "differs-from-" + b, f"{pair}: Token({s!r}).{a}() is {r[a]} but {b}() is {r[b]}"))
    return cls, bad


def describe_read(pair, out, s):
    if out[0] != "ok":
        return out[0], f"{out[0]}({out[1]!r})"
    c, _ = got_class(pair, s, out)
    return ("datetime" if c == "leaptext" else c), repr(out[1])


def check_encoder(enc_name, s, with_loads):
    """-> [(check, detail, what)]"""
    pair = ENCODERS[enc_name]
    enc = C14.encoder_for(enc_name)
    dec = enc.decoder
    bad = []
    nq = call(enc.needs_quotes, s)
    if nq[0] != "ok":
        bad.append(("needs_quotes", "exception-" + nq[0], f"{enc_name}.needs_quotes({s!r}) raised {nq[0]}: {nq[1]}"))
    elif nq[1] is False or not nq[1]:
        out = call(dec.decode_simple_value, s)
        if not (out[0] == "ok" and type(out[1]) is str and out[1] == s):
            c, shown = describe_read(pair, out, s)
            bad.append(("needs_quotes", f"False-but-reads-as-{c}",
                        f"{enc_name}.needs_quotes({s!r}) is False but its decoder reads {s!r} as {shown}, not as the identical str"))
    es = call(enc.encode_string, s)
    if es[0] == "ValueError":
        return bad, "refused"
    if es[0] != "ok":
        bad.append(("encode_string", "exception-" + es[0], f"{enc_name}.encode_string({s!r}) raised {es[0]}: {es[1]}"))
        return bad, None
    t = es[1]
    want = odl_fold(s) if (pair in ODL_FAMILY and (any(c in WS for c in s))) else s
    out = call(dec.decode_simple_value, t)
    if not (out[0] == "ok" and type(out[1]) is str and out[1] == want):
        c, shown = describe_read(pair, out, t)
        form = "bare" if t == s else "quoted"
        bad.append(("encode_string", f"{form}-reads-as-{c}",
                    f"{enc_name}.encode_string({s!r}) = {t!r}, which its decoder reads as {shown}, expected {want!r}"))
    if with_loads and charset_ok(pair, t):
        import pvl
        parser = C14.parser_for(pair)

        def load(text):
            m = pvl.loads(text, parser=parser)
            items = list(m.items())
            if len(items) != 1 or items[0][0] != "k":
                raise ValueError(f"label does not consist of the single parameter k: {items!r}"[:100])
            return items[0][1]

        out = call(load, "k = " + t)
        if not (out[0] == "ok" and type(out[1]) is str and out[1] == want):
            shown = repr(out[1]) if out[0] == "ok" else f"{out[0]}({out[1]!r})"
            kind = ("reads-as-" + type(out[1]).__name__) if out[0] == "ok" else ("raises-" + out[0])
            form = "bare" if t == s else "quoted"
            bad.append(("loads", f"{form}-{kind}",
                        f"{enc_name}.encode_string({s!r}) = {t!r}; pvl.loads('k = ' + that, strict {pair} parser) gives {shown}, expected {want!r}"))
    return bad, t


STATS = {"bare": 0, "quoted": 0, "refused": 0}      # per process: how encode_string answered


def check_string(s, with_loads, pairs=PAIRS, encoders=tuple(ENCODERS)):
    """-> (evaluations, [(key, what, data)])"""
    n = 0
    res = []
    ft = feature(s)
    for pair in pairs:
        n += 1
        _, bad = check_pair(pair, s)
        for check, detail, what in bad:
            f2 = ft
            if (pair in ("ODL", "PDS3") and (check, detail) == ("is_unquoted_string", "True-but-notvalue")
                    and not ft.startswith("kw-") and not _IDENT.fullmatch(s)):
                f2 = "non-identifier"
            res.append((f"C17:{pair}:{check}:{detail}:{f2}", what, {"string": s, "pair": pair, "check": check}))
    for en in encoders:
        n += 1
        bad, t = check_encoder(en, s, with_loads)
        if t == "refused" or t is None:
            STATS["refused"] += 1
        elif t == s:
            STATS["bare"] += 1
        else:
            STATS["quoted"] += 1
        for check, detail, what in bad:
            res.append((f"C17:{en}:{check}:{detail}:{ft}", what, {"string": s, "encoder": en, "check": check, "loads": with_loads}))
    return n, res


def task(arg):
    strings, loads_every, always_loads_len = arg
    warnings.simplefilter("ignore")
    n = 0
    nl = 0
    best = {}
    for k in STATS:
        STATS[k] = 0
    for i, s in enumerate(strings):
        wl = len(s) <= always_loads_len or (loads_every and i % loads_every == 0)
        nl += wl
        k, res = check_string(s, wl)
        n += k
        for key, what, data in res:
            rank = (len(s), s)
            if key not in best or rank < best[key][0]:
                best[key] = (rank, what, data)
    return {"n": n, "strings": len(strings), "loads": nl, "stats": dict(STATS),
            "viol": [(k, v[0], v[1], v[2]) for k, v in best.items()]}


# --------------------------------------------------------------------------------------------
# sections
# --------------------------------------------------------------------------------------------
def all_strings(alphabet, lengths):
    for ln in lengths:
        for tup in itertools.product(alphabet, repeat=ln):
            yield "".join(tup)


def run(pool, s, strings, jobs, loads_every, always_loads_len):
    strings = list(strings)
    nchunks = max(1, min(len(strings) // 50, jobs * 8))
    tasks = [(strings[i::nchunks], loads_every, always_loads_len) for i in range(nchunks)]
    best = {}
    nloads = 0
    stats = {"bare": 0, "quoted": 0, "refused": 0}
    for r in pool.map(task, tasks, chunksize=1):
        s.evaluations += r["n"]
        nloads += r["loads"]
        for k in stats:
            stats[k] += r["stats"][k]
        for key, rank, what, data in r["viol"]:
            rank = tuple(rank)
            if key not in best or rank < best[key][0]:
                best[key] = (rank, what, data)
    s.distinct.update(strings)
    for key in sorted(best, key=lambda k: (best[k][0], k)):
        s.violation(key, best[key][1], best[key][2])
    s.notes.append(f"encode_string over 4 encoders: written bare {stats['bare']}, quoted {stats['quoted']}, refused {stats['refused']}")
    return nloads


def sections(ctx):
    warnings.simplefilter("ignore")
    th = ctx.thorough
    J = ctx.jobs
    out = []
    rule_tail = ("x 5 grammar/decoder pairs (class, independent syntax classifier, 18 Token predicates) and x 4 encoders "
                 "(needs_quotes, encode_string, its own decoder; pvl.loads with the strict parser on a stated sample); "
                 "distinct = the string")
    pool = mp.get_context("fork").Pool(J)
    try:
        t0 = _time.time()
        s = Section("exhaustive-short", "bounded", bounded=True,
                    rule=f"every string of length 0..3 over the {len(ALPHABET)}-character alphabet {''.join(ALPHABET)!r} " + rule_tail,
                    bounds={"alphabet": "".join(ALPHABET), "max_len": 3, "loads": "every string of length <= " + ("3" if th else "2") + " and every " + ("10th" if th else "40th") + " other"})
        nl = run(pool, s, all_strings(ALPHABET, range(0, 4)), J, 10 if th else 40, 3 if th else 2)
        s.notes.append(f"strings also taken through pvl.loads: {nl} (x 4 encoders)")
        s.samples = [{"string": "1_0"}, {"string": "nul"}, {"string": "'a\""}]
        s.exhaustive = True
        s.seconds = _time.time() - t0
        out.append(s)

        t0 = _time.time()
        a4 = ALPHA_T4 if th else ALPHA_Q4
        s = Section("exhaustive-reduced", "bounded", bounded=True,
                    rule=f"every string of length 4 over {''.join(a4)!r}" + (f" and of length 5 over {''.join(ALPHA_T5)!r} " if th else " ") + rule_tail,
                    bounds={"alphabet_len4": "".join(a4), "alphabet_len5": "".join(ALPHA_T5) if th else None, "loads": "every 50th"})
        strings = list(all_strings(a4, (4,)))
        if th:
            strings += list(all_strings(ALPHA_T5, (5,)))
        nl = run(pool, s, strings, J, 50, -1)
        s.notes.append(f"strings also taken through pvl.loads: {nl} (x 4 encoders)")
        s.samples = [{"string": "-inf"}, {"string": "1e+1"}]
        s.exhaustive = True
        s.seconds = _time.time() - t0
        out.append(s)

        t0 = _time.time()
        rng = random.Random(ctx.seed)
        nrand = 20000 if th else 1500
        rnd = set()
        digits_heavy = list("0123456789") + list("0123456789:-.+TZ#_eE")
        while len(rnd) < nrand:
            ab = ALPHABET if rng.random() < 0.6 else digits_heavy
            rnd.add("".join(rng.choice(ab) for _ in range(rng.randint(5, 12))))
        variants = set()
        for c in CURATED:
            if c and c.isascii() and len(c) < 24:
                variants.update((c.upper(), c.lower(), c.title(), "-" + c, "+" + c, c + "_", "\"" + c + "\"", "'" + c + "'"))
        strings = list(dict.fromkeys(CURATED + sorted(variants) + sorted(rnd)))
        s = Section("curated-and-random", "bounded", bounded=True,
                    rule=f"{len(CURATED)} hand-picked boundary strings (keywords in mixed case, inf/nan, underscores, based integers, "
                         "dates and times, zone offsets, quotes, comment marks, white space, non-ASCII digits), their case / sign / "
                         f"quote variants, and {nrand} seeded random strings of length 5..12 " + rule_tail,
                    bounds={"curated": len(CURATED), "variants": len(variants), "random": nrand, "seed": ctx.seed, "loads": "all"})
        nl = run(pool, s, strings, J, 1, 99)
        s.notes.append(f"strings also taken through pvl.loads: {nl} (x 4 encoders)")
        s.samples = [{"string": "End_Group"}, {"string": "2001-366"}, {"string": "12:00+05"}]
        s.seconds = _time.time() - t0
        out.append(s)
    finally:
        pool.close()
        pool.join()
    return out


# --------------------------------------------------------------------------------------------
# replay
# --------------------------------------------------------------------------------------------
def replay(data):
    """data: {'string': s} plus optionally 'pair' | 'encoder', 'check', 'loads'.
    A bare {'string': s} (the witness shape of known_findings.json) replays the writer/reader obligation of
    the four encoders; the per-pair checks are replayed when 'pair' (and usually 'check') is given."""
    warnings.simplefilter("ignore")
    if "string" not in data:
        return None
    s = data["string"]
    pairs = (data["pair"],) if data.get("pair") else ()
    encs = (data["encoder"],) if data.get("encoder") else (() if data.get("pair") else tuple(ENCODERS))
    _, res = check_string(s, data.get("loads", True), pairs, encs)
    for key, what, d in res:
        if not data.get("check") or d["check"] == data["check"]:
            return f"{what} [{key}]"
    return None
