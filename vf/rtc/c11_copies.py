"""Bounded driver for C11 (never counted as proved): "Copies of a container are equal,
independent and leave the original intact".

Containers of the four classes (OrderedMultiDict, PVLModule, PVLGroup, PVLObject) are built fresh
from abstract descriptions (vf.rtc.enc_modgen), plus parsed modules carrying an `errors` attribute.
Mechanisms: m.copy(), copy.copy(m), copy.deepcopy(m), pickle.loads(pickle.dumps(m, p)) for every
protocol p.  Checks (all written from the property statement, with own structural walks):
  * the original's identity-sensitive deep snapshot is unchanged by the copy operation itself;
  * type(c) is type(m); c == m, m == c, not (c != m); own structural equality incl. the class at
    every level and the list view / mapping view agreement, and the `errors` attribute for
    copy.copy / deepcopy / pickle;
  * c is not m; for deep mechanisms no mutable object is reachable from both;
  * independence under all mutation sequences of length <= 2 applied afterwards to either side
    (append, setitem existing / new key, delitem, pop(), insert, clear; for deep mechanisms also:
    append into a nested container, into a nested list, add to a nested set, append to `errors`):
    after every step the other side must look exactly as before the step (top level for the shallow
    mechanisms, every level for deepcopy / pickle).
"""
import copy
import itertools
import json
import multiprocessing as mp
import pickle
import random
import time
import warnings
from collections import abc

from ..harness import Section
from . import enc_modgen as G

CLASSES = {"omd": "OrderedMultiDict", "module": "PVLModule", "group": "PVLGroup", "object": "PVLObject"}
PROTOCOLS = list(range(0, pickle.HIGHEST_PROTOCOL + 1))
MECHS = [".copy()", "copy.copy", "copy.deepcopy"] + [f"pickle-{p}" for p in PROTOCOLS]
DEEP = lambda mech: mech == "copy.deepcopy" or mech.startswith("pickle")          # noqa: E731


def mech_key(mech):
    if mech.startswith("pickle-"):
        p = int(mech.split("-")[1])
        return "pickle-p0" if p == 0 else "pickle-p1" if p == 1 else "pickle-p2+"
    return mech


def build(desc):
    if desc[0] == "parsed":
        import pvl
        with warnings.catch_warnings():
            warnings.simplefilter("ignore")
            return pvl.loads(desc[1])
    return G.build(desc)


def do_copy(mech, m):
    if mech == ".copy()":
        return m.copy()
    if mech == "copy.copy":
        return copy.copy(m)
    if mech == "copy.deepcopy":
        return copy.deepcopy(m)
    p = int(mech.split("-")[1])
    return pickle.loads(pickle.dumps(m, p))


# ---- own structural walks -------------------------------------------------------------------------
def _pairs(x):
    import pvl.collections as pc
    return list(x) if isinstance(x, pc.OrderedMultiDict) else list(x.items())


def _vals(x, k):
    """mapping-side value list of a multi-dict; a malformed one is shown as such instead of crashing the walk"""
    v = dict.__getitem__(x, k)
    return v if isinstance(v, list) else [("<storage is not a list>", repr(v))]


def _attrs(x):
    return [(k, v) for k, v in sorted(getattr(x, "__dict__", {}).items()) if not k.endswith("__items")]


def struct(x, attrs=True):
    """identity-free structure: class at every level, order, list view and mapping view, attributes"""
    import pvl.collections as pc
    if isinstance(x, abc.Mapping):
        storage = None
        if isinstance(x, pc.OrderedMultiDict):
            storage = sorted((repr(k), [struct(v) for v in _vals(x, k)]) for k in dict.keys(x))
        a = [(k, struct(v)) for k, v in _attrs(x)] if attrs else None
        return ("map", type(x).__name__, [(k, struct(v)) for k, v in _pairs(x)], storage, a)
    if isinstance(x, pc.Quantity):
        return ("Quantity", type(x).__name__, struct(x.value), repr(x.units))
    if isinstance(x, list):
        return ("list", [struct(v) for v in x])
    if isinstance(x, (set, frozenset)):
        return ("set", type(x).__name__, sorted(repr(struct(v)) for v in x))
    return ("leaf", type(x).__name__, repr(x), sorted(getattr(x, "__dict__", {}).items()) if hasattr(x, "__dict__") else None)


def idsnap(x):
    """identity-sensitive deep snapshot"""
    import pvl.collections as pc
    if isinstance(x, abc.Mapping):
        storage = None
        if isinstance(x, pc.OrderedMultiDict):
            storage = sorted((repr(k), [id(v) for v in _vals(x, k)]) for k in dict.keys(x))
        return ("map", type(x).__name__, id(x), [(k, idsnap(v)) for k, v in _pairs(x)], storage,
                [(k, idsnap(v)) for k, v in _attrs(x)])
    if isinstance(x, pc.Quantity):
        return ("Quantity", id(x), idsnap(x.value), repr(x.units))
    if isinstance(x, list):
        return ("list", id(x), [idsnap(v) for v in x])
    if isinstance(x, (set, frozenset)):
        return ("set", type(x).__name__, id(x), sorted(repr(v) for v in x))
    return ("leaf", type(x).__name__, id(x), repr(x))


def topview(x):
    """what a shallow copy must keep to itself: its own sequence of (key, value identity) and storage"""
    import pvl.collections as pc
    storage = None
    if isinstance(x, pc.OrderedMultiDict):
        storage = sorted((repr(k), [id(v) for v in _vals(x, k)]) for k in dict.keys(x))
    return ([(k, id(v)) for k, v in _pairs(x)], storage, sorted(getattr(x, "__dict__", {}).keys() - {"_OrderedMultiDict__items"}))


def mutables(x, acc):
    import pvl.collections as pc
    if isinstance(x, abc.Mapping):
        acc[id(x)] = type(x).__name__
        for _, v in _pairs(x):
            mutables(v, acc)
        for _, v in _attrs(x):
            mutables(v, acc)
    elif isinstance(x, pc.Quantity):
        mutables(x.value, acc)
    elif isinstance(x, list):
        acc[id(x)] = "list"
        for v in x:
            mutables(v, acc)
    elif isinstance(x, set):
        acc[id(x)] = "set"
    return acc


def find_nested(x, want, depth=0):
    """first nested object of a kind, depth-first: 'map' (depth>=1), 'map2' (depth>=2), 'list', 'set'"""
    import pvl.collections as pc
    if isinstance(x, abc.Mapping):
        if depth >= 1 and want == "map":
            return x
        if depth >= 2 and want == "map2":
            return x
        for _, v in _pairs(x):
            r = find_nested(v, want, depth + 1)
            if r is not None:
                return r
        return None
    if isinstance(x, pc.Quantity):
        return find_nested(x.value, want, depth)
    if isinstance(x, list):
        if want == "list":
            return x
        for v in x:
            r = find_nested(v, want, depth)
            if r is not None:
                return r
        return None
    if isinstance(x, set) and want == "set":
        return x
    return None


TOP_OPS = ("append", "setitem-existing", "setitem-new", "delitem", "pop", "insert", "clear")
NESTED_OPS = ("nested-container-append", "nested-list-append", "nested-set-add", "nested2-container-append",
              "errors-append")


def apply_op(x, op):
    """-> True if applied, False if not applicable (nothing to act on)"""
    with warnings.catch_warnings():
        warnings.simplefilter("ignore")
        if op == "append":
            x.append("zz", 9)
        elif op == "setitem-existing":
            if len(x) == 0:
                return False
            x[x[0][0]] = 99
        elif op == "setitem-new":
            x["brand_new"] = 5
        elif op == "delitem":
            if len(x) == 0:
                return False
            del x[x[-1][0]]
        elif op == "pop":
            if len(x) == 0:
                return False
            x.pop()
        elif op == "insert":
            x.insert(0, "ins", 7)
        elif op == "clear":
            x.clear()
        elif op in ("nested-container-append", "nested2-container-append"):
            t = find_nested(x, "map" if op.startswith("nested-") else "map2")
            if t is None:
                return False
            if hasattr(t, "append"):
                t.append("nz", 1)
            else:
                t["nz"] = 1
        elif op == "nested-list-append":
            t = find_nested(x, "list")
            if t is None:
                return False
            t.append(99)
        elif op == "nested-set-add":
            t = find_nested(x, "set")
            if t is None:
                return False
            t.add(99)
        elif op == "errors-append":
            if not isinstance(getattr(x, "errors", None), list):
                return False
            x.errors.append(99)
        else:
            raise ValueError(op)
    return True


def inspect_copy(m, c, mech, before, sm):
    out = []
    if idsnap(m) != before:
        out.append(("original-changed-by-copy", f"the original's snapshot changed: now {_short(struct(m))}, before {_short(sm)}"))
    if type(c) is not type(m):
        out.append(("class-differs", f"copy is a {type(c).__name__}, the original a {type(m).__name__}"))
    try:
        eqs = (c == m, m == c, not (c != m), not (m != c))
    except Exception as e:
        eqs = None
        out.append((f"equality-raised:{type(e).__name__}", f"comparing copy and original raised {e!r}"))
    if eqs is not None and not all(eqs):
        out.append(("not-equal", f"(c == m, m == c, not c != m, not m != c) = {eqs}; copy {_short(struct(c))}"))
    with_attrs = mech != ".copy()"
    a, b = struct(c, attrs=with_attrs), struct(m, attrs=with_attrs)     # nested levels always keep their attributes
    if a != b:
        if a[:4] == b[:4]:
            out.append(("attribute-differs", f"instance attributes of the copy {a[4]!r}, of the original {b[4]!r}"))
        elif a[2] == b[2] and a[1] == b[1]:
            out.append(("mapping-view-differs", f"list views agree but the copy's dict storage is {a[3]!r}, the original's {b[3]!r}"))
        else:
            out.append(("structure-differs", f"copy {_short(a)} vs original {_short(b)}"))
    if c is m:
        out.append(("same-object", "the copy is the original object"))
    if DEEP(mech):
        shared = set(mutables(m, {})) & set(mutables(c, {}))
        if shared:
            kinds = sorted({mutables(m, {})[i] for i in shared})
            out.append(("deep-copy-shares-mutable", f"mutable objects reachable from both: {kinds}"))
    return out


def base_checks(desc, mech):
    """-> (m, c, [(sub, what)])"""
    out = []
    m = build(desc)
    before = idsnap(m)
    sm = struct(m)
    try:
        c = do_copy(mech, m)
    except Exception as e:
        return m, None, [(f"copy-raised:{type(e).__name__}", f"{mech} raised {type(e).__name__}: {str(e)[:120]}")]
    try:
        out += inspect_copy(m, c, mech, before, sm)
    except Exception as e:
        out.append((f"copy-malformed:{type(e).__name__}", f"inspecting the copy raised {type(e).__name__}: {str(e)[:120]}"))
        c = None
    return m, c, out


def mutation_check(desc, mech, seq):
    """seq: tuple of (side, op), side in 'orig'/'copy'.  -> None | (sub, what)"""
    m = build(desc)
    try:
        c = do_copy(mech, m)
    except Exception:
        return None                       # reported by base_checks
    deep = DEEP(mech)
    view = struct if deep else topview
    for side, op in seq:
        x, y = (m, c) if side == "orig" else (c, m)
        before = view(y)
        try:
            applied = apply_op(x, op)
        except Exception as e:
            who = "copy" if side == "copy" else "original (after copying)"
            return (f"unusable-after-copy:{op}:{type(e).__name__}", f"{op} on the {who} raised {type(e).__name__}: {str(e)[:100]}")
        if not applied:
            return "n/a"                  # nothing to act on: not a case
        try:
            after = view(y)
        except Exception as e:
            return (f"malformed-after-mutation:{op}:{type(e).__name__}", f"after {op} on {side}, inspecting the other "
                    f"side raised {type(e).__name__}: {str(e)[:100]}")
        if after != before:
            other = "original" if side == "copy" else "copy"
            level = "nested" if op in NESTED_OPS else "top-level"
            return (f"not-independent:{level}",
                    f"{op} applied to the {'copy' if side == 'copy' else 'original'} changed the {other}: "
                    f"{_short(before)} -> {_short(after)}")
    return None


def op_sequences(mech, maxlen):
    ops = [(s, o) for s in ("orig", "copy") for o in TOP_OPS]
    if DEEP(mech):
        ops += [(s, o) for s in ("orig", "copy") for o in NESTED_OPS]
    seqs = []
    for n in range(1, maxlen + 1):
        seqs += list(itertools.product(ops, repeat=n))
    return seqs


def _work(chunk):
    """chunk: list of (desc, mech, maxlen)"""
    n = 0
    distinct = set()
    best = {}

    def report(sub, what, desc, mech, seq):
        cls = CLASSES.get(desc[0], "PVLModule(parsed)")
        k = (cls, mech_key(mech), sub)
        cost = (G.size(desc), len(seq))
        if k not in best or cost < best[k][0]:
            best[k] = (cost, desc, mech, [list(s) for s in seq], what)
    for desc, mech, maxlen in chunk:
        m, c, out = base_checks(desc, mech)
        n += 1
        distinct.add(G.h64([desc, mech, "base"]))
        for sub, what in out:
            report(sub, what, desc, mech, ())
        if c is None:
            continue
        for seq in op_sequences(mech, maxlen):
            r = mutation_check(desc, mech, seq)
            if r == "n/a":
                continue
            n += 1
            distinct.add(G.h64([desc, mech, seq]))
            if r is not None:
                report(r[0], r[1], desc, mech, seq)
    return n, distinct, best


PAIRS = [
    ["a", 1], ["b", "s"], ["a", ["list", [1, 2]]], ["b", ["set", [1, 2]]], ["a", ["quantity", 1, "m"]],
    ["b", ["group", [["x", 1], ["y", ["list", [1]]]]]], ["a", ["object", [["g", ["group", [["x", ["list", [1, 2]]]]]]]]],
    ["c", ["dict", [["k", ["list", [1]]]]]],
]
PAIRS_MORE = [
    ["a", ["quantity", ["list", [1, 2]], "m"]], ["b", ["omd", [["x", 1], ["x", 2]]]], ["c", None],
    ["b", ["list", [["list", [1]], ["set", [2]]]]],
]
PARSED = [["parsed", "a =\nb = 1"], ["parsed", "x = 1\ny =\nz ="], ["parsed", "GROUP = g\n k =\nEND_GROUP\nq = (1, 2)\n"],
          ["parsed", "a = 1"]]


def containers(pool, maxlen):
    out = []
    for n in range(0, maxlen + 1):
        for tup in itertools.product(pool, repeat=n):
            for tag in CLASSES:
                out.append([tag, [list(p) for p in tup]])
    return out


def sections(ctx):
    t0 = time.time()
    rng = random.Random(ctx.seed)
    hp = f"pickle-{pickle.HIGHEST_PROTOCOL}"
    tasks = []
    if ctx.thorough:
        small = containers(PAIRS + PAIRS_MORE[:2], 2)       # 6 mechanisms x all mutation sequences <= 2, others single
        mid = [d for d in containers(PAIRS, 3) if len(d[1]) == 3]
        big = [d for d in containers(PAIRS, 4) if len(d[1]) == 4]
        full6 = (".copy()", "copy.copy", "copy.deepcopy", hp, "pickle-0", "pickle-2")
        for d in small:
            for mech in MECHS:
                tasks.append((d, mech, 2 if mech in full6 else 1))
        for i, d in enumerate(mid):
            # containers() yields the 4 classes of one item tuple consecutively: rotate which two classes get the
            # long mutation sequences so that every class meets every tuple shape
            rot = (i // 4 + i) % 2 == 0
            for mech in MECHS:
                if mech in (".copy()", "copy.deepcopy") and rot:
                    tasks.append((d, mech, 2))
                else:
                    tasks.append((d, mech, 1))
        for i, d in enumerate(big):
            rot = (i // 4) % 4 == i % 4
            for mech in MECHS:
                tasks.append((d, mech, 1 if rot and mech in (".copy()", "copy.copy", "copy.deepcopy", hp) else 0))
        desc_rule = ("containers <= 2 items over 10 pairs: .copy/copy.copy/deepcopy/pickle-0/-2/highest x all mutation sequences "
                     "<= 2, other protocols x single mutations; 3 items over 8 pairs: all mechanisms x single mutations, and "
                     ".copy/deepcopy x all sequences <= 2 on half of the (tuple, class) combinations (rotating); 4 items over 8 "
                     "pairs: copy checks for all mechanisms and classes, single mutations for .copy/copy.copy/deepcopy/highest "
                     "pickle on one class per tuple (rotating)")
    else:
        small = containers(PAIRS, 2)
        mid = containers(PAIRS, 3)
        for i, d in enumerate(small):
            rot = (i // 4 + i) % 2 == 0        # two of the four classes per item tuple, rotating
            for mech in MECHS:
                full = mech in (".copy()", "copy.copy", "copy.deepcopy", hp) and rot
                tasks.append((d, mech, 2 if full else 1))
        for d in mid:
            if len(d[1]) == 3:
                for mech in MECHS:
                    tasks.append((d, mech, 1 if mech in (".copy()", "copy.copy", "copy.deepcopy", hp) else 0))
        desc_rule = ("containers <= 2 items over 8 pairs: all mechanisms x single mutations, and .copy/copy.copy/deepcopy/highest "
                     "pickle x all mutation sequences <= 2 on two of the four classes per item tuple (rotating); 3 items: 4 mechanisms x single mutations, other "
                     "protocols copy checks only")
    for d in PARSED:
        for mech in MECHS:
            tasks.append((d, mech, 2))
    s = Section("copies", "bounded", bounded=True,
                rule="containers of the 4 classes built fresh from (key, value) pairs with duplicate keys and values incl. "
                     "list / set / Quantity / nested group / object-with-group (depth 2) / plain dict, plus 4 parsed modules "
                     "with an `errors` attribute; " + desc_rule + "; mechanisms .copy(), copy.copy, copy.deepcopy, pickle "
                     f"protocols 0..{pickle.HIGHEST_PROTOCOL}; mutations append/setitem/delitem/pop()/insert/clear on either "
                     "side, for deep mechanisms also nested container / nested list / nested set / errors list; distinct = "
                     "(container, mechanism, mutation sequence)",
                bounds={"pairs": len(PAIRS) + (len(PAIRS_MORE) if ctx.thorough else 0), "max_items": 4 if ctx.thorough else 3,
                        "max_depth": 2, "mutation_sequence_length": 2, "mechanisms": MECHS, "tasks": len(tasks)})
    rng.shuffle(tasks)                       # balance the chunks (deterministic: seeded)
    size = max(20, len(tasks) // (ctx.jobs * 8))
    chunks = [tasks[i:i + size] for i in range(0, len(tasks), size)]
    with mp.get_context("fork").Pool(ctx.jobs) as pool:
        outs = pool.map(_work, chunks, chunksize=1)
    merged = {}
    for n, distinct, best in outs:
        s.evaluations += n
        s.distinct.update(distinct)
        for k, w in best.items():
            if k not in merged or w[0] < merged[k][0]:
                merged[k] = w
    for k in sorted(merged):
        cost, desc, mech, seq, what = merged[k]
        cls, mk, sub = k
        s.violation(f"C11:{cls}:{mk}:{sub}",
                    f"{mech} of {_short(desc)}" + (f" then {seq!r}" if seq else "") + f": {what}",
                    {"container": G.canon(desc), "mechanism": mech, "mutations": seq, "subkey": sub})
    s.samples = [{"container": tasks[0][0], "mechanism": tasks[0][1]},
                 {"container": ["module", [["a", 1], ["a", ["list", [1, 2]]]]], "mechanism": "copy.deepcopy",
                  "mutations": [["copy", "nested-list-append"], ["orig", "pop"]]}]
    s.exhaustive = True
    s.seconds = time.time() - t0
    return [s]


def _short(x):
    r = x if isinstance(x, str) else ((G.pysrc(x) if x and x[0] != "parsed" else f"pvl.loads({x[1]!r})")
                                      if isinstance(x, list) else repr(x))
    return r if len(r) < 220 else r[:217] + "..."


def replay(data):
    if "container" not in data and "pairs" in data:
        # witness style of the older finding: {"pairs": [[k, v], ...], "mechanism": "copy.copy"}
        data = {"container": ["module", data["pairs"]], "mechanism": data.get("mechanism", "copy.copy"), "mutations": None}
    if "container" not in data:
        return None
    desc, mech = data["container"], data["mechanism"]
    if isinstance(desc, str):                  # descriptions travel as JSON text (the harness cuts deep nesting)
        desc = json.loads(desc)
    want = data.get("subkey")
    msgs = []
    m, c, out = base_checks(desc, mech)
    msgs += [w for s, w in out if want is None or s == want]
    seqs = [tuple(tuple(x) for x in data["mutations"])] if data.get("mutations") else \
        (op_sequences(mech, 1) if data.get("mutations") is None and want is None else [])
    if c is not None:
        for seq in seqs:
            r = mutation_check(desc, mech, seq)
            if r is not None and r != "n/a" and (want is None or r[0] == want):
                msgs.append(r[1])
                break
    if msgs:
        return f"{mech} of {_short(desc)}: " + "; ".join(msgs)
    return None
