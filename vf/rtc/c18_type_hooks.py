"""Bounded driver for C18 (never counted as proved): type-customisation hooks apply uniformly at
every depth.

Generated labels come with the abstract tree they were written from (vf/rtc/_entry_labelgen.py);
that tree - not the library - is the oracle for: every real is exactly an instance of real_cls and
was built from exactly the written token text; ints are exactly `int`; every value-with-units is
exactly quantity_cls with the written value / units; every container is the substitute class at every
depth.  Relational part: result with substitutes == default result after mapping reals through
float and quantities to (value, units); a text loads with substitutes iff it loads with defaults
(same exception type otherwise).
"""
import decimal
import hashlib
import multiprocessing as mp
import random
import time
import warnings
from collections import namedtuple

from ..harness import Section
from . import _entry_labelgen as G

DIALECTS = ["PVL", "ODL", "PDS3", "Omni", "Omni-loads-kwargs",
            # both grammar= and a customised decoder= whose own grammar is a distinct object
            "PVL-grammar+decoder", "ODL-grammar+decoder", "PDS3-grammar+decoder", "Omni-grammar+decoder",
            "Omni-loads-grammar+decoder"]
REAL_CLASSES = ["float", "Decimal", "RecReal"]
QUANTITY_CLASSES = ["Quantity", "MyQ", "QT"]
CONTAINERS = ["default", "subclass", "new"]
WORDS = ["inf", "-inf", "nan", "NaN", "Infinity", "snan", "sNaN", "nan123", "1_0", "1e400", "1_000.5", "-nan", "+inf",
         "1e", "e5", ".", "1.2.3"]


# ---------------------------------------------------------------------------------------
# substitute classes
# ---------------------------------------------------------------------------------------
class RecReal(str):
    """A real-number class that records exactly the text it was constructed from.  It accepts
    what float accepts (the lexer and the decoder probe candidate texts through real_cls)."""

    def __new__(cls, text):
        if not isinstance(text, str):
            raise TypeError(f"RecReal expects str, got {type(text).__name__}")
        float(text)                       # ValueError for a non-number, like float
        self = str.__new__(cls, text)
        self.text = text
        self.text_type = type(text).__name__
        return self

    def __float__(self):
        return float(str(self))

    def __repr__(self):
        return f"RecReal({str(self)!r})"


class MyQ:
    """A two-argument quantity class that is not a tuple."""

    def __init__(self, value, units):
        self.value = value
        self.units = units

    def __eq__(self, other):
        return isinstance(other, MyQ) and (self.value, self.units) == (other.value, other.units)

    def __hash__(self):
        return hash((self.value, self.units))

    def __repr__(self):
        return f"MyQ({self.value!r}, {self.units!r})"


QT = namedtuple("QT", ["value", "units"])


def real_class(name):
    return {"float": float, "Decimal": decimal.Decimal, "RecReal": RecReal}[name]


def quantity_class(name):
    import pvl.collections as pc
    return {"Quantity": pc.Quantity, "MyQ": MyQ, "QT": QT}[name]


_SUBCLASSES = {}


def container_classes(name):
    import pvl.collections as pc
    if name == "default":
        return pc.PVLModule, pc.PVLGroup, pc.PVLObject
    if name == "new":
        return pc.PVLModuleNew, pc.PVLGroupNew, pc.PVLObjectNew
    if not _SUBCLASSES:
        _SUBCLASSES["m"] = type("MyModule", (pc.PVLModule,), {})
        _SUBCLASSES["g"] = type("MyGroup", (pc.PVLGroup,), {})
        _SUBCLASSES["o"] = type("MyObject", (pc.PVLObject,), {})
    return _SUBCLASSES["m"], _SUBCLASSES["g"], _SUBCLASSES["o"]


class Env:
    def __init__(self, dialect, real, quantity, containers):
        self.dialect, self.real, self.quantity, self.containers = dialect, real, quantity, containers
        self.real_cls = real_class(real)
        self.qcls = quantity_class(quantity)
        self.modcls, self.grpcls, self.objcls = container_classes(containers)
        self.set_type = set if dialect.startswith(("ODL", "PDS3")) else frozenset
        self.notes = []
        self.explicit_decoder = False      # Omni-loads-kwargs only: pass decoder=OmniDecoder() even for defaults

    def combo(self):
        return f"{self.real}/{self.quantity}/{self.containers}"

    def load(self, text):
        """Build fresh parser/decoder objects with the substitutes and load *text*."""
        import pvl
        from pvl.parser import PVLParser, ODLParser, OmniParser
        from pvl.decoder import PVLDecoder, ODLDecoder, PDSLabelDecoder, OmniDecoder
        from pvl.grammar import PVLGrammar, ODLGrammar, PDSGrammar, OmniGrammar
        default = (self.real, self.quantity, self.containers) == ("float", "Quantity", "default")
        dkw = {} if default else {"real_cls": self.real_cls, "quantity_cls": self.qcls}
        ckw = {} if default else {"module_class": self.modcls, "group_class": self.grpcls, "object_class": self.objcls}
        d = self.dialect
        if d == "PVL":
            g = PVLGrammar()
            p = PVLParser(grammar=g, decoder=PVLDecoder(grammar=g, **dkw), **ckw)
        elif d == "ODL":
            g = ODLGrammar()
            p = ODLParser(grammar=g, decoder=ODLDecoder(grammar=g, **dkw), **ckw)
        elif d == "PDS3":
            g = PDSGrammar()
            # constructed like every other decoder; a constructor that rejects real_cls shows up as a
            # loads-iff violation (substitutes raise TypeError, defaults load)
            dec = PDSLabelDecoder(grammar=g, **dkw)
            p = ODLParser(grammar=g, decoder=dec, **ckw)
        elif d == "Omni":
            g = OmniGrammar()
            p = OmniParser(grammar=g, decoder=OmniDecoder(grammar=g, **dkw), **ckw)
        elif d == "Omni-loads-kwargs":
            if default and not self.explicit_decoder:
                return pvl.loads(text)
            return pvl.loads(text, decoder=OmniDecoder(**dkw), **ckw)
        elif d == "PVL-grammar+decoder":
            p = PVLParser(grammar=PVLGrammar(), decoder=PVLDecoder(**dkw), **ckw)
        elif d == "ODL-grammar+decoder":
            p = ODLParser(grammar=ODLGrammar(), decoder=ODLDecoder(**dkw), **ckw)
        elif d == "PDS3-grammar+decoder":
            p = ODLParser(grammar=PDSGrammar(), decoder=PDSLabelDecoder(**dkw), **ckw)
        elif d == "Omni-grammar+decoder":
            p = OmniParser(grammar=OmniGrammar(), decoder=OmniDecoder(**dkw), **ckw)
        elif d == "Omni-loads-grammar+decoder":
            return pvl.loads(text, grammar=OmniGrammar(), decoder=OmniDecoder(**dkw), **ckw)
        else:
            raise ValueError(d)
        return pvl.loads(text, parser=p)


# ---------------------------------------------------------------------------------------
# checks against the tree
# ---------------------------------------------------------------------------------------
def is_real_value(v):
    return isinstance(v, (float, decimal.Decimal, RecReal))


def is_quantity_value(v):
    import pvl.collections as pc
    return isinstance(v, (pc.Quantity, MyQ, QT))


def canon_val(v):
    import pvl.collections as pc
    if is_quantity_value(v):
        return ("q", canon_val(v.value), v.units)
    if is_real_value(v):
        return ("real", float(v))
    if v is None or isinstance(v, bool):
        return ("kw", v)
    if isinstance(v, int):
        return ("int", v)
    if isinstance(v, str):
        return ("str", str(v))
    if isinstance(v, list):
        return ("seq", tuple(canon_val(e) for e in v))
    if isinstance(v, (set, frozenset)):
        return ("set", tuple(sorted((canon_val(e) for e in v), key=repr)))
    if isinstance(v, pc.MutableMappingSequence):
        return ("block", tuple((k, canon_val(x)) for k, x in v.items()))
    return ("other", type(v).__name__, repr(v))


def check_real(text, v, env):
    """-> None or (aspect, got, want)"""
    if type(v) is not env.real_cls:
        return ("real-type", f"{type(v).__name__} {v!r}", env.real_cls.__name__)
    if env.real == "float":
        if repr(v) != repr(float(text)):
            return ("real-value", repr(v), repr(float(text)))
    elif env.real == "Decimal":
        w = decimal.Decimal(text)
        if v.as_tuple() != w.as_tuple():
            return ("real-text", f"{v!r} digits {v.as_tuple()}", f"Decimal({text!r}) digits {w.as_tuple()}")
    else:
        if v.text != text or v.text_type != "str":
            return ("real-text", f"constructed from {v.text_type} {v.text!r}", f"str {text!r}")
    return None


def check_node(node, v, env, ctx, probs):
    k = node[0]
    if k == "int":
        if type(v) is not int:
            probs.append(("int-type", ctx, f"{node[1]} -> {type(v).__name__} {v!r}", "int"))
        elif v != node[2]:
            probs.append(("int-value", ctx, f"{node[1]} -> {v!r}", repr(node[2])))
    elif k == "real":
        r = check_real(node[1], v, env)
        if r:
            probs.append((r[0], ctx, f"{node[1]} -> {r[1]}", r[2]))
    elif k == "str":
        if type(v) is not str or v != node[2]:
            probs.append(("string", ctx, f"{node[1]} -> {type(v).__name__} {v!r}", repr(node[2])))
    elif k == "kw":
        if v is not node[2]:
            probs.append(("keyword", ctx, f"{node[1]} -> {v!r}", repr(node[2])))
    elif k == "dt":
        import datetime
        if not isinstance(v, (datetime.date, datetime.time, datetime.datetime)):
            probs.append(("datetime", ctx, f"{node[1]} -> {type(v).__name__} {v!r}", "a date/time object"))
    elif k == "q":
        if type(v) is not env.qcls:
            probs.append(("quantity-type", ctx, f"{type(v).__name__} {v!r}", env.qcls.__name__))
            if not is_quantity_value(v):
                return
        if type(v.units) is not str or v.units != node[3]:
            probs.append(("quantity-units", ctx, f"{node[2]} -> {v.units!r}", repr(node[3])))
        check_node(node[1], v.value, env, ctx + "/units", probs)
    elif k == "seq":
        if type(v) is not list:
            probs.append(("sequence-type", ctx, f"{type(v).__name__} {v!r}"[:120], "list"))
            return
        if len(v) != len(node[1]):
            probs.append(("sequence-length", ctx, repr(v)[:120], f"{len(node[1])} elements"))
            return
        for e, x in zip(node[1], v):
            check_node(e, x, env, ctx + "/seq", probs)
    elif k == "set":
        if type(v) is not env.set_type:
            probs.append(("set-type", ctx, f"{type(v).__name__}", env.set_type.__name__))
            if not isinstance(v, (set, frozenset)):
                return
        want = {}
        for e in node[1]:
            want[G.canon(e)] = e
        if len(v) != len(want):
            probs.append(("set-length", ctx, repr(v)[:120], f"{len(want)} members"))
            return
        for x in v:
            e = want.get(canon_val(x))
            if e is None:
                probs.append(("set-member", ctx, repr(x)[:80], "one of " + repr(sorted(want, key=repr))[:120]))
            else:
                check_node(e, x, env, ctx + "/set", probs)
    elif k in ("group", "object"):
        cls = env.grpcls if k == "group" else env.objcls
        if type(v) is not cls:
            probs.append(("container-type", ctx, type(v).__name__, cls.__name__))
        if hasattr(v, "items"):
            check_items(node[1], v, env, ctx + "/" + k, probs)
    else:
        raise ValueError(node)


def check_items(items, m, env, ctx, probs):
    got = list(m.items())
    if [k for k, _ in got] != [n for n, _ in items]:
        probs.append(("names", ctx, repr([k for k, _ in got])[:160], repr([n for n, _ in items])[:160]))
        return
    for (name, node), (_k, v) in zip(items, got):
        check_node(node, v, env, ctx, probs)


def walk_types(v, env, ctx, probs):
    """Tree-independent sweep: no float/Decimal/RecReal other than real_cls, no quantity other than
    quantity_cls, no container other than the substitutes, anywhere."""
    import pvl.collections as pc
    if is_quantity_value(v):
        if type(v) is not env.qcls:
            probs.append(("quantity-type", ctx, f"{type(v).__name__} {v!r}"[:100], env.qcls.__name__))
        walk_types(v.value, env, ctx + "/units", probs)
    elif is_real_value(v):
        if type(v) is not env.real_cls:
            probs.append(("real-type", ctx, f"{type(v).__name__} {v!r}", env.real_cls.__name__))
    elif isinstance(v, list):
        for e in v:
            walk_types(e, env, ctx + "/seq", probs)
    elif isinstance(v, (set, frozenset)):
        for e in v:
            walk_types(e, env, ctx + "/set", probs)
    elif isinstance(v, (pc.MutableMappingSequence, dict)):
        if type(v) not in (env.modcls, env.grpcls, env.objcls):
            probs.append(("container-type", ctx, type(v).__name__, "a substitute container class"))
        for k, x in v.items():
            walk_types(x, env, ctx + "/block", probs)


# ---------------------------------------------------------------------------------------
# relational normal form
# ---------------------------------------------------------------------------------------
def norm(v, env):
    import pvl.collections as pc
    if is_quantity_value(v):
        return ("q", norm(v.value, env), v.units)
    if is_real_value(v):
        return ("real", repr(float(v)))
    if v is None or isinstance(v, (bool, int)):
        return (type(v).__name__, v)
    if isinstance(v, str):
        return (type(v).__name__, str(v), getattr(v, "lineno", None))
    if isinstance(v, list):
        return ("list", [norm(e, env) for e in v])
    if isinstance(v, (set, frozenset)):
        return (type(v).__name__, sorted((norm(e, env) for e in v), key=repr))
    if isinstance(v, (pc.MutableMappingSequence, dict)):
        role = {env.modcls: "module", env.grpcls: "group", env.objcls: "object"}.get(type(v), type(v).__name__)
        return (role, [(k, norm(x, env)) for k, x in v.items()])
    return (type(v).__name__, repr(v))


def attempt(env, text):
    try:
        with warnings.catch_warnings():
            warnings.simplefilter("ignore")
            m = env.load(text)
        return ("ok", m)
    except Exception as e:
        return ("raise", type(e).__name__, str(e)[:160])


def check_label(text, tree, dialects, combos, profile=""):
    """-> (evaluations, distinct keys, failures)"""
    fails, n, distinct = [], 0, set()
    lab_id = hashlib.sha1(text.encode("utf-8")).hexdigest()[:10]
    for dialect in dialects:
        denv = Env(dialect, "float", "Quantity", "default")
        dres = attempt(denv, text)
        if dialect == "Omni-loads-kwargs":
            # pvl.loads(text) vs pvl.loads(text, decoder=OmniDecoder()): supplying the (default) decoder object
            # itself must change nothing (OmniDecoder() defaults to OmniGrammar()); the baseline of the
            # substitute checks is plain pvl.loads(text) unless this very check fails
            eenv = Env(dialect, "float", "Quantity", "default")
            eenv.explicit_decoder = True
            eres = attempt(eenv, text)
            n += 1
            distinct.add((lab_id, dialect, "explicit-default-decoder"))
            same = eres[0] == dres[0] and (eres[1] == dres[1] if eres[0] == "raise" else
                                           norm(eres[1], eenv) == norm(dres[1], denv))
            if not same:
                if eres[0] == "ok" and dres[0] == "ok":
                    got = _first_diff(norm(eres[1], eenv), norm(dres[1], denv))
                    kind = "result-differs"
                else:
                    got = repr(eres[:3])[:200] + " vs " + repr(dres[:3])[:120]
                    kind = "loads-iff"
                fails.append({"text": text, "tree": tree, "dialect": dialect, "real": "float", "quantity": "Quantity",
                              "containers": "default", "profile": profile, "aspect": "explicit-decoder",
                              "key": f"C18:Omni-loads-kwargs:explicit-OmniDecoder()-changes-{kind}",
                              "got": "pvl.loads(text, decoder=OmniDecoder()) vs pvl.loads(text): " + got,
                              "want": "equal"})
                # keep the substitute checks readable: compare them with the explicit-decoder form
                denv, dres = eenv, eres
        for (real, quantity, containers) in combos:
            env = Env(dialect, real, quantity, containers)
            env.explicit_decoder = denv.explicit_decoder
            res = attempt(env, text)
            n += 1
            distinct.add((lab_id, dialect, env.combo()))
            rec = {"text": text, "tree": tree, "dialect": dialect, "real": real, "quantity": quantity,
                   "containers": containers, "profile": profile}

            def fail(key, got, want, aspect):
                fails.append(dict(rec, key=key, got=str(got)[:240], want=str(want)[:160], aspect=aspect))

            if res[0] != dres[0] or (res[0] == "raise" and res[1] != dres[1]):
                a = res[1] if res[0] == "raise" else "loads"
                b = dres[1] if dres[0] == "raise" else "loads"
                which = _blame(denv, text, real, quantity, containers, dres)
                fail(f"C18:{dialect}:loads-iff:{which}:substitutes-{a}-defaults-{b}",
                     repr(res[:3])[:200] if res[0] == "raise" else "loads", b, "loads-iff")
                continue
            if res[0] != "ok":
                continue
            m = res[1]
            probs = []
            if type(m) is not env.modcls:
                probs.append(("container-type", "module", type(m).__name__, env.modcls.__name__))
            check_items(tree, m, env, "top", probs)
            walk_types(m, env, "top", probs)
            seen = set()
            for aspect, ctx, got, want in probs:
                subst = {"real-type": real, "real-text": real, "real-value": real, "quantity-type": quantity,
                         "quantity-units": quantity, "container-type": containers}.get(aspect, env.combo())
                key = f"C18:{dialect}:{aspect}:{subst}:{_short(ctx)}"
                if key in seen:
                    continue
                seen.add(key)
                fail(key, f"at {ctx}: {got}", want, aspect)
            a, b = norm(m, env), norm(dres[1], denv)
            if a != b:
                fail(f"C18:{dialect}:differs-from-default:{env.combo()}", _first_diff(a, b), "equal after mapping",
                     "differs-from-default")
            elif list(getattr(m, "errors", ["<none>"])) != list(getattr(dres[1], "errors", ["<none>"])):
                fail(f"C18:{dialect}:errors-attribute:{env.combo()}", repr(getattr(m, "errors", None)),
                     repr(getattr(dres[1], "errors", None)), "errors")
    return n, distinct, fails


def _blame(denv, text, real, quantity, containers, dres):
    """Which single substitute already changes loads-vs-raises? (narrow key)"""
    for which, combo in (("real=" + real, (real, "Quantity", "default")),
                         ("quantity=" + quantity, ("float", quantity, "default")),
                         ("containers=" + containers, ("float", "Quantity", containers))):
        if combo == ("float", "Quantity", "default"):
            continue
        e2 = Env(denv.dialect, *combo)
        e2.explicit_decoder = denv.explicit_decoder
        r = attempt(e2, text)
        if r[0] != dres[0] or (r[0] == "raise" and r[1] != dres[1]):
            return which
    return f"{real}/{quantity}/{containers}"


def _short(ctx):
    """top/group/object/seq -> the innermost structure kind (keeps the number of keys small)"""
    return ctx.split("/")[-1]


def _first_diff(a, b, path="$"):
    if type(a) is not type(b):
        return f"{path}: {a!r} vs {b!r}"[:240]
    if isinstance(a, (list, tuple)):
        if len(a) != len(b):
            return f"{path}: lengths {len(a)} vs {len(b)}: {a!r} vs {b!r}"[:240]
        for i, (x, y) in enumerate(zip(a, b)):
            if x != y:
                return _first_diff(x, y, f"{path}[{i}]")
        return f"{path}: ?"
    return f"{path}: {a!r} vs {b!r}"[:240]


def worker(args):
    labels, dialects, combos = args
    n, distinct, fails = 0, set(), []
    for text, tree, profile in labels:
        a, b, c = check_label(text, tree, dialects, combos, profile)
        n += a
        distinct |= b
        fails += c
    return n, distinct, _dedupe(fails)


def _dedupe(fails):
    best = {}
    for f in fails:
        size = len(f["text"])
        if f["key"] not in best or size < best[f["key"]][0]:
            best[f["key"]] = (size, f)
    return [v[1] for v in best.values()]


# ---------------------------------------------------------------------------------------
# labels
# ---------------------------------------------------------------------------------------
FIXED = [
    # (text, tree) hand-written: each context once, smallest possible
    ("a = 1.10\nEND", [["a", ["real", "1.10"]]]),
    ("a = 0.1000000000000000055511151231257827\nEND", [["a", ["real", "0.1000000000000000055511151231257827"]]]),
    ("a = 1e-7\nEND", [["a", ["real", "1e-7"]]]),
    ("a = -.5\nEND", [["a", ["real", "-.5"]]]),
    ("a = +5.E3\nEND", [["a", ["real", "+5.E3"]]]),
    ("a = 7\nEND", [["a", ["int", "7", 7]]]),
    ("a = 16#fF#\nEND", [["a", ["int", "16#fF#", 255]]]),
    ("a = 1.10 <m>\nEND", [["a", ["q", ["real", "1.10"], "<m>", "m"]]]),
    ("a = 3 <m>\nEND", [["a", ["q", ["int", "3", 3], "<m>", "m"]]]),
    ("a = (1.10, 2, 3.5 <s>)\nEND", [["a", ["seq", [["real", "1.10"], ["int", "2", 2], ["q", ["real", "3.5"], "<s>", "s"]]]]]),
    ("a = ((1.10, 2), (3.50))\nEND", [["a", ["seq", [["seq", [["real", "1.10"], ["int", "2", 2]]], ["seq", [["real", "3.50"]]]]]]]),
    ("a = {1.10, 2, 'x'}\nEND", [["a", ["set", [["real", "1.10"], ["int", "2", 2], ["str", "'x'", "x"]]]]]),
    ("a = {2.50 <m>}\nEND", [["a", ["set", [["q", ["real", "2.50"], "<m>", "m"]]]]]),
    ("a = (1.10, 2) <m>\nEND", [["a", ["q", ["seq", [["real", "1.10"], ["int", "2", 2]]], "<m>", "m"]]]),
    ("a = {{1.10}, {2}}\nEND", [["a", ["set", [["set", [["real", "1.10"]]], ["set", [["int", "2", 2]]]]]]]),
    ("GROUP = g\n a = 1.10\nEND_GROUP\nEND", [["g", ["group", [["a", ["real", "1.10"]]]]]]),
    ("OBJECT = o\n GROUP = g\n  a = (1.10 <m>, {2.50})\n END_GROUP\n b = 2\nEND_OBJECT\nEND",
     [["o", ["object", [["g", ["group", [["a", ["seq", [["q", ["real", "1.10"], "<m>", "m"],
                                                         ["set", [["real", "2.50"]]]]]]]]], ["b", ["int", "2", 2]]]]]]),
    ("OBJECT = o\n OBJECT = p\n  OBJECT = q\n   x = 1.0E+10 <km/s>\n  END_OBJECT\n END_OBJECT\nEND_OBJECT\nEND",
     [["o", ["object", [["p", ["object", [["q", ["object", [["x", ["q", ["real", "1.0E+10"], "<km/s>", "km/s"]]]]]]]]]]]]),
    # a '#' comment: only the permissive grammar takes it (shows what an explicitly passed decoder does to loads())
    ("a = 1.5 # note\nb = 2\nEND", [["a", ["real", "1.5"]], ["b", ["int", "2", 2]]]),
    ("a = TRUE\nb = NULL\nc = 1\nd = 1.\nEND", [["a", ["kw", "TRUE", True]], ["b", ["kw", "NULL", None]],
                                                 ["c", ["int", "1", 1]], ["d", ["real", "1."]]]),
]


def generated(seed, n_per_profile):
    rng = random.Random(seed)
    out = []
    for profile in ("odl", "pvl", "omni"):
        g = G.Gen(rng, profile=profile, reals=0.55, dates=True, empty=False, dups=True, comments=True,
                  unicode_strings=False, multiline=False, hash_comments=False)
        for _ in range(n_per_profile):
            text, tree = g.label()
            out.append((text, tree, "gen-" + profile))
    return out


def word_section(ctx):
    """Unquoted words on which float / Decimal / int disagree: the class of the value must not depend
    on the substitute."""
    s = Section("special-words", "bounded", bounded=True,
                rule="`a = <word>` for words that number classes classify differently (inf, nan, snan, nan123, 1_0, "
                     "1e400 ...) x dialect x real_cls: real under the substitute iff real under float, otherwise the "
                     "same value", bounds={"words": WORDS})
    t0 = time.time()
    for dialect in DIALECTS:
        for w in WORDS:
            text = f"a = {w}\nEND"
            denv = Env(dialect, "float", "Quantity", "default")    # baseline: the plain default loader
            dres = attempt(denv, text)
            for real in REAL_CLASSES[1:]:
                env = Env(dialect, real, "Quantity", "default")
                res = attempt(env, text)
                s.case(sample={"text": text, "dialect": dialect, "real": real}, distinct_key=(dialect, w, real))

                def cls(r):
                    if r[0] != "ok":
                        return "raises " + r[1]
                    v = r[1]["a"]
                    return "real" if is_real_value(v) else f"{type(v).__name__} {v!r}"
                a, b = cls(res), cls(dres)
                if a != b:
                    s.violation(f"C18:word-class-changes:{real}:{w.lower()}",
                                f"{dialect} `a = {w}`: with real_cls={real} the value is {a}; with the default it is {b}",
                                {"check": "word", "dialect": dialect, "real": real, "word": w})
    s.seconds = time.time() - t0
    return s


def sections(ctx):
    thorough = ctx.thorough
    combos = [(r, q, c) for r in REAL_CLASSES for q in QUANTITY_CLASSES for c in CONTAINERS]
    n_per = 500 if thorough else 32
    labels = [(t, tr, "fixed") for t, tr in FIXED] + generated(ctx.seed, n_per)
    s = Section("type-hooks", "bounded", bounded=True,
                rule="hand-written minimal labels (one per context) + seeded generated labels in three profiles "
                     "(ODL subset, strict PVL, permissive) with many-digit reals, ints, based ints, quantities on "
                     "reals/ints/sequences, nested sequences/sets, nested groups/objects, duplicates, comments; x 10 "
                     "dialect routes (parser+decoder sharing one grammar; loads(decoder=...); grammar= plus a "
                     "customised decoder= with its own grammar object) x 27 substitute combinations; distinct = (label, dialect, combination); the "
                     "expected types/values come from the tree the text was written from",
                bounds={"labels": len(labels), "dialects": DIALECTS, "real_cls": REAL_CLASSES,
                        "quantity_cls": QUANTITY_CLASSES, "containers": CONTAINERS})
    t0 = time.time()
    tasks = [([lab], DIALECTS, combos) for lab in sorted(labels, key=lambda x: -len(x[0]))]
    fails = []
    with mp.get_context("fork").Pool(ctx.jobs) as pool:
        for n, distinct, fl in pool.imap_unordered(worker, tasks, chunksize=2):
            s.evaluations += n
            s.distinct |= distinct
            fails += fl
    for f in sorted(_dedupe(fails), key=lambda f: f["key"]):
        s.violation(f["key"],
                    f"{f['dialect']} with real_cls={f['real']}, quantity_cls={f['quantity']}, containers={f['containers']} "
                    f"on {f['text'][:70]!r}: {f['got']}; expected {f['want']}",
                    {k: v for k, v in f.items() if k not in ("key",)})
    s.samples = [{"text": FIXED[9][0], "dialect": "ODL", "real": "Decimal", "quantity": "MyQ", "containers": "new"},
                 {"text": labels[len(FIXED)][0][:160], "dialect": "Omni", "real": "RecReal", "quantity": "QT",
                  "containers": "subclass"}]
    s.seconds = time.time() - t0
    return [s, word_section(ctx)]


def replay(data):
    if data.get("check") == "word":
        text = f"a = {data['word']}\nEND"
        denv = Env(data["dialect"], "float", "Quantity", "default")
        d = attempt(denv, text)
        r = attempt(Env(data["dialect"], data["real"], "Quantity", "default"), text)

        def cls(x):
            if x[0] != "ok":
                return "raises " + x[1]
            v = x[1]["a"]
            return "real" if is_real_value(v) else f"{type(v).__name__} {v!r}"
        return None if cls(d) == cls(r) else f"`a = {data['word']}`: {cls(r)} with {data['real']}, {cls(d)} with float"
    text, tree = data["text"], data["tree"]
    n, d, fails = check_label(text, tree, [data["dialect"]], [(data["real"], data["quantity"], data["containers"])])
    want = data.get("aspect")
    for f in fails:
        if want is None or f["aspect"] == want:
            return f"{f['key']}: {f['got']}; expected {f['want']}"
    return None
