"""Bounded driver for C05 — ill-formed text is rejected, never silently truncated.

Oracle (independent of the library): a character-level tokenizer and a recursive-descent
recogniser + denotation for the token-level grammar of DESIGN.md Appendix B, restricted to a
generated language whose tokens are separated by single blanks.  Per dialect:
  PVL      both keyword families; any unquoted word is a value; units after any value
  ODL/PDS3 both keyword families; unquoted values must be identifiers; units only after
           numbers; sets hold scalars only
  ISIS     GROUP/OBJECT only (BEGIN_GROUP/BEGIN_OBJECT are ordinary words); built on the permissive
           parser, so the missing-value tolerance of C08 applies (C08 names only PVL, ODL and
           PDS3 as the parsers that must raise)
  default  as PVL plus the C08 tolerance: '=' followed by `name =`, a begin/end keyword, ';',
           END or the end of the text leaves an empty-string placeholder
Contract checked on every (damaged text, configuration):
  loader returns a module  =>  the recogniser accepts the text up to END / end of text and the
                               module's item tree equals the denotation;
  the recogniser rejects   =>  the loader raises LexerError or ParseError.
(The recogniser accepting while the loader raises LexerError/ParseError is not a C05 matter; it
is only tallied.)
"""
import random
import re
import time

from ..harness import Section
from . import c0506_common as K

# ---- the generated language ----------------------------------------------------------------
BASE = [
    "a = 1",
    "a = v END",
    "a = 1 <m>",
    'a = "q r"',
    "a = TRUE b = NULL",
    "a = { v }",
    "GROUP = g END_GROUP",
    "a = v b = w",
    "a = 1 ; b = 2",
    "a = ( 1 , 2 )",
    "GROUP = g a = 1 END_GROUP",
    "OBJECT = o a = 1 END_OBJECT = o",
    "a = 1 b = v END",
    'a = 1 ; b = "q r" ; END',
    "a = ( 1 , v ) b = { v , w } c = 2",
    "a = 1 <m> b = ( 1 <m> , 2 ) END",
    "a = ( 1 , 2 ) <m> b = 'q' <m>",
    "BEGIN_GROUP = g a = 1 b = 2 END_GROUP = g",
    "OBJECT = o a = 1 GROUP = g b = 2 END_GROUP c = 3 END_OBJECT = o END",
    "BEGIN_OBJECT = o ; a = 1 ; END_OBJECT = o ; END",
    "a = ( ) b = { } c = ( ( 1 , 2 ) , ( 3 ) )",
    "a = 'q' /* c */ b = 2 END",
    "Group = g a = 1 End_Group End",
    "OBJECT = o OBJECT = p a = 1 END_OBJECT = p END_OBJECT = o",
    "GROUP = g a = 1 END_GROUP GROUP = g a = 2 END_GROUP a = 3 a = 4",
    "GROUP = g a = v END_GROUP b = u-v",
    "a = { 1 , ( 2 , 3 ) }",
    "a = -3 b = 4.5 c = { 1 <m> }",
    "GROUP = g OBJECT = o a = ( v , w ) END_OBJECT END_GROUP = g b = 1",
]

TOKEN_SPLIT = re.compile(r'"[^"]*"|\'[^\']*\'|/\*.*?\*/|<[^>]*>|\S+')

REPL = [("name", "n"), ("number", "7"), ("equals", "="), ("comma", ","), ("lparen", "("), ("rparen", ")"),
        ("lbrace", "{"), ("rbrace", "}"), ("bare", "u-v"), ("quoted", '"z"'), ("END", "END"),
        ("END_GROUP", "END_GROUP"), ("END_OBJECT", "END_OBJECT"), ("GROUP", "GROUP"), ("OBJECT", "OBJECT"),
        ("units", "<m>"), ("semicolon", ";")]


def tokens_of(label):
    return TOKEN_SPLIT.findall(label)


def damages(toks):
    """Every single damage of a token list -> (class, new token list)."""
    n = len(toks)
    for i in range(n):
        yield "delete", toks[:i] + toks[i + 1:]
        yield "duplicate", toks[:i + 1] + toks[i:]
        if i + 1 < n:
            yield "swap", toks[:i] + [toks[i + 1], toks[i]] + toks[i + 2:]
        for kind, r in REPL:
            if r != toks[i]:
                yield "replace-" + kind, toks[:i] + [r] + toks[i + 1:]
        yield "truncate", toks[:i]
        t = toks[i]
        if len(t) >= 2 and t[0] in "\"'" and t[-1] == t[0]:
            yield "drop-close-quote", toks[:i] + [t[:-1]] + toks[i + 1:]
            yield "drop-open-quote", toks[:i] + [t[1:]] + toks[i + 1:]
        if len(t) >= 2 and t[0] == "<" and t[-1] == ">":
            yield "drop-close-units", toks[:i] + [t[:-1]] + toks[i + 1:]
            yield "drop-open-units", toks[:i] + [t[1:]] + toks[i + 1:]


def random_label(rng, depth=0, budget=None):
    """A well-formed label of the generated language as a token list."""
    names = ["a", "b", "c", "k"]
    words = ["v", "w"]
    nums = ["1", "2", "-3", "4.5"]

    def simple():
        r = rng.random()
        if r < 0.4:
            return [rng.choice(nums)]
        if r < 0.7:
            return [rng.choice(words)]
        return [rng.choice(['"q r"', "'q'", '"s"'])]

    def value(d=0):
        r = rng.random()
        if r < 0.55 or d > 1:
            v = simple()
            if v[0] in nums and rng.random() < 0.3:
                v.append("<m>")
            return v
        br = ("(", ")") if r < 0.8 else ("{", "}")
        out = [br[0]]
        for j in range(rng.randint(0, 3)):
            if j:
                out.append(",")
            out += value(d + 1) if br[0] == "(" else simple()
        out.append(br[1])
        return out

    def stmts(d, k):
        out = []
        for _ in range(k):
            if d < 2 and rng.random() < 0.3:
                fam = rng.choice([("GROUP", "END_GROUP"), ("OBJECT", "END_OBJECT"), ("BEGIN_GROUP", "END_GROUP"),
                                  ("BEGIN_OBJECT", "END_OBJECT"), ("Object", "End_Object")])
                nm = rng.choice(["g", "h", "o"])
                out += [fam[0], "=", nm]
                if rng.random() < 0.2:
                    out.append(";")
                out += stmts(d + 1, rng.randint(0, 2))
                out.append(fam[1])
                if rng.random() < 0.5:
                    out += ["=", nm]
                if rng.random() < 0.2:
                    out.append(";")
            else:
                out += [rng.choice(names), "="] + value()
                if rng.random() < 0.25:
                    out.append(";")
        return out

    out = stmts(0, rng.randint(1, 3))
    if rng.random() < 0.5:
        out.append(rng.choice(["END", "End"]))
    return out


# ---- the oracle: tokenizer ---------------------------------------------------------------
WS = " \t\n\r\f\v"
PUNCT = "=,(){};>"


def lex(text):
    """-> list of (kind, text); kind in PUNCT | quoted | units | word | ERR (text = reason, last token)."""
    out = []
    i, n = 0, len(text)
    while i < n:
        ch = text[i]
        if ch in WS:
            i += 1
        elif ch in "\"'":
            j = text.find(ch, i + 1)
            if j < 0:
                out.append(("ERR", "unterminated-quote"))
                return out
            out.append(("quoted", text[i:j + 1]))
            i = j + 1
        elif text.startswith("/*", i):
            j = text.find("*/", i + 2)
            if j < 0:
                out.append(("ERR", "unterminated-comment"))
                return out
            i = j + 2
        elif ch == "<":
            j = text.find(">", i + 1)
            if j < 0:
                out.append(("ERR", "unterminated-units"))
                return out
            out.append(("units", text[i:j + 1]))
            i = j + 1
        elif ch in PUNCT:
            out.append((ch, ch))
            i += 1
        else:
            j = i
            while j < n and text[j] not in WS and text[j] not in PUNCT and text[j] not in "\"'<" \
                    and not text.startswith("/*", j):
                j += 1
            out.append(("word", text[i:j]))
            i = j
    return out


# ---- the oracle: recogniser + denotation -----------------------------------------------------
NUM_RE = re.compile(r"[+-]?(\d+(\.\d*)?|\.\d+)([eE][+-]?\d+)?")
IDENT_RE = re.compile(r"[A-Za-z]([A-Za-z0-9_]*[A-Za-z0-9])?")
BEGIN4 = {"group": "end_group", "begin_group": "end_group", "object": "end_object", "begin_object": "end_object"}
BEGIN2 = {"group": "end_group", "object": "end_object"}
DIALECT = {
    "PVL": dict(begin=BEGIN4, tolerant=False, odl=False),
    "ODL": dict(begin=BEGIN4, tolerant=False, odl=True),
    "PDS3": dict(begin=BEGIN4, tolerant=False, odl=True),
    "ISIS": dict(begin=BEGIN2, tolerant=True, odl=False),
    "default": dict(begin=BEGIN4, tolerant=True, odl=False),
}
CONSTANTS = {"true": ("bool", True), "false": ("bool", False), "null": ("none",)}
ORACLE_CLASS = {"PVL": "PVL", "ODL": "ODL", "PDS3": "ODL", "ISIS": "ISIS", "default": "default"}


class Ill(Exception):
    def __init__(self, reason):
        Exception.__init__(self, reason)
        self.reason = reason


class Recogniser:
    def __init__(self, toks, dialect):
        self.t = toks
        self.i = 0
        self.d = DIALECT[dialect]

    def kind(self, k=0):
        j = self.i + k
        if j >= len(self.t):
            return "EOF"
        kd, tx = self.t[j]
        if kd != "word":
            return kd
        f = tx.casefold()
        if f == "end":
            return "END"
        if f in self.d["begin"]:
            return "begin"
        if f in ("end_group", "end_object"):
            return "endkw"
        if NUM_RE.fullmatch(tx):
            return "number"
        return "bare"

    def text(self):
        return self.t[self.i][1]

    def module(self):
        items = []
        while True:
            k = self.kind()
            if k in ("EOF", "END"):
                return items
            items.append(self.stmt(0))

    def stmt(self, depth):
        k = self.kind()
        where = "@block" if depth else "@top"
        if k == "ERR":
            raise Ill(self.text())
        if k == "begin":
            return self.block(depth)
        if k == "bare":
            return self.assign(depth)
        prev = "start" if self.i == 0 else self.kind(-1)
        raise Ill(f"stray-token:{k}{where}-after-{prev}")

    def assign(self, depth):
        where = "@block" if depth else "@top"
        name = self.text()
        self.i += 1
        if self.kind() == "ERR":
            raise Ill(self.text())
        if self.kind() != "=":
            raise Ill(f"stray-token:bare-before-{self.kind()}{where}")
        self.i += 1
        if self.d["tolerant"] and self.missing_here():
            value = ("missing",)
        else:
            value = self.value("assign")
        if self.kind() == ";":
            self.i += 1
        return (name, value)

    def missing_here(self):
        k = self.kind()
        if k in (";", "END", "begin", "endkw", "EOF"):
            return True
        return k == "bare" and self.kind(1) == "="

    def value(self, ctx):
        k = self.kind()
        if k == "ERR":
            raise Ill(self.text())
        if k == "(":
            v = self.setseq("seq", ")")
        elif k == "{":
            v = self.setseq("set", "}")
        elif k == "number":
            tx = self.text()
            v = ("int", int(tx)) if re.fullmatch(r"[+-]?\d+", tx) else ("float", float(tx))
            self.i += 1
        elif k == "quoted":
            v = ("str", self.text()[1:-1])
            self.i += 1
        elif k == "bare" and self.text().casefold() in CONSTANTS:
            v = CONSTANTS[self.text().casefold()]
            self.i += 1
        elif k == "bare":
            tx = self.text()
            if self.d["odl"] and not IDENT_RE.fullmatch(tx):
                raise Ill("odl-nonidentifier-value")
            v = ("str", tx)
            self.i += 1
        elif k == "EOF":
            raise Ill("missing-value:EOF" if ctx == "assign" else f"unterminated-{ctx}")
        elif k in (";", "END", "begin", "endkw"):
            raise Ill(f"missing-value:{k}" if ctx == "assign" else f"unterminated-{ctx}:{k}")
        else:
            raise Ill(f"bad-value:{k}@{ctx}")
        if self.kind() == "units":
            if self.d["odl"] and v[0] not in ("int", "float"):
                return v                         # not a units position in ODL: the token is left as stray
            u = self.text()[1:-1].strip(WS)
            if not u or "<" in u or ">" in u:
                raise Ill("bad-units")
            v = ("units", v, u)
            self.i += 1
        return v

    def setseq(self, what, close):
        self.i += 1
        items = []
        if self.kind() == close:
            self.i += 1
            return (what, items)
        while True:
            if what == "set" and self.d["odl"] and self.kind() in ("(", "{"):
                raise Ill("odl-set-nonscalar")
            items.append(self.value(what))
            k = self.kind()
            if k == ",":
                self.i += 1
            elif k == close:
                self.i += 1
                break
            elif k == "ERR":
                raise Ill(self.text())
            elif k == "EOF":
                raise Ill(f"unterminated-{what}")
            else:
                raise Ill(f"unterminated-{what}:{k}")
        if what == "set":
            uniq = []
            for x in items:
                if x not in uniq:
                    uniq.append(x)
            items = sorted(uniq, key=repr)
        return (what, items)

    def block(self, depth):
        fam_end = self.d["begin"][self.text().casefold()]
        fam = "group" if fam_end == "end_group" else "object"
        self.i += 1
        if self.kind() == "ERR":
            raise Ill(self.text())
        if self.kind() != "=":
            raise Ill(f"begin-without-equals:{self.kind()}")
        self.i += 1
        if self.kind() == "ERR":
            raise Ill(self.text())
        if self.kind() != "bare":
            raise Ill(f"bad-block-name:{self.kind()}")
        name = self.text()
        self.i += 1
        if self.kind() == ";":
            self.i += 1
        items = []
        while True:
            k = self.kind()
            if k == "EOF":
                raise Ill("open-block:EOF")
            if k == "END":
                raise Ill("open-block:END")
            if k == "endkw":
                if self.text().casefold() != fam_end:
                    raise Ill("end-keyword-mismatch")
                self.i += 1
                if self.kind() == "=":
                    self.i += 1
                    if self.kind() == "ERR":
                        raise Ill(self.text())
                    if self.kind() != "bare" or self.text() != name:
                        raise Ill(f"end-name-mismatch:{self.kind()}")
                    self.i += 1
                if self.kind() == ";":
                    self.i += 1
                return (name, (fam, items))
            items.append(self.stmt(depth + 1))


def oracle(text, config):
    """-> ("accept", denotation) | ("reject", reason)"""
    try:
        return ("accept", Recogniser(lex(text), config).module())
    except Ill as e:
        return ("reject", e.reason)


# ---- the real module, canonicalised by type inspection only -----------------------------------
def canon_value(v):
    from pvl.collections import PVLGroup, PVLObject, Quantity
    if isinstance(v, PVLGroup):
        return ("group", canon_items(v))
    if isinstance(v, PVLObject):
        return ("object", canon_items(v))
    if isinstance(v, Quantity):
        return ("units", canon_value(v.value), v.units)
    if v is None:
        return ("none",)
    if isinstance(v, bool):
        return ("bool", v)
    if isinstance(v, int):
        return ("int", int(v))
    if isinstance(v, float):
        return ("float", float(v))
    if isinstance(v, str):
        if v == "" and hasattr(v, "lineno"):
            return ("missing",)
        return ("str", str(v))
    if isinstance(v, list):
        return ("seq", [canon_value(x) for x in v])
    if isinstance(v, (set, frozenset)):
        return ("set", sorted((canon_value(x) for x in v), key=repr))
    return ("other", repr(v))


def canon_items(m):
    return [(str(k), canon_value(v)) for k, v in list(m.items())]


def _subseq(a, b):
    it = iter(b)
    return all(x in it for x in a)


def tree_diff(exp, got, ctx=""):
    en = [n for n, _ in exp]
    gn = [n for n, _ in got]
    if en != gn:
        if _subseq(gn, en):
            return ctx + "lost-statement"
        if _subseq(en, gn):
            return ctx + "extra-statement"
        return ctx + "names-altered"
    for (n, ev), (_, gv) in zip(exp, got):
        if ev != gv:
            if ev[0] in ("group", "object") and gv[0] == ev[0]:
                return tree_diff(ev[1], gv[1], ctx + "in-block:")
            return ctx + f"value-altered:{ev[0]}->{gv[0]}"
    return None


def check_one(text, config):
    """-> None (contract holds) | (reason, what) ; also returns a tally tag as third element."""
    orc = oracle(text, ORACLE_CLASS[config])
    r = K.load(config, text)
    if r[0] == "ok":
        got = canon_items(r[1])
        if orc[0] == "reject":
            return ("accepted:" + orc[1],
                    f"{config} load of {text!r} returns {got!r}; the text is ill-formed ({orc[1]}), expected LexerError or ParseError",
                    "ok/reject")
        d = tree_diff(orc[1], got)
        if d is not None:
            return (d, f"{config} load of {text!r} returns {got!r}; the text denotes {orc[1]!r} ({d})", "ok/accept-differs")
        return (None, None, "ok/accept")
    if r[0] == "spin":
        return ("spin", f"{config} load of {text!r} does not terminate within the budget ({r[1]})", "spin")
    e = r[1]
    if K.allowed_exception(e, text):
        return (None, None, "raise/" + orc[0])
    return ("raised-" + type(e).__name__,
            f"{config} load of {text!r} raises {type(e).__name__} in {r[2]} ({str(e)[:120]}); expected "
            + ("LexerError or ParseError" if orc[0] == "reject" else f"the module {orc[1]!r}"), "raise-other")


# ---- worker -------------------------------------------------------------------------------
def work(items):
    """items: (text, rank, damage-class).  rank = (number of damages, label index)."""
    n = 0
    tally = {}
    found = {}     # (config, reason) -> (rank, len, text, damage, what)
    over = {}      # config -> shortest well-formed text the loader refuses (tallied only)
    for text, rank, dmg in items:
        for c in K.CONFIGS:
            reason, what, tag = check_one(text, c)
            n += 1
            tally[(c, tag)] = tally.get((c, tag), 0) + 1
            if tag == "raise/accept" and (c not in over or (len(text), text) < (len(over[c]), over[c])):
                over[c] = text
            if reason is not None:
                cand = (tuple(rank), len(text), text, dmg, what)
                g = (c, reason)
                if g not in found or cand < found[g]:
                    found[g] = cand
    return {"n": n, "tally": tally, "found": found, "over": over}


def build_inputs(ctx):
    """-> dict text -> (rank, damage class), bounds"""
    rng = random.Random(ctx.seed)
    th = ctx.thorough
    labels = [tokens_of(b) for b in BASE]
    nrand = 60 if th else 12
    seen = {tuple(x) for x in labels}
    while len(labels) < len(BASE) + nrand:
        lab = random_label(rng)
        if 3 <= len(lab) <= 26 and tuple(lab) not in seen:
            seen.add(tuple(lab))
            labels.append(lab)
    pair_all_max = 13 if th else 7          # every pair of damages for labels up to this many tokens
    pair_sample = 20000 if th else 0        # seeded sample of pairs for the longer base labels
    texts = {}

    def put(toks, rank, dmg):
        t = " ".join(toks)
        cur = texts.get(t)
        if cur is None or (rank, dmg) < cur:
            texts[t] = (rank, dmg)

    npairs_all = npairs_sampled = 0
    for li, lab in enumerate(labels):
        put(lab, (0, li), "none")
        singles = list(damages(lab))
        for dmg, toks in singles:
            put(toks, (1, li), dmg)
        if len(lab) <= (pair_all_max if li < len(BASE) else pair_all_max - 4):
            for d1, t1 in singles:
                for d2, t2 in damages(t1):
                    put(t2, (2, li), d1 + "+" + d2)
            npairs_all += 1
        elif pair_sample and li < len(BASE):
            for _ in range(pair_sample):
                d1, t1 = singles[rng.randrange(len(singles))]
                second = list(damages(t1))
                if second:
                    d2, t2 = second[rng.randrange(len(second))]
                    put(t2, (2, li), d1 + "+" + d2)
            npairs_sampled += 1
    bounds = {"base_labels": len(BASE), "random_labels": nrand, "max_tokens": max(len(x) for x in labels),
              "replacement_kinds": len(REPL), "all_pairs_for_base_labels_up_to_tokens": pair_all_max,
              "all_pairs_for_random_labels_up_to_tokens": pair_all_max - 4,
              "labels_with_all_pairs": npairs_all, "labels_with_sampled_pairs": npairs_sampled,
              "sampled_pairs_per_label": pair_sample, "texts": len(texts)}
    return texts, bounds


def sections(ctx):
    t0 = time.time()
    texts, bounds = build_inputs(ctx)
    s = Section("damaged-labels", "bounded", bounded=True,
                rule="well-formed generated labels (assignments with simple/set/sequence/units/quoted values, nested blocks "
                     "of both keyword families, optional ';', optional end names, END present or absent; tokens separated "
                     "by single blanks) x {no damage, every single token-level damage: delete, duplicate, swap neighbours, "
                     "replace by each of 17 token kinds, truncate at each token, drop an opening/closing quote or units "
                     "bracket; every pair of damages for the short labels, a seeded sample of pairs for the long ones} x 5 "
                     "parser configurations; oracle = independent tokenizer + recogniser/denotation of DESIGN Appendix B per "
                     "dialect; distinct = (damaged text, configuration) after de-duplication of equal texts",
                bounds=bounds)
    items = sorted(((t, list(r), d) for t, (r, d) in texts.items()), key=lambda x: (len(x[0]), x[0]))
    # spread lengths over the batches
    nb = max(ctx.jobs * 4, len(items) // 3000)
    batches = [items[i::nb] for i in range(nb)]
    batches = [b for b in batches if b]
    results, hung = K.run_batches(work, batches, ctx.jobs, 240.0)
    found = {}
    tally = {}
    over = {}
    for r in results:
        for c, t in r["over"].items():
            if c not in over or (len(t), t) < (len(over[c]), over[c]):
                over[c] = t
        s.evaluations += r["n"]
        for k, v in r["tally"].items():
            tally[k] = tally.get(k, 0) + v
        for g, cand in r["found"].items():
            if g not in found or cand < found[g]:
                found[g] = cand
    s.distinct = set(range(s.evaluations))
    for text, rank, dmg in hung:
        for c in K.CONFIGS:
            found.setdefault((c, "spin"), ((rank[0], rank[1]), len(text), text, dmg,
                                           f"{c}: the worker process running {text!r} had to be killed"))
    mid = items[len(items) // 2]
    s.samples = [{"text": items[min(40, len(items) - 1)][0], "damage": items[min(40, len(items) - 1)][2]},
                 {"text": mid[0], "damage": mid[2]}, {"text": items[-1][0], "damage": items[-1][2]}]
    s.notes.append("outcome (loader/oracle) tallies: " + ", ".join(f"{c}:{t}={n}" for (c, t), n in sorted(tally.items())))
    if over:
        s.notes.append("well-formed for the recogniser but refused by the loader with LexerError/ParseError (not a C05 "
                       "matter, shortest per configuration): " + "; ".join(f"{c}: {t!r}" for c, t in sorted(over.items())))
    # a class of ill-formedness shown by a single damage is reported on that witness; pairs only add new classes
    for (config, reason), (rank, _, text, dmg, what) in sorted(found.items()):
        s.violation(f"C05:{config}:{dmg}:{reason}", what,
                    {"text": text, "config": config, "damage": dmg, "reason": reason, "label_index": rank[1]})
    s.exhaustive = False
    s.seconds = time.time() - t0
    return [s]


def replay(data):
    text, config = data["text"], data.get("config", "default")
    reason, what, _ = check_one(text, config)
    return what if reason is not None else None
