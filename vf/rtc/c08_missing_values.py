"""Bounded driver for C08: missing values are tolerated by the default loader and located exactly.

Well-formed multi-line labels are generated together with the line of every '='; then the value
of every subset (<= 3) of the assignments is removed and the text is laid out in many line
styles.  Oracle (from the property statement, nothing is taken from the library):

  pvl.loads(text)  returns every statement in order (names, values, container classes as in C03),
                   each removed value is a pvl.parser.EmptyValueAtLine (== "") whose .lineno is the
                   1-based line of that parameter's '=', and module.errors == sorted(those lines);
  the strict PVL, ODL and PDS3 parsers raise LexerError or ParseError on the same text
  (and load the intact label as its denotation - otherwise the 'raises' half would be vacuous).
"""
import hashlib
import itertools
import multiprocessing as mp
import random
import time

from ..harness import Section
from . import textgen as T

PID = "C08"
STRICT = ("PVL", "ODL", "PDS3")


def _h(text):
    return hashlib.blake2b(text.encode("utf-8", "surrogatepass"), digest_size=8).hexdigest()


# ---------------------------------------------------------------------------------------
# base labels (values valid in PVL, ODL and PDS3 alike)
# ---------------------------------------------------------------------------------------
def base_docs():
    i = lambda n: ("int", str(n))     # noqa: E731
    flat = [T.A("alpha", i(1)), T.A("beta", ("q", '"two words"')), T.A("gamma", ("seq", [i(1), i(2), ("real", "3.5")])),
            T.A("delta", ("units", ("real", "4.5"), "<m>")), T.A("epsilon", ("u", "sym"))]
    nested = [
        T.A("first", i(1)),
        T.B("GROUP", "g1", [T.A("ga", i(1)), T.A("gb", ("q", "'b'")), T.A("gc", i(3))]),
        T.B("OBJECT", "o1", [T.A("oa", ("q", '"x"')),
                             T.B("GROUP", "inner", [T.A("ia", i(1)), T.A("ib", ("set", [i(1), i(2)]))], end_name=True),
                             T.A("oz", i(9))], end_name=True),
        T.A("last", i(10)),
    ]
    dup = [T.A("k", i(1)), T.A("k", i(2)), T.B("Group", "k", [T.A("k", i(3))], end="End_Group"), T.A("k", ("u", "v"))]
    u = lambda t: ("u", t)            # noqa: E731
    dupblock = [T.A("NOTE", u("first")), T.A("NOTE", u("second")), T.A("TARGET", u("MARS")),
                T.B("GROUP", "g", [T.A("NOTE", u("a")), T.A("NOTE", u("b")), T.A("NOTE", u("c")), T.A("TARGET", u("x"))])]
    return [("flat", flat), ("nested", nested), ("duplicate-names", dup), ("duplicates-in-one-block", dupblock)]


def assign_paths(stmts, prefix=()):
    for j, st in enumerate(stmts):
        if st[0] == "assign":
            yield prefix + (j,)
        else:
            yield from assign_paths(st[3], prefix + (j,))


# ---------------------------------------------------------------------------------------
# line styles
# ---------------------------------------------------------------------------------------
BASELINE = {"eol": "\n", "indent": "  ", "delim": False, "comment": None, "blank": False, "eq": "spaced", "value_next_line": False,
            "end": "END-nl", "dash": False, "lead": "", "mlc": False, "strict": True, "between": ""}
FEATURES = {
    "crlf": {"eol": "\r\n"},
    "ff-as-line-end": {"eol": "\f"},            # only "\n" is a line break: every '=' stays on its "\n"-counted line
    "vt-as-line-end": {"eol": "\v"},
    "cr-as-line-end": {"eol": "\r"},
    "ff-between-statements": {"between": "\f"},
    "vt-between-statements": {"between": "\v"},
    "cr-between-statements": {"between": "\r"},
    "equals-first-on-line": {"eq": "firstcol"},
    "ff-before-equals": {"eq": "\f"},
    "vt-before-equals": {"eq": "\v"},
    "cr-before-equals": {"eq": "\r"},
    "semicolon": {"delim": True},
    "comment-trailing": {"comment": ("trail", "/* c */")},
    "comment-trailing-with-equals": {"comment": ("trail", "/* x = y */")},
    "comment-between": {"comment": ("own", "/* c */")},
    "comment-with-equals-between": {"comment": ("own", "/* x = y */")},
    "hash-comment-between": {"comment": ("own", "# c"), "strict": False},
    "hash-comment-with-equals-between": {"comment": ("own", "# x = y"), "strict": False},
    "hash-comment-trailing-with-equals": {"comment": ("trail", "# x = y"), "strict": False},
    "blank-lines": {"blank": True},
    "tight-equals": {"eq": "tight"},
    "equals-on-own-line": {"eq": "ownline"},
    "value-on-next-line": {"value_next_line": True},
    "no-END": {"end": "none-nl"},
    "no-END-no-newline": {"end": "none"},
    "END-no-newline": {"end": "END"},
    "END-then-text": {"end": "END-trailer"},
    "no-END-then-comment-with-equals": {"end": "none-comment"},     # the text ends with a comment that contains '='
    "dash-continuation-earlier": {"dash": True},
    "no-indent": {"indent": ""},
    "leading-blank-lines": {"lead": "\n\n"},
    "multi-line-comment-earlier": {"mlc": True},
}
GROUPS = [("crlf", "ff-as-line-end", "vt-as-line-end", "cr-as-line-end"),
          ("ff-between-statements", "vt-between-statements", "cr-between-statements"), ("semicolon",), ("comment-trailing", "comment-trailing-with-equals", "comment-between", "comment-with-equals-between",
                                     "hash-comment-between", "hash-comment-with-equals-between", "hash-comment-trailing-with-equals"),
          ("blank-lines",), ("tight-equals", "equals-on-own-line", "equals-first-on-line", "ff-before-equals",
                             "vt-before-equals", "cr-before-equals"), ("value-on-next-line",),
          ("no-END", "no-END-no-newline", "END-no-newline", "END-then-text", "no-END-then-comment-with-equals"), ("dash-continuation-earlier",), ("no-indent",),
          ("leading-blank-lines",), ("multi-line-comment-earlier",)]


def style_of(features):
    st = dict(BASELINE)
    for f in features:
        st.update(FEATURES[f])
    return st


def valid_combo(features):
    """A '#' comment runs to the next "\n": it cannot be combined with a line end that has no "\n"."""
    st = style_of(features)
    return not (st["comment"] and st["comment"][1].startswith("#") and "\n" not in st["eol"])


def all_combos():
    opts = [(None,) + g for g in GROUPS]
    for c in itertools.product(*opts):
        c = tuple(f for f in c if f)
        if valid_combo(c):
            yield c


def random_combo(rng):
    out = []
    for g in GROUPS:
        if rng.random() < 0.3:
            out.append(rng.choice(g))
    return tuple(out) if valid_combo(out) else ()


# ---------------------------------------------------------------------------------------
# text + oracle
# ---------------------------------------------------------------------------------------
class _Text:
    def __init__(self):
        self.parts = []
        self.line = 1

    def add(self, s):
        self.parts.append(s)
        self.line += s.count("\n")

    def text(self):
        return "".join(self.parts)


def value_text(node):
    toks = []
    T.node_tokens(node, toks)
    out = ""
    for j, (t, k) in enumerate(toks):
        if j and k not in ("comma", "rpar", "rbrace") and toks[j - 1][1] not in ("lpar", "lbrace"):
            out += " "
        out += t
    return out


def flatten(stmts, removed, depth=0, prefix=()):
    items = []
    for j, st in enumerate(stmts):
        if st[0] == "assign":
            p = prefix + (j,)
            items.append(["assign", st[1], st[2], depth, p in removed])
        else:
            items.append(["begin", st[1], st[2], depth])
            items += flatten(st[3], removed, depth + 1, prefix + (j,))
            items.append(["end", st[4], st[2] if st[5] else None, depth])
    return items


def build(stmts, removed, features):
    """-> text, expected tagged tree for the default loader, sorted lines, followers (one per removed value, textual order)"""
    st = style_of(features)
    eol, ind = st["eol"], st["indent"]
    stmts = list(stmts)
    if st["dash"]:
        stmts = [T.A("note", ("q", '"conti-\n      nued"'))] + stmts
        removed = {(p[0] + 1,) + p[1:] for p in removed}
    items = flatten(stmts, removed)
    tx = _Text()
    tx.add(st["lead"])
    if st["mlc"]:
        tx.add("/* line one" + eol + "   line two */" + eol)
    eq_line = []          # per assign item, in order
    followers = []
    for n, it in enumerate(items):
        if n:
            tx.add(eol)
            tx.add(st["between"])
            if st["blank"]:
                tx.add(eol)
            if st["comment"] and st["comment"][0] == "own":
                tx.add(ind * it[3] + st["comment"][1] + eol)
        pad = ind * it[3]
        if it[0] == "assign":
            _, name, node, depth, gone = it
            tx.add(pad + name)
            if st["eq"] == "tight":
                eq_line.append(tx.line)
                tx.add("=")
                gap = ""
            elif st["eq"] == "ownline":
                tx.add(eol + pad + "    ")
                eq_line.append(tx.line)
                tx.add("=")
                gap = " "
            elif st["eq"] == "firstcol":          # the '=' is the first character of its line
                tx.add(eol)
                eq_line.append(tx.line)
                tx.add("=")
                gap = " "
                if gone:
                    tx.add(" ")
            elif st["eq"] in ("\f", "\v", "\r"):
                tx.add(st["eq"])
                eq_line.append(tx.line)
                tx.add("=")
                gap = " "
            else:
                tx.add(" ")
                eq_line.append(tx.line)
                tx.add("=")
                gap = " "
            if not gone:
                if st["value_next_line"]:
                    tx.add(eol + pad + "      " + value_text(node))
                else:
                    tx.add(gap + value_text(node))
            if st["delim"]:
                tx.add((gap if gone else "") + ";")
            if gone:
                nxt = items[n + 1] if n + 1 < len(items) else None
                if st["delim"]:
                    followers.append("semicolon")
                elif nxt is None:
                    followers.append({"END-nl": "END", "END": "END", "END-trailer": "END", "none": "end-of-text",
                                      "none-nl": "end-of-text", "none-comment": "end-of-text"}[st["end"]])
                elif nxt[0] == "assign":
                    followers.append("assignment-also-missing" if nxt[4] else "assignment")
                elif nxt[0] == "begin":
                    followers.append("block-begin")
                else:
                    followers.append("end-block-named" if nxt[2] else "end-block")
        elif it[0] == "begin":
            tx.add(pad + it[1] + " = " + it[2])
        else:
            tx.add(pad + it[1] + (" = " + it[2] if it[2] else ""))
        if st["comment"] and st["comment"][0] == "trail":
            tx.add(" " + st["comment"][1])
            if st["comment"][1].startswith("#") and n == len(items) - 1 and st["end"] == "none":
                tx.add(eol)       # a '#' comment is terminated by its line end, also on the last line
    if st["end"] == "END-nl":
        tx.add(eol + "END" + eol)
    elif st["end"] == "END":
        tx.add(eol + "END")
    elif st["end"] == "END-trailer":
        tx.add(eol + "END" + eol + "ignored = " + eol + "more =" + eol)
    elif st["end"] == "none-nl":
        tx.add(eol)
    elif st["end"] == "none-comment":
        tx.add(eol + eol + "/* monty = python */" + eol)
    # expected tree
    k = [0]

    def exp(sts, prefix=()):
        out = []
        for j, s in enumerate(sts):
            if s[0] == "assign":
                line = eq_line[k[0]]
                k[0] += 1
                if prefix + (j,) in removed:
                    out.append([s[1], ["empty", line]])
                else:
                    out.append([s[1], T.denote(s[2], "default")])
            else:
                out.append([s[2], [T.begin_class(s[1]), exp(s[3], prefix + (j,))]])
        return out

    tree = ["module", exp(stmts)]
    lines = sorted(v[1] for v in _empties(tree))
    return tx.text(), tree, lines, followers


def _empties(t):
    if t[0] in ("module", "group", "object"):
        for _, v in t[1]:
            yield from _empties(v)
    elif t[0] == "empty":
        yield t


def _mask(t):
    if t[0] in ("module", "group", "object"):
        return [t[0], [[n, _mask(v)] for n, v in t[1]]]
    if t[0] == "empty":
        return ["empty", None]
    return t


# ---------------------------------------------------------------------------------------
# one evaluation
# ---------------------------------------------------------------------------------------
def check_default(text, tree, lines):
    """-> list of (aspect, description)"""
    o = T.outcome("default", text)
    if o[0] == "raise":
        return [("raises", f"pvl.loads raises {o[1]}: {o[2]}")]
    if o[0] == "crash":
        return [("crash", f"pvl.loads raises {o[1]} (not LexerError/ParseError): {o[2]}")]
    got, errs = o[1], o[2]
    out = []
    if _mask(got) != _mask(tree):
        out.append(("statements", T.first_diff(got, tree) or "trees differ"))
    elif got != tree:
        gl = [v[1] for v in _empties(got)]
        wl = [v[1] for v in _empties(tree)]
        out.append(("lineno", f"placeholders carry lines {gl}, the '=' signs are on lines {wl}"))
    if errs != lines:
        if not out or out[0][0] != "lineno" or errs != sorted(v[1] for v in _empties(got)):
            out.append(("errors", f"module.errors == {errs}, expected {lines}"))
    return out


def check_strict(cfg, text, intact, tree_fn=None):
    o = T.outcome(cfg, text)
    if o[0] == "crash":
        return ("strict-crash:" + cfg, f"{cfg} parser raises {o[1]} (not LexerError/ParseError): {o[2]}")
    if intact:
        if o[0] == "raise":
            return ("intact-label:" + cfg, f"{cfg} parser rejects the intact label: {o[1]}: {o[2]}")
        if tree_fn is not None and o[1] != tree_fn(cfg):
            return ("intact-label:" + cfg, f"{cfg} parser misreads the intact label: {T.first_diff(o[1], tree_fn(cfg))}")
        return None
    if o[0] == "ok":
        return ("strict-accepts:" + cfg, f"{cfg} parser returns a module instead of raising: {str(o[1])[:120]}")
    return None


def evaluate(docname, stmts, removed, features):
    text, tree, lines, followers = build(stmts, removed, features)
    res = []
    for aspect, desc in check_default(text, tree, lines):
        res.append((aspect, desc))
    for cfg in STRICT if style_of(features)["strict"] else ():      # '#' comments exist only in the default/ISIS grammars
        if removed:
            r = check_strict(cfg, text, False)
        else:
            def tree_fn(c, _s=stmts, _f=features):
                sts = ([T.A("note", ("q", '"conti-\n      nued"'))] if style_of(_f)["dash"] else []) + list(_s)
                return ["module", T.expected_items(sts, c)]
            r = check_strict(cfg, text, True, tree_fn)
        if r:
            res.append(r)
    return text, tree, lines, followers, res


# ---------------------------------------------------------------------------------------
# case lists
# ---------------------------------------------------------------------------------------
def subsets(paths, kmax, kmin=0):
    for k in range(kmin, kmax + 1):
        yield from itertools.combinations(paths, k)


def cases(thorough, seed):
    docs = base_docs()
    singles = [()] + [(f,) for f in FEATURES]
    out = []
    for dn, stmts in docs:
        paths = list(assign_paths(stmts))
        kmax_single = 3 if thorough else 2
        for sub in subsets(paths, kmax_single):
            for feats in singles:
                out.append((dn, sub, feats))
        if not thorough:
            for sub in subsets(paths, 3, 3):
                out.append((dn, sub, ()))
    rng = random.Random(f"{seed}:c08")
    if thorough:
        combos = list(all_combos())
        for dn, stmts in docs:
            paths = list(assign_paths(stmts))
            for sub in subsets(paths, 1):
                for c in rng.sample(combos, 1200):
                    if len(c) >= 2:
                        out.append((dn, sub, c))
    for _ in range(6000 if thorough else 500):
        dn, stmts = rng.choice(docs)
        paths = list(assign_paths(stmts))
        sub = tuple(sorted(rng.sample(paths, rng.randint(1, min(3, len(paths))))))
        c = random_combo(rng)
        if len(c) >= 2:
            out.append((dn, sub, c))
    return docs, out


def work(args):
    thorough, seed, idx, nchunks = args
    docs, cs = cases(thorough, seed)
    dd = dict(docs)
    n = 0
    keys = set()
    fails = []
    samples = []
    for j in range(idx, len(cs), nchunks):
        dn, sub, feats = cs[j]
        text, tree, lines, followers, res = evaluate(dn, dd[dn], set(sub), feats)
        n += 1
        keys.add(_h(text))
        if not samples and len(sub) == 2 and feats:
            samples.append({"text": text, "expected": tree, "errors": lines, "removed": [list(p) for p in sub], "style": list(feats)})
        for aspect, desc in res:
            fails.append((aspect, dn, tuple(sub), tuple(feats), tuple(followers), text, tree, lines, desc))
    return n, keys, fails, samples


# ---------------------------------------------------------------------------------------
# grouping
# ---------------------------------------------------------------------------------------
def _follower(f):
    """The follower that identifies a failure: for a wrong line number, what follows the first wrongly located value."""
    aspect, dn, sub, feats, fol, text, tree, lines, desc = f
    if aspect == "lineno" and fol:
        o = T.outcome("default", text)
        if o[0] == "ok":
            got = [v[1] for v in _empties(o[1])]
            want = [v[1] for v in _empties(tree)]
            for j, (g, w) in enumerate(zip(got, want)):
                if g != w and j < len(fol):
                    return fol[j]
    return "+".join(sorted(set(fol))) or "none"


def group_failures(s, fails):
    # 1. failures under the baseline style or a single style feature are attributed exactly
    single = {}
    for f in fails:
        aspect, dn, sub, feats, fol, text = f[:6]
        if len(feats) <= 1:
            feat = feats[0] if feats else "baseline"
            single.setdefault((aspect, feat), []).append(f)
    base_fo = {}
    emitted_feats = set()
    for (aspect, feat), lst in sorted(single.items(), key=lambda kv: (kv[0][1] != "baseline", kv[0])):
        lst.sort(key=lambda f: (len(f[2]), len(f[5]), f[5]))
        by_fo = {}
        for f in lst:
            by_fo.setdefault(_follower(f), f)
        if feat == "baseline":
            base_fo[aspect] = set(by_fo)
        else:
            by_fo = {fo: f for fo, f in by_fo.items() if fo not in base_fo.get(aspect, ())}   # already fails without the feature
        if not by_fo:
            continue
        emitted_feats.add((aspect, feat))
        if len(by_fo) >= 4:
            f = min(by_fo.values(), key=lambda f: (len(f[2]), len(f[5]), f[5]))
            _emit(s, f"{PID}:{aspect}:any-follower:{feat}", f)
            s.notes.append(f"{aspect} with style {feat}: fails for followers {sorted(by_fo)}")
        else:
            for fo, f in sorted(by_fo.items()):
                _emit(s, f"{PID}:{aspect}:{fo}:{feat}", f)
    # 2. combinations: only if neither the baseline nor a single feature of the combination fails in that aspect
    combo = {}
    for f in fails:
        aspect, dn, sub, feats, fol, text = f[:6]
        if len(feats) <= 1:
            continue
        if (aspect, "baseline") in emitted_feats or any((aspect, x) in emitted_feats for x in feats):
            continue
        k = (aspect, "+".join(sorted(feats)))
        if k not in combo or (len(sub), len(text)) < (len(combo[k][2]), len(combo[k][5])):
            combo[k] = f
    done = set()
    for (aspect, name), f in sorted(combo.items(), key=lambda kv: (len(kv[1][3]), kv[0]))[:40]:
        f = _minimise_combo(f)
        k = (aspect, tuple(sorted(f[3])))
        if k in done:
            continue
        done.add(k)
        _emit(s, f"{PID}:{aspect}:{_follower(f)}:combination:{'+'.join(sorted(f[3])) or 'baseline'}", f)


def _minimise_combo(f):
    """Drop style features and removed values one at a time while the same aspect still fails."""
    aspect, dn, sub, feats, fol, text, tree, lines, desc = f
    stmts = dict(base_docs())[dn]
    feats = list(feats)
    sub = list(sub)
    changed = True
    while changed:
        changed = False
        for x in list(feats):
            trial = [y for y in feats if y != x]
            t2, tr2, l2, fo2, res = evaluate(dn, stmts, set(sub), tuple(trial))
            hit = [r for r in res if r[0] == aspect]
            if hit:
                feats = trial
                f = (aspect, dn, tuple(sub), tuple(feats), tuple(fo2), t2, tr2, l2, hit[0][1])
                changed = True
                break
        if changed:
            continue
        for p in list(sub):
            if len(sub) == 1:
                break
            trial = [q for q in sub if q != p]
            t2, tr2, l2, fo2, res = evaluate(dn, stmts, set(trial), tuple(feats))
            hit = [r for r in res if r[0] == aspect]
            if hit:
                sub = trial
                f = (aspect, dn, tuple(sub), tuple(feats), tuple(fo2), t2, tr2, l2, hit[0][1])
                changed = True
                break
    return f


def _emit(s, key, f):
    aspect, dn, sub, feats, fol, text, tree, lines, desc = f
    s.violation(key, f"{T.show(text, 150)}: {desc} [{aspect}; label {dn}, {len(sub)} value(s) removed followed by "
                     f"{'/'.join(fol) or '-'}; style {'+'.join(feats) or 'baseline'}]",
                {"text": text, "expected": tree, "errors": lines, "aspect": aspect, "intact": len(sub) == 0,
                 "label": dn, "removed": [list(p) for p in sub], "style": list(feats),
                 "expected_strict": _strict_tree(dn, feats, aspect) if len(sub) == 0 else None})


def _strict_tree(dn, feats, aspect):
    if not aspect.startswith("intact-label"):
        return None
    stmts = dict(base_docs())[dn]
    sts = ([T.A("note", ("q", '"conti-\n      nued"'))] if style_of(feats)["dash"] else []) + list(stmts)
    return ["module", T.expected_items(sts, aspect.split(":")[1])]


def sections(ctx):
    th = ctx.thorough
    t0 = time.time()
    s = Section("missing-values", "bounded", bounded=True,
                rule="4 multi-line base labels (flat; nested group/object/inner group with named ends; duplicate names; duplicate names "
                     "inside one block followed by other assignments) x every subset "
                     "of <= " + ("3" if th else "2 (3 in the baseline style)") + " assignments whose value is removed (top level, "
                     "nested, first/last of a block, adjacent) x {baseline, 31 single style features: CRLF, FF/VT/bare CR as line end, between "
                     "statements and before '=', '=' as first character of its line, ';', trailing/own-line "
                     "'/* */' and '#' comments with and without '=', blank lines, tight '=', '=' on its own line, value on the next line, no END, "
                     "no final newline, text after END, dash continuation earlier, multi-line comment earlier...}; "
                     + ("1200 sampled style combinations x subsets <= 1; 6000" if th else "500") + " seeded random (subset, style "
                     "combination); pvl.loads vs oracle tree/linenos/errors, strict PVL/ODL/PDS3 must raise",
                bounds={"max_removed": 3, "features": len(FEATURES), "seed": ctx.seed})
    nch = 48 if th else 16
    with mp.get_context("fork").Pool(ctx.jobs) as pool:
        outs = pool.map(work, [(th, ctx.seed, i, nch) for i in range(nch)], chunksize=1)
    fails = []
    for n, keys, fl, samples in outs:
        s.merge_counts(n, keys, samples)
        fails += fl
    group_failures(s, fails)
    s.notes.append(f"{len(fails)} failing (aspect, text) observations before grouping")
    s.seconds = time.time() - t0
    return [s]


def replay(data):
    text = data.get("text")
    if text is None:
        return None
    aspect = data.get("aspect", "")
    tree, lines = data.get("expected"), data.get("errors")
    if aspect.startswith(("strict-", "intact-label")):
        cfg = aspect.split(":")[1]
        want = data.get("expected_strict")
        r = check_strict(cfg, text, bool(data.get("intact")), (lambda c: want) if want else None)
        return f"{T.show(text, 150)}: {r[1]} [{r[0]}]" if r else None
    res = check_default(text, tree, lines)
    if not res:
        return None
    return f"{T.show(text, 150)}: " + "; ".join(f"{d} [{a}]" for a, d in res)
