"""Shared helper of the C11/C12/C13/C16 bounded drivers: an abstract, JSON-able description of
label modules / containers / values, and a builder that always constructs FRESH library
containers from such a description (library objects are never copied or reused).

Value description (after a JSON round trip everything is still valid):
  None | bool | int | str                      the value itself
  ["float", "<repr>"]                          float (incl. inf / nan)
  ["decimal", "<str>"]                         decimal.Decimal
  ["list", [v, ...]] ["set", [...]] ["frozenset", [...]]
  ["date", y, m, d]
  ["time", h, mi, s, us, tz]                   tz: None (naive) or offset in minutes
  ["datetime", y, m, d, h, mi, s, us, tz]
  ["quantity", v, "<units>"]                   pvl.collections.Quantity
  ["group"|"object"|"module"|"omd"|"dict", [[key, v], ...]]      containers
A module description is a container description.
"""
import datetime
import decimal
import hashlib
import json

CONTAINER_TAGS = ("group", "object", "module", "omd", "dict")


def is_container(d):
    return isinstance(d, list) and len(d) == 2 and d[0] in CONTAINER_TAGS


def tag(d):
    """Kind of a value description."""
    if d is None:
        return "none"
    if isinstance(d, bool):
        return "bool"
    if isinstance(d, int):
        return "int"
    if isinstance(d, str):
        return "str"
    if isinstance(d, list) and d and isinstance(d[0], str):
        return d[0]
    raise ValueError(f"bad value description {d!r}")


def _tz(t):
    if t is None:
        return None
    return datetime.timezone(datetime.timedelta(minutes=t))


def build(d):
    """Fresh Python object for a value / container description."""
    import pvl.collections as pc
    k = tag(d)
    if k in ("none", "bool", "int", "str"):
        return d
    if k == "float":
        return float(d[1])
    if k == "decimal":
        return decimal.Decimal(d[1])
    if k == "list":
        return [build(x) for x in d[1]]
    if k == "set":
        return set(build(x) for x in d[1])
    if k == "frozenset":
        return frozenset(build(x) for x in d[1])
    if k == "date":
        return datetime.date(d[1], d[2], d[3])
    if k == "time":
        return datetime.time(d[1], d[2], d[3], d[4], tzinfo=_tz(d[5]))
    if k == "datetime":
        return datetime.datetime(d[1], d[2], d[3], d[4], d[5], d[6], d[7], tzinfo=_tz(d[8]))
    if k == "quantity":
        return pc.Quantity(build(d[1]), d[2])
    if k in CONTAINER_TAGS:
        pairs = [(kk, build(v)) for kk, v in d[1]]
        if k == "dict":
            if len({kk for kk, _ in pairs}) != len(pairs):
                raise AssertionError("driver bug: a dict description must not repeat a key")
            return dict(pairs)
        cls = {"group": pc.PVLGroup, "object": pc.PVLObject, "module": pc.PVLModule,
               "omd": pc.OrderedMultiDict}[k]
        m = cls()
        for kk, v in pairs:
            m.append(kk, v)
        return m
    raise ValueError(f"bad value description {d!r}")


def pysrc(d):
    """Python source text that builds the described object (for reproducers in reports)."""
    k = tag(d)
    if k in ("none", "bool", "int", "str"):
        return repr(d)
    if k == "float":
        return f"float({d[1]!r})" if d[1] in ("inf", "-inf", "nan") else d[1]
    if k == "decimal":
        return f"Decimal({d[1]!r})"
    if k == "list":
        return "[" + ", ".join(pysrc(x) for x in d[1]) + "]"
    if k == "set":
        return "{" + ", ".join(pysrc(x) for x in d[1]) + "}" if d[1] else "set()"
    if k == "frozenset":
        return "frozenset([" + ", ".join(pysrc(x) for x in d[1]) + "])"
    if k == "date":
        return f"date({d[1]}, {d[2]}, {d[3]})"
    tz = lambda t: "" if t is None else (", tzinfo=timezone.utc" if t == 0 else f", tzinfo=timezone(timedelta(minutes={t}))")  # noqa: E731
    if k == "time":
        return f"time({d[1]}, {d[2]}, {d[3]}, {d[4]}{tz(d[5])})"
    if k == "datetime":
        return f"datetime({', '.join(str(x) for x in d[1:8])}{tz(d[8])})"
    if k == "quantity":
        return f"Quantity({pysrc(d[1])}, {d[2]!r})"
    if k == "dict":
        return "{" + ", ".join(f"{kk!r}: {pysrc(v)}" for kk, v in d[1]) + "}"
    cls = {"group": "PVLGroup", "object": "PVLObject", "module": "PVLModule", "omd": "OrderedMultiDict"}[k]
    return cls + "([" + ", ".join(f"({kk!r}, {pysrc(v)})" for kk, v in d[1]) + "])"


def canon(x):
    return json.dumps(x, sort_keys=True, ensure_ascii=True, separators=(",", ":"))


def h64(x):
    """Stable 64-bit identity of a JSON-able thing (for measured distinct sets)."""
    return int.from_bytes(hashlib.blake2b(canon(x).encode(), digest_size=8).digest(), "big")


def size(d):
    return len(canon(d))


def depth(d):
    if is_container(d):
        return 1 + max([depth(v) for _, v in d[1]], default=0)
    return 0


# ---------------------------------------------------------------------------------------
# boundary pools
# ---------------------------------------------------------------------------------------
def F(x):
    return ["float", repr(float(x))]


KEY_POOL = [
    "a", "key", "K", "MixedCase", "lower_case", "X" * 30, "Y" * 31, "z" * 60,
    "^PTR", "ns:name", "^ns:ptr", "bad key", "9start", "trail_", "a-b", "", "café", "END",
    "a=b", "a;b",
]

STR_POOL = [
    "", "abc", "ABC_DEF", "two words", "x" * 50, ("long words " * 12).strip(), "it's", 'say "hi"',
    "both ' and \"", "line1\nline2", "line1\r\nline2", "cr\ronly", "tab\there", "vt\x0bff\x0c", "café",
    "日本", "ctrl\x01x", "del\x7f", "c1\x85x", "a;b", "1abc", "NULL", "null", "End_Group", "/* c */", "a=b",
    "sym bol", "q\"uote and\nnewline", "q\"uote and\ttab", "dash-\n  cont", "-", "a+b", "1e5", "2001-01-01",
    ("word " * 30).strip() + ' "q"',
    # 41..79 characters, no apostrophe, need quotes (spaces / '-'): longer than half of the default width 80
    ("abcd " * 9).strip()[:41], ("symbol words " * 4).strip()[:45], ("some longer symbol text " * 3).strip()[:60],
    ("seventy nine characters of text " * 3).strip()[:79], "x-" * 22 + "x", "tab\tin the middle of a longer text string of 55 chars..",
]

NUM_POOL = [0, -1, 255, 12345678901234567890, F(1.5), F(-0.0), F(1e100), F(1e-7), F("inf"), F("nan"),
            ["decimal", "1.50"]]

TIME_POOL = [
    ["date", 2001, 1, 1], ["date", 1, 1, 1],
    ["time", 12, 0, 0, 0, None], ["time", 1, 2, 3, 0, 0], ["time", 1, 2, 3, 500000, 0],
    ["time", 1, 2, 3, 123456, 0], ["time", 1, 2, 3, 0, 330], ["time", 1, 2, 3, 0, -300],
    ["datetime", 2001, 1, 1, 12, 0, 0, 0, None], ["datetime", 2001, 1, 1, 1, 2, 3, 4000, 0],
    ["datetime", 2001, 1, 1, 1, 2, 3, 0, 60],
]

QUANT_POOL = [
    ["quantity", 5, "m"], ["quantity", F(1.5), "km/s"], ["quantity", 5, "m**2"], ["quantity", "abc", "m"],
    ["quantity", True, "m"], ["quantity", None, "m"], ["quantity", ["list", [1, 2]], "m"], ["quantity", 5, "bad unit!"],
    ["quantity", F("inf"), "m"], ["quantity", 5, ""], ["quantity", 5, "a b"], ["quantity", ["date", 2001, 1, 1], "d"],
    ["quantity", 5, "m>"], ["quantity", F(2.5), "deg\t/ s"], ["quantity", 5, "\tm"],
]

SEQ_POOL = [
    ["list", []], ["list", [1, 2, 3]], ["list", list(range(1000, 1040))],
    ["list", ["a b", "c d", "e f", "g h", "i j", "k l", "m n", "o p", "q r", "s t", "u v", "w x"]],
    ["list", ["alpha beta gamma", "delta epsilon zeta", "eta theta iota", "kappa lambda mu"]],
    ["list", ["abc", "DEF", "g_h"]], ["list", [["list", [1, 2]], ["list", [3, 4]]]],
    ["list", [["list", [["list", [1]]]]]], ["list", [None, True]], ["list", ["it's", 'say "hi"']],
    ["list", [["quantity", 5, "m"], ["quantity", 6, "m"]]], ["list", ["line1\nline2"]],
    ["list", [F(1.5), ["date", 2001, 1, 1], "x y"]], ["list", [["set", [1]]]],
    ["list", ["x" * 30, "y" * 30, "z" * 30, "w" * 30]],
    ["list", ["word " * 3 + "end"] * 6],
    ["set", []], ["set", [1, 2]], ["set", ["a", "b"]], ["set", [F(1.5)]], ["set", ["a b", "c d"]],
    ["frozenset", [1]], ["set", ["x" * 45]], ["set", [["frozenset", [1]]]],
    ["set", ["a b", "c d", "e f", "g h", "i j", "k l", "m n", "o p", "q r", "s t", "u v", "w x"]],
    # tabs anywhere but in a plain scalar string
    ["list", ["tab\there", "no tab"]], ["list", [["list", ["a\tb", 1]], ["list", ["c", "\t"]]]], ["set", ["tab\there"]],
    ["list", [["quantity", F(2.5), "deg\t/ s"], 1]], ["list", ["sym bol", "tab\t" + "x" * 50]],
    # sequences of quote-needing strings longer than half of the default width
    ["list", [("symbol words " * 4).strip()[:45]] * 3], ["list", [("some longer symbol text " * 3).strip()[:60], "short one"]],
    ["set", [("symbol words " * 4).strip()[:45], ("abcd " * 9).strip()[:41]]],
]

VALUE_POOL = [None, True, False] + NUM_POOL + STR_POOL + TIME_POOL + QUANT_POOL + SEQ_POOL


def place(items, where):
    """Module description with `items` placed at top level / inside a block / two levels down."""
    if where == "top":
        return ["module", items]
    if where == "group":
        return ["module", [["grp", ["group", items]]]]
    if where == "object":
        return ["module", [["obj", ["object", items]]]]
    if where == "object>group":
        return ["module", [["obj", ["object", [["grp", ["group", items]]]]]]]
    if where == "group>group":
        return ["module", [["outer", ["group", [["inner", ["group", items]]]]]]]
    if where == "dict":
        return ["dict", items]
    if where == "dict>dict":
        return ["dict", [["d", ["dict", items]]]]
    raise ValueError(where)


BENIGN = [1, -5, 1000000, F(2.5), "abc", "two words", "Some Text, longer; with punctuation.", "line1\nline2",
          "sym bol", ["date", 2001, 1, 1], ["time", 1, 2, 3, 0, 0], ["datetime", 2001, 1, 1, 1, 2, 3, 4000, 0],
          ["quantity", 5, "m"], ["quantity", F(1.5), "km/s"], ["list", [1, 2, 3]], ["list", ["a b", "c d", "e f"]],
          ["list", list(range(100, 130))], ["set", [1, 2]], ["set", ["a b", "c"]], "tab\there", "it's", 'say "hi"',
          ["list", ["alpha beta gamma", "delta epsilon zeta", "eta theta iota", "kappa lambda mu"]], None, True]


def random_value(rng, depth_left=1):
    if rng.random() < 0.45:
        return rng.choice(BENIGN)
    r = rng.random()
    if r < 0.08:
        return rng.choice([None, True, False])
    if r < 0.25:
        return rng.choice(NUM_POOL + [rng.randint(-10 ** 6, 10 ** 6), F(rng.uniform(-1e3, 1e3))])
    if r < 0.55:
        if rng.random() < 0.5:
            return rng.choice(STR_POOL)
        alphabet = "abcXYZ_019 \t\n\r'\"-;=<>(){},/*#é"
        return "".join(rng.choice(alphabet) for _ in range(rng.randint(0, 70)))
    if r < 0.65:
        return rng.choice(TIME_POOL)
    if r < 0.75:
        return rng.choice(QUANT_POOL)
    if r < 0.9 or depth_left <= 0:
        if rng.random() < 0.5:
            return rng.choice(SEQ_POOL)
        n = rng.randint(1, 30)
        kind = rng.choice(["int", "sym", "text", "mixed"])
        el = []
        for _ in range(n):
            if kind == "int" or (kind == "mixed" and rng.random() < 0.5):
                el.append(rng.randint(0, 10 ** rng.randint(1, 9)))
            elif kind == "sym":
                el.append(rng.choice(["a b", "cd", "e f g", "hi_jk", "l m"]))
            else:
                el.append(rng.choice(STR_POOL[:9]))
        if rng.random() < 0.25:
            try:
                el = [e for e in el if not isinstance(e, list)]
                return ["set", el]
            except TypeError:
                pass
        return ["list", el]
    return random_container(rng, rng.choice(["group", "object", "dict", "omd"]), depth_left - 1)


def random_key(rng):
    r = rng.random()
    if r < 0.08:
        return rng.choice(KEY_POOL)
    n = rng.randint(1, 32)
    return rng.choice("abcdefXYZ") + "".join(rng.choice("abcXYZ_0189") for _ in range(n - 1))


def random_container(rng, kind, depth_left=2, max_items=6):
    n = rng.randint(0, max_items)
    items = []
    for _ in range(n):
        k = random_key(rng)
        if items and rng.random() < 0.15 and kind != "dict":
            k = rng.choice(items)[0]
        if kind == "dict" and any(k == kk for kk, _ in items):
            continue
        items.append([k, random_value(rng, depth_left)])
    return [kind, items]
