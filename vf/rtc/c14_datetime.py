"""Bounded driver for C14 (never counted as proved): date / time / date-time values keep their
type, instant and time-zone meaning.

Direction 1 (decode): texts are *rendered from fields* (year, month, day | day-of-year, hour,
minute, second, fraction digits, zone marker) and handed to the real decoders
(`decode_datetime`, `decode_simple_value`) and to the real loader.  The expected Python value
is built from those same fields by `expect()` below, which is written from the property
statement and the PVL / ODL / PDS3 date-time syntax - it never calls the library.

Direction 2 (encode o decode): temporal values on the same boundary grids are handed to the
four encoders; the text must be refused (ValueError / TypeError) or decode, with the encoder's
own decoder, to a value denoting the same instant at the same precision.

spec  = (date, time, zone, style)
  date  = None | ("ymd", y, m, d) | ("yj", y, doy)
  time  = None | (h, mi, s|None, fraction-digits|None)
  zone  = "" | "Z" | (z_before: bool, sign, hours, minutes|None, spelling)   spelling in ZSTYLES
  style = "" | "unpadded"
"""
import datetime as _dt
import itertools
import os
import multiprocessing as mp
import random
import re
import time as _time
import warnings

from ..harness import Section

CONFIGS = ("PVL", "ODL", "PDS3", "ISIS", "Omni")
DEC_LABEL = {"PVL": "PVLDecoder", "ODL": "ODLDecoder", "PDS3": "PDSLabelDecoder",
             "ISIS": "PVLDecoder+ISISGrammar", "Omni": "OmniDecoder"}
LABEL_CFG = {v: k for k, v in DEC_LABEL.items()}
# the property: an unmarked time is UTC in PVL, PDS3 and the default loader, naive in ODL
DEFAULT_ZONE = {"PVL": 0, "ODL": None, "PDS3": 0, "ISIS": 0, "Omni": 0}
LEAP_TEXT = ("PVL", "ISIS", "Omni")        # a seconds value of 60 is kept as text
OFFSETS_READ = ("ODL", "Omni")             # an ODL zone offset gives that fixed offset
ENCODERS = ("PVLEncoder", "ODLEncoder", "PDSLabelEncoder", "ISISEncoder")
ZSTYLES = ("HH", "H", "HH:MM", "H:MM", "HHMM", "HMM")

BOUNDARY_YEARS = (1, 2, 3, 4, 5, 9, 10, 99, 100, 101, 400, 999, 1000, 1001, 1582, 1600, 1700, 1899, 1900,
                  1901, 1969, 1970, 1999, 2000, 2001, 2004, 2010, 2038, 2100, 2400, 9996, 9998, 9999)


# --------------------------------------------------------------------------------------------
# the real library, one instance per process
# --------------------------------------------------------------------------------------------
_CACHE = {}


def decoder_for(cfg):
    k = ("dec", cfg)
    if k not in _CACHE:
        from pvl import decoder as D, grammar as G
        _CACHE[k] = {"PVL": lambda: D.PVLDecoder(G.PVLGrammar()),
                     "ODL": lambda: D.ODLDecoder(G.ODLGrammar()),
                     "PDS3": lambda: D.PDSLabelDecoder(G.PDSGrammar()),
                     "ISIS": lambda: D.PVLDecoder(G.ISISGrammar()),
                     "Omni": lambda: D.OmniDecoder(G.OmniGrammar())}[cfg]()
    return _CACHE[k]


def parser_for(cfg):
    """Strict parser of the dialect; None = the default loader (pvl.loads without arguments)."""
    k = ("par", cfg)
    if k not in _CACHE:
        from pvl import decoder as D, grammar as G, parser as P
        _CACHE[k] = {"PVL": lambda: P.PVLParser(G.PVLGrammar(), D.PVLDecoder(G.PVLGrammar())),
                     "ODL": lambda: P.ODLParser(G.ODLGrammar(), D.ODLDecoder(G.ODLGrammar())),
                     "PDS3": lambda: P.ODLParser(G.PDSGrammar(), D.PDSLabelDecoder(G.PDSGrammar())),
                     "ISIS": lambda: P.PVLParser(G.ISISGrammar(), D.PVLDecoder(G.ISISGrammar())),
                     "Omni": lambda: None}[cfg]()
    return _CACHE[k]


def encoder_for(name):
    k = ("enc", name)
    if k not in _CACHE:
        with warnings.catch_warnings():
            warnings.simplefilter("ignore")
            from pvl import encoder as E
            _CACHE[k] = getattr(E, name)()
    return _CACHE[k]


# --------------------------------------------------------------------------------------------
# the oracle: calendar arithmetic and expectations written from the property
# --------------------------------------------------------------------------------------------
def is_leap(y):
    return y % 4 == 0 and (y % 100 != 0 or y % 400 == 0)


def days_in_month(y, m):
    if m == 2:
        return 29 if is_leap(y) else 28
    return 30 if m in (4, 6, 9, 11) else 31


def ymd_of_doy(y, doy):
    """Month and day of a VALID day-of-year (never rolls into the next year)."""
    for m in range(1, 13):
        n = days_in_month(y, m)
        if doy <= n:
            return (y, m, doy)
        doy -= n
    raise AssertionError("driver bug: ymd_of_doy called with an invalid day-of-year")


def norm(spec):
    """Specs survive a JSON round trip as lists."""
    d, t, z, style = spec
    d = tuple(d) if d else None
    t = tuple(t) if t else None
    z = tuple(z) if isinstance(z, (list, tuple)) else z
    return (d, t, z, style or "")


def render(spec):
    d, t, z, style = spec
    pad = style != "unpadded"
    out = ""
    if d:
        if d[0] == "ymd":
            out += f"{d[1]:04d}-{d[2]:02d}-{d[3]:02d}" if pad else f"{d[1]:04d}-{d[2]}-{d[3]}"
        else:
            out += f"{d[1]:04d}-{d[2]:03d}" if pad else f"{d[1]:04d}-{d[2]}"
    if d and t:
        out += "T"
    if t:
        h, mi, s, frac = t
        out += f"{h:02d}:{mi:02d}" if pad else f"{h}:{mi}"
        if s is not None:
            out += f":{s:02d}" if pad else f":{s}"
            if frac is not None:
                out += "." + frac
    if z == "Z":
        out += "Z"
    elif z:
        zb, sign, zh, zm, zs = z
        if zb:
            out += "Z"
        out += sign
        if zs == "HH":
            out += f"{zh:02d}"
        elif zs == "H":
            out += f"{zh}"
        elif zs == "HH:MM":
            out += f"{zh:02d}:{zm:02d}"
        elif zs == "H:MM":
            out += f"{zh}:{zm:02d}"
        elif zs == "HHMM":
            out += f"{zh:02d}{zm:02d}"
        elif zs == "HMM":
            out += f"{zh}{zm:02d}"
        else:
            raise AssertionError(f"driver bug: zone spelling {zs!r}")
    return out


def date_label(d):
    """-> (valid, label, (y, m, d) | None)"""
    if d[0] == "ymd":
        _, y, m, dd = d
        if y < 1:
            return False, "year0000", None
        if y > 9999:
            return False, "year10000", None
        if m < 1:
            return False, "month00", None
        if m > 12:
            return False, "month13", None
        if dd < 1:
            return False, "day00", None
        if dd > 31:
            return False, "day32", None
        if dd > days_in_month(y, m):
            if m == 2:
                return False, ("feb29-nonleap" if dd == 29 else "feb30-31"), None
            return False, "day31-in-30-day-month", None
        return True, "ymd", (y, m, dd)
    _, y, doy = d
    if y < 1:
        return False, "year0000", None
    if y > 9999:
        return False, "year10000", None
    if doy < 1:
        return False, "doy000", None
    if doy > 366:
        return False, "doy367", None
    if doy == 366 and not is_leap(y):
        return False, "doy366-nonleap", None
    return True, "doy", ymd_of_doy(y, doy)


def time_label(t):
    """-> (status, label) with status in valid | leap | invalid"""
    h, mi, s, frac = t
    shape = "HM" if s is None else ("HMS" if frac is None else f"HMS.f{min(len(frac), 7)}")
    if h > 23:
        return "invalid", "hour24"
    if mi > 59:
        return "invalid", "minute60"
    if s is not None and s > 60:
        return "invalid", "second61"
    if s == 60:
        return "leap", "leap60"
    if frac is not None and len(frac) > 6:
        return "valid", "HMS.f7"
    return "valid", shape


def zone_label(z):
    """-> (status, label) with status in none | Z | offset | invalid"""
    if z == "":
        return "none", ""
    if z == "Z":
        return "Z", "-Z"
    zb, sign, zh, zm, zs = z
    if zb:
        return "invalid", "Z+offset"
    if (zm or 0) > 59:
        return "invalid", "offset-minute60"
    return "offset", f"-offset{sign}{zs}"


def expect_cls(cfg, spec):
    """(what the property demands for this text in this configuration, name of the text class).

    expectation: ('date', ymd) | ('time', hmsu, zone) | ('datetime', ymd + hmsu, zone) | ('leaptext',)
    | ('reject',) | ('may', e): e or rejection are both acceptable (syntax the property is silent about).
    zone = None (naive) | offset in minutes.
    The class names the field or rule that decides the expectation (so that one defect gets one key):
    an invalid field names only that field, a valid text names its form, its time shape and its zone marker."""
    d, t, z, style = spec
    pre = "unpadded-" if style == "unpadded" else ""
    form = "time" if not d else ("date-" if not t else "dt-") + ("ymd" if d[0] == "ymd" else "doy")
    leap_sfx = "+leap60" if (t and t[2] == 60) else ""
    rej = ("reject",)
    ymd = None
    if d:
        ok, dl, ymd = date_label(d)
        if not ok:
            if leap_sfx and dl in ("feb29-nonleap", "feb30-31", "day31-in-30-day-month"):
                dl = "day-past-month-end"
            return rej, pre + dl + leap_sfx
    zst, zl = zone_label(z)
    if zst == "invalid":
        return rej, pre + zl + leap_sfx
    if t is None:
        if zst == "offset":
            return rej, pre + "date+offset"                # a date has no zone
        e = ("date", ymd)
        if zst == "Z" or style == "unpadded":
            e = ("may", e)
        return e, pre + form + zl
    tst, tl = time_label(t)
    if tst == "invalid":
        return rej, pre + tl
    h, mi, s, frac = t
    lenient = style == "unpadded"
    if zst == "offset":
        if cfg not in OFFSETS_READ:
            return rej, pre + "offset" + leap_sfx            # PDS3 rejects offsets; PVL has none: not a date/time
        zone = (z[2] * 60 + (z[3] or 0)) * (-1 if z[1] == "-" else 1)
        if z[4] in ("HHMM", "HMM") or z[2] > 12 or (z[2] == 12 and z[3]):
            lenient = True                                   # spelling / range the ODL syntax does not list
            zl = "-offset-HHMM" if z[4] in ("HHMM", "HMM") else "-offset>12h"
    elif zst == "Z":
        zone = 0
    else:
        zone = DEFAULT_ZONE[cfg]
    if tst == "leap":
        if cfg not in LEAP_TEXT:
            return rej, pre + "leap60"
        e = ("leaptext",)
        cls = pre + "leap60-" + form + ("-year..0" if d and d[1] % 10 == 0 else "")
        if zst == "offset":
            return ("may", e), cls + "+offset"
        return (("may", e) if lenient else e), cls
    us = 0
    if frac is not None:
        if len(frac) > 6:
            if frac[6:].strip("0"):
                return rej, pre + "fraction-7-digits"        # finer than a microsecond: not representable
            lenient = True
        us = int(frac[:6].ljust(6, "0"))
    if cfg == "PDS3" and frac is not None:
        if us % 1000:
            return rej, pre + "sub-millisecond"              # PDS3 rejects sub-millisecond precision
        if len(frac) > 3:
            lenient = True                                   # written with more digits, value is whole ms
    hmsu = (h, mi, s or 0, us)
    e = ("time", hmsu, zone) if ymd is None else ("datetime", ymd + hmsu, zone)
    return (("may", e) if lenient else e), pre + form + "-" + tl + zl


def expect(cfg, spec):
    return expect_cls(cfg, spec)[0]


def classify(cfg, spec):
    return expect_cls(cfg, spec)[1]


_VE = "ValueError"


def outcome_of(fn, text):
    """('ok', value) | ('ValueError', message) | (OtherExceptionName, message)"""
    try:
        return ("ok", fn(text))
    except ValueError as e:
        return (_VE, str(e)[:120])
    except Exception as e:             # not swallowed: judged as a violation below
        return (type(e).__name__, str(e)[:120])


def zone_minutes(v):
    if v.tzinfo is None:
        return None
    off = v.utcoffset() if isinstance(v, _dt.datetime) else v.tzinfo.utcoffset(None)
    if off is None:
        return None
    m = off.total_seconds() / 60
    return int(m) if m == int(m) else m


def describe(e):
    if e[0] == "may":
        return describe(e[1]) + " or ValueError"
    if e[0] == "reject":
        return "ValueError (not a date/time of this dialect)"
    if e[0] == "leaptext":
        return "the identical str (seconds = 60 kept as text)"
    z = lambda m: "naive" if m is None else f"UTC{'+' if m >= 0 else '-'}{abs(m) // 60:02d}:{abs(m) % 60:02d}"
    if e[0] == "date":
        return "date(%d, %d, %d)" % e[1]
    if e[0] == "time":
        return "time(%d, %d, %d, %d) %s" % (e[1] + (z(e[2]),))
    return "datetime(%d, %d, %d, %d, %d, %d, %d) %s" % (e[1] + (z(e[2]),))


def judge(api, text, e, out):
    """None if the outcome satisfies expectation e, else a short kind name."""
    if out[0] not in ("ok", _VE):
        return "exception-" + out[0]
    lenient = False
    if e[0] == "may":
        lenient = True
        e = e[1]
    if out[0] == _VE:
        return None if (lenient or e[0] == "reject") else "rejected"
    v = out[1]
    if (lenient or e[0] == "reject") and api != "decode_datetime" and type(v) is str and v == text:
        return None                    # read as a plain unquoted string: not a date/time
    if e[0] == "reject":
        if isinstance(v, (_dt.date, _dt.time)):
            return "accepted-invalid"
        if type(v) is str and v == text:
            return "accepted-invalid-as-text"
        return "accepted-invalid-as-" + type(v).__name__
    if e[0] == "leaptext":
        return None if (type(v) is str and v == text) else "not-kept-as-text"
    if e[0] == "date":
        if type(v) is not _dt.date:
            return "wrong-type"
        return None if (v.year, v.month, v.day) == e[1] else "wrong-fields"
    if e[0] == "time":
        if type(v) is not _dt.time:
            return "wrong-type"
        if (v.hour, v.minute, v.second, v.microsecond) != e[1]:
            return "wrong-fields"
    else:
        if type(v) is not _dt.datetime:
            return "wrong-type"
        if (v.year, v.month, v.day, v.hour, v.minute, v.second, v.microsecond) != e[1]:
            return "wrong-fields"
    return None if zone_minutes(v) == e[2] else "wrong-zone"


class Acc:
    """Per-task accumulator (picklable result via .result())."""

    def __init__(self, ship=False, per_text=len(CONFIGS)):
        self.n = 0
        self.texts = set()
        self.samples = []
        self.viol = {}
        self.ship = ship              # send the text set to the parent (exact union across tasks)
        self.per_text = per_text      # configurations every text is evaluated under

    def bad(self, group, cfg, api, text, spec, e, out, kind):
        key = f"C14:{group}:{DEC_LABEL[cfg]}:{classify(cfg, spec)}:{kind}"
        if key in self.viol:
            return
        got = repr(out[1]) if out[0] == "ok" else f"{out[0]}({out[1]!r})"
        call = (f"pvl.loads('T = ' + {text!r}" + (")" if cfg == "Omni" else f", parser=<strict {cfg} parser>)") + "['T']"
                if api == "loads" else f"{DEC_LABEL[cfg]}.{api}({text!r})")
        self.viol[key] = (f"{call} -> {got}; expected {describe(e)}",
                          {"kind": "decode", "config": cfg, "api": api, "text": text, "spec": list(spec)})

    def result(self):
        r = {"n": self.n, "distinct": len(self.texts) * self.per_text, "samples": self.samples[:3],
             "viol": [(k, w, d) for k, (w, d) in self.viol.items()]}
        if self.ship:
            r["texts"] = sorted(self.texts)
            r["per_text"] = self.per_text
            r["distinct"] = 0
        return r


APIS = ("decode_datetime", "decode_simple_value")


def eval_spec(acc, spec, cfgs=CONFIGS, apis=APIS):
    text = render(spec)
    for cfg in cfgs:
        e = expect(cfg, spec)
        dec = decoder_for(cfg)
        for api in apis:
            out = outcome_of(getattr(dec, api), text)
            acc.n += 1
            kind = judge(api, text, e, out)
            if kind:
                acc.bad("decode", cfg, api, text, spec, e, out, kind)
    acc.texts.add(text)
    if len(acc.samples) < 3:
        acc.samples.append({"text": text, "expected": {c: describe(expect(c, spec)) for c in ("PVL", "ODL", "PDS3")}})


# --------------------------------------------------------------------------------------------
# decode generators
# --------------------------------------------------------------------------------------------
def gen_year_days(y):
    """All days of year y in both forms, plus the invalid neighbours of every field."""
    doy = 0
    for m in range(1, 13):
        n = days_in_month(y, m)
        for d in range(1, n + 1):
            doy += 1
            yield (("ymd", y, m, d), None, "", "")
            yield (("yj", y, doy), None, "", "")
        yield (("ymd", y, m, 0), None, "", "")
        for d in range(n + 1, 33):
            yield (("ymd", y, m, d), None, "", "")
    for m in (0, 13):
        yield (("ymd", y, m, 1), None, "", "")
    for bad in sorted({0, doy + 1, 367, 399}):
        if bad > doy or bad == 0:
            yield (("yj", y, bad), None, "", "")
    for d in (("ymd", y, 1, 1), ("ymd", y, 12, 31), ("yj", y, 1), ("yj", y, doy)):
        yield (d, None, "Z", "")
    yield (("ymd", y, 3, 4), None, "", "unpadded")
    yield (("yj", y, 7), None, "", "unpadded")


def gen_year_edges(y):
    """The year-dependent edges only (used for every year in the quick tier)."""
    for d in (("ymd", y, 1, 1), ("ymd", y, 2, 28), ("ymd", y, 2, 29), ("ymd", y, 3, 1), ("ymd", y, 12, 31),
              ("yj", y, 1), ("yj", y, 59), ("yj", y, 60), ("yj", y, 365), ("yj", y, 366)):
        yield (d, None, "", "")


def task_dates(arg):
    """Fast loop over date-only specs of some years; falls back to the general judge on any mismatch."""
    mode, years = arg
    warnings.simplefilter("ignore")
    acc = Acc()
    ntexts = 0
    fns_both = [(cfg, api, getattr(decoder_for(cfg), api)) for cfg in CONFIGS for api in APIS]
    fns_dt = [f for f in fns_both if f[1] == "decode_datetime"]
    date_t = _dt.date
    for y in years:
        # decode_datetime sees every text; decode_simple_value (the same code behind the numeric trials of the
        # cascade) sees every text of the boundary years and of every 10th year, and the leap-dependent edges of all years
        both = mode != "all" or y % 10 == 0 or y in BOUNDARY_YEARS
        edges = () if both else set(gen_year_edges(y))
        for spec in (gen_year_days(y) if mode == "all" else gen_year_edges(y)):
            text = render(spec)
            ntexts += 1
            e0 = expect("PVL", spec)         # date-only expectations do not depend on the dialect
            fast = e0[0] == "date"
            for cfg, api, fn in (fns_both if (both or spec in edges) else fns_dt):
                acc.n += 1
                if fast:
                    try:
                        v = fn(text)
                    except ValueError:
                        v = None
                    except Exception:
                        v = None
                    if type(v) is date_t and (v.year, v.month, v.day) == e0[1]:
                        continue
                e = expect(cfg, spec)
                out = outcome_of(fn, text)
                kind = judge(api, text, e, out)
                if kind:
                    acc.bad("decode", cfg, api, text, spec, e, out, kind)
        if len(acc.samples) < 2:
            acc.samples.append({"text": f"{y:04d}-02-28", "expected": f"date({y}, 2, 28)"})
    r = acc.result()
    r["distinct"] = ntexts * len(CONFIGS)     # texts of different years / fields are different strings
    return r


FRACS_Q = (None, "0", "5", "05", "000", "001", "999", "0001", "1230", "00001", "000000", "000001", "000999",
           "001000", "500000", "999999", "0000000", "1234560", "1234567", "00000001")
DATE_PREFIXES = (None, ("ymd", 2001, 1, 1), ("yj", 2001, 1), ("ymd", 2000, 2, 29), ("yj", 2000, 366),
                 ("ymd", 1, 1, 1), ("yj", 9999, 365), ("yj", 2001, 366), ("ymd", 2001, 2, 29))


def gen_times(thorough, part, nparts):
    hours = range(0, 26) if thorough else (0, 1, 9, 10, 12, 23, 24, 25)
    minutes = range(0, 62) if thorough else (0, 1, 9, 10, 59, 60, 61)
    seconds = (None,) + (tuple(range(0, 63)) if thorough else (0, 1, 9, 10, 59, 60, 61))
    few_seconds = (None, 0, 1, 29, 30, 58, 59, 60, 61) if thorough else (None, 0, 59, 60)
    i = 0
    for h in hours:
        for mi in minutes:
            if thorough:
                boundary = h in (0, 1, 12, 23, 24) and mi in (0, 1, 59, 60)
            else:
                boundary = h in (0, 23, 24) and mi in (0, 59, 60)
            for s in (seconds if boundary else few_seconds):
                i += 1
                if i % nparts != part:
                    continue
                if s is None:
                    fracs = (None,)
                elif boundary and s in (0, 1, 59, 60, 61):
                    fracs = FRACS_Q
                elif thorough and not boundary:
                    fracs = (None, "5")
                else:
                    fracs = (None, "5", "001", "000001")
                for frac in fracs:
                    for z in ("", "Z"):
                        for d in (DATE_PREFIXES if boundary else DATE_PREFIXES[:3]):
                            yield (d, (h, mi, s, frac), z, "")
            i += 1
            if thorough and not boundary and i % nparts == part:
                for s in range(2, 58):            # every second of every minute of every hour, plain HH:MM:SS
                    if s not in (29, 30):
                        yield (None, (h, mi, s, None), "", "")
    if part == 0:
        for d in (None, ("ymd", 2001, 3, 4), ("yj", 2001, 7)):
            for t in ((1, 2, None, None), (1, 2, 3, None), (1, 2, 3, "5"), (1, 2, 60, None)):
                for z in ("", "Z"):
                    yield (d, t, z, "unpadded")


def task_times(arg):
    thorough, part, nparts = arg
    warnings.simplefilter("ignore")
    acc = Acc()
    for spec in gen_times(thorough, part, nparts):
        eval_spec(acc, spec)
    return acc.result()


def micro_values(thorough):
    if thorough:
        return range(0, 1000000)
    vals = set(range(0, 1000000, 997))
    for k in range(0, 1000000, 1000):
        vals.update((k, k + 1, k + 499, k + 500, k + 501, k + 999))
    return sorted(v for v in vals if v < 1000000)


def task_micro(arg):
    values, z_every = arg
    warnings.simplefilter("ignore")
    acc = Acc()
    for i, us in enumerate(values):
        # one API per text is enough here: the value class is the same for all 10^6 texts
        eval_spec(acc, (None, (1, 2, 3, f"{us:06d}"), "", ""), apis=("decode_datetime",))
        if i % z_every == 0:
            eval_spec(acc, (None, (1, 2, 3, f"{us:06d}"), "Z", ""), apis=("decode_datetime",))
        if i % 37 == 0:
            eval_spec(acc, (("ymd", 2001, 1, 1), (23, 59, 59, f"{us:06d}"), "Z", ""), apis=("decode_simple_value",))
    return acc.result()


OFFSET_BASES = ((None, (1, 2, None, None)), (None, (1, 2, 3, None)), (None, (1, 2, 3, "5")),
                (None, (23, 59, 59, "999999")), (None, (0, 0, 0, "001")),
                (("ymd", 2001, 1, 1), (1, 2, 3, None)), (("yj", 2001, 1), (1, 2, None, None)),
                (("ymd", 9999, 12, 31), (23, 59, 59, "5")), (("ymd", 1, 1, 1), (0, 0, None, None)),
                (None, (1, 2, 60, None)), (("ymd", 2001, 1, 1), (1, 2, 60, None)),     # leap second + offset
                (("ymd", 2001, 1, 1), None), (("yj", 2001, 1), None))                  # date + offset


def gen_offsets(step):
    for minutes in range(0, 12 * 60 + 1, step):
        zh, zm = divmod(minutes, 60)
        for sign in "+-":
            for zs in ZSTYLES:
                if zs in ("HH", "H") and zm:
                    continue
                if zs in ("H", "H:MM", "HMM") and zh > 9:
                    continue
                for d, t in OFFSET_BASES:
                    yield (d, t, (False, sign, zh, zm if zs not in ("HH", "H") else None, zs), "")
                yield (None, (1, 2, 3, None), (True, sign, zh, zm if zs not in ("HH", "H") else None, zs), "")
    for sign in "+-":                                   # invalid offsets
        for zh, zm, zs in ((12, 30, "HH:MM"), (13, None, "HH"), (13, 0, "HH:MM"), (14, 0, "HH:MM"), (23, 0, "HH:MM"),
                           (24, 0, "HH:MM"), (5, 60, "HH:MM"), (5, 99, "HH:MM"), (99, None, "HH")):
            for d, t in OFFSET_BASES[:2] + OFFSET_BASES[5:6]:
                yield (d, t, (False, sign, zh, zm, zs), "")


def task_offsets(arg):
    step, part, nparts = arg
    warnings.simplefilter("ignore")
    acc = Acc(ship=True)
    for i, spec in enumerate(gen_offsets(step)):
        if i % nparts == part:
            eval_spec(acc, spec)
    return acc.result()


def gen_leap(years, grid=True):
    for y in years:
        for d in (("ymd", y, 1, 1), ("ymd", y, 6, 30), ("ymd", y, 12, 31), ("yj", y, 1), ("yj", y, 181),
                  ("yj", y, 365), ("yj", y, 366), ("ymd", y, 2, 29), ("ymd", y, 2, 30), ("ymd", y, 4, 31)):
            yield (d, (23, 59, 60, None), "", "")
            if d[-1] in (1, 366):
                yield (d, (23, 59, 60, None), "Z", "")
    if not grid:
        return
    k, n = (0, 1) if grid is True else grid
    i = 0
    for h in (0, 1, 9, 10, 19, 20, 23, 24):
        for mi in (0, 9, 10, 59, 60):
            for frac in (None, "0", "5", "001", "999999", "1234567"):
                i += 1
                if i % n != k:
                    continue
                for z in ("", "Z"):
                    for d in (None, ("ymd", 2001, 12, 31), ("yj", 2001, 365), ("ymd", 1999, 9, 9)):
                        yield (d, (h, mi, 60, frac), z, "")


def task_leap(arg):
    years, grid = arg
    warnings.simplefilter("ignore")
    acc = Acc(ship=True)
    for spec in gen_leap(years, grid):
        eval_spec(acc, spec)
    return acc.result()


# ---- through the real loader ---------------------------------------------------------------
def loader_specs(seed, n):
    rng = random.Random(seed)
    pool = []
    for y in (1, 999, 1000, 2000, 2001, 9999):
        pool += list(itertools.islice(gen_year_edges(y), 10))
    pool += [(("yj", 2001, 366), None, "", ""), (("ymd", 2001, 2, 30), None, "", ""), (("ymd", 2001, 13, 1), None, "", "")]
    t = list(gen_times(False, 0, 1))
    pool += rng.sample(t, min(len(t), n))
    o = list(gen_offsets(30))
    pool += rng.sample(o, min(len(o), n))
    le = list(gen_leap((2000, 2001), True))
    pool += rng.sample(le, min(len(le), n // 4))
    return pool


def task_loads(arg):
    cfg, specs = arg
    warnings.simplefilter("ignore")
    import pvl
    acc = Acc(ship=True, per_text=1)
    parser = parser_for(cfg)

    def load(text):
        m = pvl.loads("T = " + text + "\nEND\n") if parser is None else pvl.loads("T = " + text + "\nEND\n", parser=parser)
        items = list(m.items())
        if len(items) != 1 or items[0][0] != "T":
            raise ValueError(f"label does not consist of the single parameter T: {items!r}"[:100])
        return items[0][1]

    for spec in specs:
        spec = norm(spec)
        text = render(spec)
        e = expect(cfg, spec)
        out = outcome_of(load, text)
        acc.n += 1
        acc.texts.add(cfg + "|" + text)
        kind = judge("loads", text, e, out)
        if kind:
            acc.bad("loads", cfg, "loads", text, spec, e, out, kind)
        if len(acc.samples) < 1:
            acc.samples.append({"label": "T = " + text, "config": cfg, "expected": describe(e)})
    return acc.result()


# --------------------------------------------------------------------------------------------
# encode o decode
# --------------------------------------------------------------------------------------------
def make_value(vs):
    """vs = {'type': date|time|datetime, 'f': [...], 'off': None | seconds east of UTC}"""
    tz = None if vs.get("off") is None else _dt.timezone(_dt.timedelta(seconds=vs["off"]))
    f = vs["f"]
    if vs["type"] == "date":
        return _dt.date(*f)
    if vs["type"] == "time":
        return _dt.time(f[0], f[1], f[2], f[3], tzinfo=tz)
    return _dt.datetime(*f, tzinfo=tz)


def value_class(vs):
    off = vs.get("off")
    if vs["type"] == "date":
        return "date" + ("(y<1000)" if vs["f"][0] < 1000 else ""), "", ""
    if off is None:
        zc = "naive"
    elif off == 0:
        zc = "utc"
    else:
        a = abs(off)
        zc = ("+" if off > 0 else "-") + ("seconds" if a % 60 else "whole" if a % 3600 == 0 else
                                          "half" if a % 1800 == 0 else "quarter" if a % 900 == 0 else "minutes")
        if a > 12 * 3600:
            zc += ">12h"
    hmsu = vs["f"][-4:]
    pc = "us" if hmsu[3] % 1000 else "ms" if hmsu[3] else "s" if hmsu[2] else "hm"
    ty = vs["type"] + ("(y<1000)" if vs["type"] == "datetime" and vs["f"][0] < 1000 else "")
    return ty, zc, pc


def instant_us(v, off_s):
    """Microseconds of the instant (datetime: since 0001-01-01T00:00Z; time: of the UTC day, mod 24 h)."""
    tod = ((v.hour * 60 + v.minute) * 60 + v.second) * 1000000 + v.microsecond - int(off_s * 1000000)
    if isinstance(v, _dt.datetime):
        return v.toordinal() * 86400 * 1000000 + tod
    return tod % (86400 * 1000000)


def offset_seconds(v):
    if v.tzinfo is None:
        return None
    off = v.utcoffset() if isinstance(v, _dt.datetime) else v.tzinfo.utcoffset(None)
    return None if off is None else off.total_seconds()


def check_encode(enc_name, vs):
    """-> None (refused or faithful) | (kind, what)"""
    enc = encoder_for(enc_name)
    v = make_value(vs)
    try:
        text = enc.encode_value(v)
    except (ValueError, TypeError):
        return "refused"
    except Exception as e:
        return ("exception-" + type(e).__name__, f"{enc_name}.encode_value({v!r}) raised {type(e).__name__}: {e}"[:300])
    try:
        text2 = enc.encode_datetype(v)
    except Exception as e:
        text2 = f"<{type(e).__name__}>"
    if text2 != text:
        return ("entry-points-differ", f"{enc_name}.encode_value({v!r}) = {text!r} but encode_datetype gives {text2!r}")
    pre = f"{enc_name} writes {v!r} as {text!r}"
    out = outcome_of(enc.decoder.decode_datetime, text)
    if out[0] == _VE:
        return ("unreadable", f"{pre}, which its own decoder rejects as a date/time")
    if out[0] != "ok":
        return ("exception-" + out[0], f"{pre}; decoding that raises {out[0]}: {out[1]}")
    b = out[1]
    if type(b) is not type(v):
        return ("type", f"{pre}, which reads back as {b!r}")
    if vs["type"] == "date":
        return None if b == v else ("fields", f"{pre}, which reads back as {b!r}")
    vo, bo = offset_seconds(v), offset_seconds(b)
    if vo is None:
        # a naive value may come back in the dialect's default zone (UTC); the fields must be the same
        if bo not in (None, 0) or b.replace(tzinfo=None) != v:
            return ("fields", f"{pre}, which reads back as {b!r}")
        return None
    if bo is None:
        return ("zone-lost", f"{pre}, which reads back as the naive {b!r}")
    if instant_us(b, bo) != instant_us(v, vo):
        return ("instant", f"{pre}, which reads back as {b!r}: a different instant")
    return None


def encode_key(enc_name, vs, kind):
    """One key per (encoder, value class, kind); the value class keeps only what can matter for that kind."""
    ty, zc, pc = value_class(vs)
    if vs["type"] == "date":
        return f"C14:encode:{enc_name}:{ty}:{kind}"
    if kind in ("instant", "zone-lost"):
        zc = "offset" if zc not in ("naive", "utc") else zc
        return f"C14:encode:{enc_name}:{vs['type']}:{zc}:{kind}"
    if zc.endswith(">12h"):
        return f"C14:encode:{enc_name}:{vs['type']}:offset>12h:{kind}"
    return f"C14:encode:{enc_name}:{ty}:{zc}:{pc}:{kind}"


def run_encode(values, encoders=ENCODERS, others_every=1):
    warnings.simplefilter("ignore")
    n = 0
    refused = 0
    viol = {}
    for i, vs in enumerate(values):
        for en in (ENCODERS if i % others_every == 0 else encoders):
            n += 1
            r = check_encode(en, vs)
            if r == "refused":
                refused += 1
            elif r is not None:
                key = encode_key(en, vs, r[0])
                if key not in viol:
                    viol[key] = (r[1], {"kind": "encode", "encoder": en, "value": vs})
    return {"n": n, "distinct": n, "refused": refused, "samples": [], "viol": [(k, w, d) for k, (w, d) in viol.items()]}


def task_encode_dates(years):
    vals = []
    for y in years:
        for m in range(1, 13):
            for d in range(1, days_in_month(y, m) + 1):
                vals.append({"type": "date", "f": [y, m, d]})
    return run_encode(vals)


MICROS = (0, 1, 999, 1000, 5000, 50000, 123000, 123456, 500000, 999000, 999999)


def zone_offsets(step_min, limit_min=23 * 60 + 59):
    offs = [None, 0]
    for m in range(step_min, limit_min + 1, step_min):
        offs += [m * 60, -m * 60]
    return offs


def gen_encode_times(thorough, part, nparts):
    hours = range(24) if thorough else (0, 1, 11, 12, 13, 23)
    minutes = range(60) if thorough else (0, 1, 30, 59)
    i = 0
    zones30 = zone_offsets(30)
    zones15 = zone_offsets(15) + [30, -30, 3601, -19830]        # and offsets with a seconds part
    for h in hours:
        for mi in minutes:
            i += 1
            if i % nparts != part:
                continue
            boundary = h in (0, 1, 12, 23) and mi in (0, 1, 30, 59)
            if thorough and not boundary:
                grid = [(s, us, zones30[:2] + [19800, -19800, 46800]) for s in (0, 59) for us in (0, 1, 1000)]
            else:
                grid = [(s, us, zones15 if thorough else zones30 + [30, -30, 3601, -19830, 900, -20700])
                        for s in (0, 1, 59) for us in MICROS]
            for s, us, zones in grid:
                for off in zones:
                    yield {"type": "time", "f": [h, mi, s, us], "off": off}


def task_encode_times(arg):
    return run_encode(gen_encode_times(*arg))


def task_encode_micro(arg):
    values, others_every = arg
    vals = []
    for us in values:
        vals.append({"type": "time", "f": [1, 2, 3, us], "off": 0})
    r = run_encode(vals, ("PDSLabelEncoder",), others_every)       # the encoder with millisecond arithmetic: every value
    vals = []
    for us in values[::41]:
        vals.append({"type": "datetime", "f": [2001, 1, 1, 23, 59, 59, us], "off": None})
        vals.append({"type": "time", "f": [0, 0, 0, us], "off": 19800})
    r2 = run_encode(vals)
    return {"n": r["n"] + r2["n"], "distinct": r["distinct"] + r2["distinct"], "refused": r["refused"] + r2["refused"],
            "samples": [], "viol": r["viol"] + r2["viol"]}


def gen_encode_datetimes(years, thorough):
    zones = [None, 0, 3600, -3600, 18000, -18000, 19800, -19800, 43200, -43200, 45000, 46800, 50400, -34200, 20700, 30]
    times = [(0, 0, 0, 0), (0, 0, 0, 1), (0, 0, 1, 0), (1, 2, 3, 0), (1, 2, 3, 5000), (1, 2, 3, 456000), (12, 0, 0, 0),
             (23, 59, 59, 0), (23, 59, 59, 999000), (23, 59, 59, 999999), (0, 1, 0, 0), (10, 10, 10, 100000)]
    for y in years:
        days = [(1, 1), (1, 31), (2, 28), (3, 1), (6, 30), (10, 10), (12, 31)] + ([(2, 29)] if is_leap(y) else [])
        for (m, d) in days:
            for t in times:
                for off in zones:
                    yield {"type": "datetime", "f": [y, m, d] + list(t), "off": off}


def task_encode_datetimes(arg):
    return run_encode(gen_encode_datetimes(*arg))


def dispatch(task):
    name, arg = task
    return globals()[name](arg)


# --------------------------------------------------------------------------------------------
# sections
# --------------------------------------------------------------------------------------------
class Counted(set):
    """distinct-case set with an exact count of bulk members that are not materialised (tens of millions of
    (configuration, text) pairs in the thorough tier); workers measure the count on disjoint text sets."""
    bulk = 0

    def __len__(self):
        return set.__len__(self) + self.bulk


def chunks(seq, n):
    seq = list(seq)
    return [seq[i::n] for i in range(n) if seq[i::n]]


def merge(s, results):
    shipped = set()
    per = 1
    for r in results:
        s.evaluations += r["n"]
        s.distinct.bulk += r["distinct"]
        if "texts" in r:
            shipped.update(r["texts"])
            per = r["per_text"]
        for x in r["samples"]:
            if len(s.samples) < 4:
                s.samples.append(x)
        for k, w, d in r["viol"]:
            s.violation(k, w, d)
    s.distinct.bulk += len(shipped) * per


def sections(ctx):
    warnings.simplefilter("ignore")
    th = ctx.thorough
    J = ctx.jobs
    out = []
    pool = mp.get_context("fork").Pool(J)
    try:
        # (a1) dates ------------------------------------------------------------------------
        t0 = _time.time()
        ystep = int(os.environ.get("VERIF_C14_YEAR_STEP", "1")) if th else 1   # >1: reduced run, not exhaustive
        years = sorted(set(range(1, 10000, ystep)) | set(BOUNDARY_YEARS)) if th else list(BOUNDARY_YEARS)
        s = Section("decode-dates", "bounded", bounded=True,
                    rule="every day of the listed years as YYYY-MM-DD and YYYY-DDD, plus the invalid neighbours of each "
                         "field (month 00/13, day 00 and every day past the month's end up to 32, day-of-year 000, "
                         "one past the year's end, 367, 399), x 5 decoder configurations x decode_datetime, and x decode_simple_value "
                         "for the boundary years, every 10th year and the ten leap-dependent edges of every year; "
                         "expected date built from the written fields; distinct = "
                         "(configuration, text)" + ("" if th else "; plus the ten leap-dependent edges of every year 0001-9999"),
                    bounds={"years": ("0001-9999 (all)" if ystep == 1 else f"every {ystep}th year of 0001-9999 and the boundary years")
                            if th else list(BOUNDARY_YEARS), "configs": list(CONFIGS)})
        s.distinct = Counted()
        merge(s, pool.map(task_dates, [("all", c) for c in chunks(years, J * 8 if th else len(years))], chunksize=1))
        if not th:
            merge(s, pool.map(task_dates, [("edges", c) for c in chunks([y for y in range(1, 10000) if y not in BOUNDARY_YEARS], J * 2)],
                              chunksize=1))
        s.exhaustive = th and ystep == 1
        s.seconds = _time.time() - t0
        out.append(s)

        # (a2) times ------------------------------------------------------------------------
        t0 = _time.time()
        s = Section("decode-times", "bounded", bounded=True,
                    rule="boundary hours x boundary minutes: every listed second x 20 fraction digit strings (1..8 digits incl. "
                         "the microsecond values 0,1,999,1000,500000,999999) x {no marker, Z} x {time alone, after T with 8 "
                         "calendar / day-of-year dates incl. leap day, day 366, invalid day 366 and Feb 29}; every other listed "
                         "hour x minute: seconds absent/0/1/29/30/58/59/60/61 x {no fraction, .5" + ("" if th else ", .001, .000001")
                         + "} x {no marker, Z} x {alone, both date forms}" + (", and every second 00..59 as plain HH:MM:SS" if th else "")
                         + "; expected time/datetime and zone from the written fields, ValueError for any out-of-range field",
                    bounds={"hours": "0-25" if th else [0, 1, 9, 10, 12, 23, 24, 25], "minutes": "0-61" if th else [0, 1, 9, 10, 59, 60, 61],
                            "seconds": "absent,0-62" if th else ["absent", 0, 1, 9, 10, 59, 60, 61], "fractions": list(FRACS_Q)})
        s.distinct = Counted()
        np_ = J * 4
        merge(s, pool.map(task_times, [(th, p, np_) for p in range(np_)], chunksize=1))
        s.seconds = _time.time() - t0
        out.append(s)

        # (a3) microseconds -----------------------------------------------------------------
        t0 = _time.time()
        mv = list(micro_values(th))
        s = Section("decode-microseconds", "bounded", bounded=True,
                    rule="01:02:03.ffffff for " + ("every" if th else "a stride of") + " microsecond value (Z marker: " + ("every 10th" if th else "all of them") + ") x 5 "
                         "configurations: exact microsecond field; PDS3 accepts exactly the whole-millisecond values",
                    bounds={"values": len(mv)})
        s.distinct = Counted()
        merge(s, pool.map(task_micro, [(c, 10 if th else 1) for c in chunks(mv, J * 4)], chunksize=1))
        s.exhaustive = th
        s.seconds = _time.time() - t0
        out.append(s)

        # (a4) zone offsets -----------------------------------------------------------------
        t0 = _time.time()
        step = 15 if th else 30
        s = Section("decode-offsets", "bounded", bounded=True,
                    rule=f"every offset 00:00..12:00 in {step}-minute steps x sign x spelling (HH, H, HH:MM, H:MM, HHMM, HMM) after "
                         "9 time / date-time texts, after a leap-second text, after a bare date, and after a Z; plus offsets "
                         "beyond 12 h and minute 60: ODL and the default loader give that fixed offset, PDS3 rejects, PVL/ISIS "
                         "do not read a date/time",
                    bounds={"step_minutes": step, "spellings": list(ZSTYLES), "bases": len(OFFSET_BASES)})
        s.distinct = Counted()
        merge(s, pool.map(task_offsets, [(step, p, J * 2) for p in range(J * 2)], chunksize=1))
        s.seconds = _time.time() - t0
        out.append(s)

        # (a5) seconds = 60 -----------------------------------------------------------------
        t0 = _time.time()
        ly = years if th else sorted(set(BOUNDARY_YEARS) | set(range(1990, 2031)))
        s = Section("decode-leap-seconds", "bounded", bounded=True,
                    rule="seconds = 60 after ten dates (both forms, incl. invalid ones) of each listed year, and alone / after "
                         "dates over hour x minute boundaries x fractions x Z: PVL, ISIS and the default loader return the "
                         "identical str, ODL and PDS3 raise ValueError; an invalid date or field is rejected everywhere",
                    bounds={"years": ("0001-9999 (all)" if ystep == 1 else f"every {ystep}th year") if th else ly})
        s.distinct = Counted()
        merge(s, pool.map(task_leap, [([], (k, J)) for k in range(J)] + [(c, False) for c in chunks(ly, J * 2)], chunksize=1))
        s.seconds = _time.time() - t0
        out.append(s)

        # (a6) loader -----------------------------------------------------------------------
        t0 = _time.time()
        specs = loader_specs(ctx.seed, 1500 if th else 250)
        s = Section("loads", "bounded", bounded=True,
                    rule="'T = <text>' through pvl.loads with the strict parser of each dialect and with the default loader: "
                         "edges of six years, a seeded sample of the time, offset and leap-second grids; same expectations "
                         "(a rejected text may also load as the identical plain string)",
                    bounds={"texts_per_config": len(specs), "seed": ctx.seed})
        s.distinct = Counted()
        tasks = [(cfg, [list(x) for x in c]) for cfg in CONFIGS for c in chunks(specs, 4)]
        merge(s, pool.map(task_loads, tasks, chunksize=1))
        s.seconds = _time.time() - t0
        out.append(s)

        # (b) encode o decode ---------------------------------------------------------------
        t0 = _time.time()
        s = Section("encode-decode", "bounded", bounded=True,
                    rule="encode_value / encode_datetype of date, time, datetime values for PVLEncoder, ODLEncoder, "
                         "PDSLabelEncoder, ISISEncoder: every day of the listed years; hour x minute x second x 11 microsecond "
                         "values x {naive, UTC, every offset up to +-23:30 in 30-minute" + (" (boundary times: 15-minute)" if th else "")
                         + " steps, offsets with seconds}; " + ("every microsecond value (PDSLabelEncoder; the others every 10th)" if th else "a stride of microsecond values") + "; date-times on "
                         "year / month / time boundaries x 16 zones: refused, or the text decodes with the encoder's own decoder "
                         "to the same type, fields and instant (a naive value may come back as UTC)",
                    bounds={"years": ("0001-9999 (all)" if ystep == 1 else f"every {ystep}th year") if th else list(BOUNDARY_YEARS), "micros": list(MICROS)})
        s.distinct = Counted()
        np_ = J * 4
        tasks = [("task_encode_datetimes", (c, th)) for c in chunks(years if not th else
                                                                     sorted(set(BOUNDARY_YEARS) | set(range(1, 10000, 97))), J * 4)]
        tasks += [("task_encode_times", (th, p, np_)) for p in range(np_)]
        tasks += [("task_encode_micro", (c, 10 if th else 1)) for c in chunks(mv, J * 2)]
        tasks += [("task_encode_dates", c) for c in chunks(years, J * 4 if th else J)]
        res = pool.map(dispatch, tasks, chunksize=1)
        merge(s, res)
        s.notes.append(f"refused by the encoder: {sum(r['refused'] for r in res)} of {s.evaluations}")
        s.samples = [{"encoder": "ODLEncoder", "value": {"type": "time", "f": [1, 2, 3, 5000], "off": -19800}},
                     {"encoder": "PDSLabelEncoder", "value": {"type": "datetime", "f": [999, 2, 28, 23, 59, 59, 999000], "off": None}},
                     {"encoder": "PVLEncoder", "value": {"type": "date", "f": [1, 1, 1]}}]
        s.seconds = _time.time() - t0
        out.append(s)
    finally:
        pool.close()
        pool.join()
    return out


# --------------------------------------------------------------------------------------------
# replay
# --------------------------------------------------------------------------------------------
_TEXT_RE = re.compile(
    r"(?:(?P<y>\d{4,5})-(?:(?P<m>\d{1,2})-(?P<d>\d{1,2})|(?P<j>\d{1,3})))?"
    r"(?P<T>T)?"
    r"(?:(?P<H>\d{1,2}):(?P<M>\d{1,2})(?::(?P<S>\d{1,2})(?:\.(?P<f>\d+))?)?)?"
    r"(?P<Z>Z)?(?:(?P<sg>[+-])(?P<zh>\d{1,2})(?P<zc>:?)(?P<zm>\d{2})?)?")


def spec_from_text(text):
    """Independent reading of a date/time text into fields (for witnesses that carry only a text)."""
    m = _TEXT_RE.fullmatch(text)
    if not m or not text:
        return None
    g = m.groupdict()
    has_d, has_t = g["y"] is not None, g["H"] is not None
    if bool(g["T"]) != (has_d and has_t) or not (has_d or has_t):
        return None
    d = t = None
    unp = False
    if has_d:
        if g["m"] is not None:
            d = ("ymd", int(g["y"]), int(g["m"]), int(g["d"]))
            unp |= len(g["m"]) != 2 or len(g["d"]) != 2
        else:
            d = ("yj", int(g["y"]), int(g["j"]))
            unp |= len(g["j"]) != 3
    if has_t:
        t = (int(g["H"]), int(g["M"]), None if g["S"] is None else int(g["S"]), g["f"])
        unp |= len(g["H"]) != 2 or len(g["M"]) != 2 or (g["S"] is not None and len(g["S"]) != 2)
    z = "Z" if g["Z"] else ""
    if g["sg"]:
        zh, zm = int(g["zh"]), g["zm"]
        if zm is None:
            zs = "HH" if len(g["zh"]) == 2 else "H"
        elif g["zc"]:
            zs = "HH:MM" if len(g["zh"]) == 2 else "H:MM"
        else:
            zs = "HHMM" if len(g["zh"]) == 2 else "HMM"
        z = (bool(g["Z"]), g["sg"], zh, None if zm is None else int(zm), zs)
    spec = (d, t, z, "unpadded" if unp else "")
    return spec if render(spec) == text else None


def replay_decode(cfg, api, text, spec=None):
    warnings.simplefilter("ignore")
    if spec is None:
        spec = spec_from_text(text)
    e = ("reject",) if spec is None else expect(cfg, norm(spec))
    if api == "loads":
        import pvl
        parser = parser_for(cfg)

        def fn(tx):
            m = pvl.loads("T = " + tx + "\nEND\n") if parser is None else pvl.loads("T = " + tx + "\nEND\n", parser=parser)
            items = list(m.items())
            if len(items) != 1 or items[0][0] != "T":
                raise ValueError(f"label does not consist of the single parameter T: {items!r}"[:100])
            return items[0][1]
    else:
        fn = getattr(decoder_for(cfg), api)
    out = outcome_of(fn, text)
    kind = judge(api, text, e, out)
    if not kind:
        return None
    got = repr(out[1]) if out[0] == "ok" else f"{out[0]}({out[1]!r})"
    call = (f"pvl.loads('T = ' + {text!r}" + (")" if cfg == "Omni" else f", parser=<strict {cfg} parser>)") + "['T']"
            if api == "loads" else f"{DEC_LABEL[cfg]}.{api}({text!r})")
    return f"{call} -> {got}; expected {describe(e)} [{kind}]"


def replay(data):
    """Re-run one witness.  Accepts this driver's data dicts and the compact witness shapes of
    known_findings.json ({'decoder','text'}, {'encoder','time','offset_minutes'}, {'date'}, {'datetime'})."""
    warnings.simplefilter("ignore")
    if data.get("kind") == "decode" or "text" in data:
        cfg = data.get("config") or LABEL_CFG.get(data.get("decoder", ""), None)
        cfgs = [cfg] if cfg else list(CONFIGS)
        apis = [data["api"]] if data.get("api") else list(APIS)
        for c in cfgs:
            for a in apis:
                r = replay_decode(c, a, data["text"], data.get("spec"))
                if r:
                    return r
        return None
    if data.get("kind") == "encode" and "value" in data:
        vs_list = [data["value"]]
    else:
        off = data.get("offset_minutes")
        off = None if off is None else off * 60
        if "time" in data:
            vs_list = [{"type": "time", "f": list(data["time"]), "off": off if "offset_minutes" in data else 0},
                       {"type": "datetime", "f": [2001, 1, 1] + list(data["time"]), "off": off if "offset_minutes" in data else 0}]
        elif "datetime" in data:
            vs_list = [{"type": "datetime", "f": list(data["datetime"]), "off": off}]
        elif "date" in data:
            vs_list = [{"type": "date", "f": list(data["date"])},
                       {"type": "datetime", "f": list(data["date"]) + [1, 2, 3, 0], "off": 0}]
        else:
            return None
    encs = [data["encoder"]] if data.get("encoder") else list(ENCODERS)
    for vs in vs_list:
        for en in encs:
            r = check_encode(en, vs)
            if r not in (None, "refused"):
                return f"{r[1]} [{r[0]}]"
    return None
