"""C02 bounded driver (never counted as proved): dump with each bundled encoder under an option grid, load with
``pvl.loads(text)`` (default permissive loader), compare with the spec relation ``equiv`` of C01."""
from . import roundtrip_common as rc


def sections(ctx):
    return rc.object_sections(ctx, "omni")


def replay(data):
    return rc.replay(dict(data, mode="omni"))
