"""Bounded driver for C03: well-formed text decodes to the values the dialect grammar assigns.

Abstract documents are spelled per dialect by `textgen`; the expected tree is the denotation
of the abstract document (textgen.expected), never something the library produced.  The real
loaders of the five dialect rows are run on the text and what they return is compared, with
exact types, container classes, textual order and duplicate names, with that tree.

Parts (each a Section):
  atoms   every spelling of the dialect's alphabet x every value context x 4 layouts     (exhaustive)
  pairs   two-statement documents: quick = core alphabet squared, thorough = full alphabet squared
  blocks  begin keyword x end keyword (all letter cases) x end name x delimiters x body shape, END forms
  shapes  sets / sequences / units corner cases (empty, nested to depth 3, equal-hash elements...)
  random  seeded random documents (values nested to depth 3, blocks to depth 2) in random layouts
"""
import hashlib
import itertools
import multiprocessing as mp
import random
import time

from ..harness import Section
from . import textgen as T

PID = "C03"


def _h(cfg, text):
    return hashlib.blake2b((cfg + "\0" + text).encode("utf-8", "surrogatepass"), digest_size=8).hexdigest()


# ---------------------------------------------------------------------------------------
# layouts (C04 owns layout; here a value is only shown in a few representative ones)
# ---------------------------------------------------------------------------------------
def _noisy(cfg, toks):
    els = T.sep_elements(cfg)
    g = T.gaps(toks)
    seps = []
    k = 0
    for i, c in enumerate(g):
        if c == "lead":
            seps.append("")
            continue
        a = els[k % len(els)]
        b = els[(k * 7 + 3) % len(els)]
        k += 1
        seps.append(T.join_sep([a, b] if i % 3 == 0 else [a]))
    return seps


LAYOUTS = ("spaced", "tight", "lines", "noisy")


def lay(doc, cfg, layout):
    toks = T.tokens(doc)
    if layout == "spaced":
        return T.spaced(doc)
    if layout == "tight":
        return T.tight(doc)
    if layout == "lines":
        g = T.gaps(toks)
        seps = ["" if c == "lead" else (" " if c == "opt" else "\r\n  ") for c in g]
        return T.render(toks, seps, doc.get("trailer"), "\n")[0]
    if layout == "noisy":
        return T.render(toks, _noisy(cfg, toks), doc.get("trailer"))[0]
    raise KeyError(layout)


# ---------------------------------------------------------------------------------------
# value contexts
# ---------------------------------------------------------------------------------------
ONE = ("int", "1")
SEVEN = ("int", "7")
QS = ("q", '"s t"')
ID = ("u", "idv")


def contexts(cfg, v):
    strict = cfg in T.STRICT_ODL
    beg_o = "Object" if cfg == "ISIS" else "Begin_Object"
    c = [
        ("plain", T.D([T.A("a", v)])),
        ("delim", T.D([T.A("a", v, True)])),
        ("end", T.D([T.A("a", v)], end="END")),
        ("delim-end-delim", T.D([T.A("a", v, True)], end="End", end_delim=True)),
        ("trailer", T.D([T.A("a", v)], end="END", trailer="\nb = ( junk \" {")),
        ("seq-only", T.D([T.A("a", ("seq", [v]))])),
        ("seq-first", T.D([T.A("a", ("seq", [v, ONE]))])),
        ("seq-last", T.D([T.A("a", ("seq", [ONE, v]))])),
        ("seq-mid", T.D([T.A("a", ("seq", [QS, v, ID]))])),
        ("set-only", T.D([T.A("a", ("set", [v]))])),
        ("set-pair", T.D([T.A("a", ("set", [v, SEVEN]))])),
        ("in-group", T.D([T.B("GROUP", "g", [T.A("a", v)])])),
        ("in-object-named", T.D([T.B(beg_o, "o", [T.A("a", v, True)], end_name=True, delim_e=True)], end="END")),
        ("duplicate", T.D([T.A("a", v), T.A("a", v)])),
        ("then-stmt", T.D([T.A("a", v), T.A("b", ("int", "2"))])),
        ("after-stmt", T.D([T.A("b", ("int", "2")), T.A("a", v)])),
        ("then-block", T.D([T.A("a", v), T.B("Group", "g", [])])),
    ]
    if T.units_ok(v, cfg):
        c += [
            ("units", T.D([T.A("a", ("units", v, "<m>"))])),
            ("units-spaced", T.D([T.A("a", ("units", v, "< m/s >"), True)])),
            ("seq-units", T.D([T.A("a", ("seq", [("units", v, "<m>"), ("units", ("int", "2"), "<s>")]))])),
        ]
    if strict:
        c += [("nested", T.D([T.A("a", ("seq", [("seq", [v, ONE]), ("seq", [v])]))]))]
    else:
        c += [
            ("nested", T.D([T.A("a", ("seq", [("seq", [v]), ("set", [v])]))])),
            ("seq-depth3", T.D([T.A("a", ("seq", [("seq", [("seq", [v]), ONE])]))])),
            ("set-depth3", T.D([T.A("a", ("set", [("set", [("set", [v]), SEVEN])]))])),
            ("set-units", T.D([T.A("a", ("units", ("set", [v]), "<m>"))])),
        ]
    return c


# ---------------------------------------------------------------------------------------
# case lists per part: (group, detail, doc, layout)   group/detail feed the violation key
# ---------------------------------------------------------------------------------------
QUICK_ALL_LAYOUTS = ("plain", "seq-mid", "then-stmt", "units", "in-object-named")


def cases_atoms(cfg, thorough):
    for lab, v in T.atoms(cfg):
        for cname, doc in contexts(cfg, v):
            for layout in LAYOUTS:
                if not thorough and layout in ("lines", "noisy") and cname not in QUICK_ALL_LAYOUTS:
                    continue
                yield (lab, cname, doc, layout)


def cases_pairs(cfg, thorough):
    pool = T.atoms(cfg) if thorough else T.core_atoms(cfg)
    seen = set()
    uniq = []
    for lab, v in pool:
        if v not in seen:
            seen.add(v)
            uniq.append((lab, v))
    for (l1, v1), (l2, v2) in itertools.product(uniq, repeat=2):
        for delim, layout in (((False, "spaced"), (True, "tight")) if thorough else
                              ((False, "spaced"), (False, "tight"), (True, "spaced"), (True, "tight"))):
            yield (l1 + "|" + l2, "delim" if delim else "nodelim", T.D([T.A("a", v1, delim), T.A("b", v2)]), layout)
        if not thorough:
            yield (l1 + "|" + l2, "seq", T.D([T.A("a", ("seq", [v1, v2]))]), "tight")
            if cfg not in T.STRICT_ODL or (v1[0] != "seq" and v2[0] != "seq"):
                yield (l1 + "|" + l2, "set", T.D([T.A("a", ("set", [v1, v2]))]), "tight")


def _case_class(t):
    return "upper" if t.isupper() else "lower" if t.islower() else "title" if t.istitle() else "mixed"


def cases_blocks(cfg, thorough):
    v = ("int", "1")
    bodies = [("empty", []), ("one", [T.A("a", v)]), ("two-dup", [T.A("a", v), T.A("a", ("q", '"x"'), True)])]
    for cls in ("group", "object"):
        other = "object" if cls == "group" else "group"
        for b in T.begins(cfg, cls):
            for e in T.ENDS[cls]:
                for en in (False, True):
                    for db, de in ((False, False), (True, False), (False, True), (True, True)):
                        for bl, body in bodies:
                            lab = (f"{'begin_' if b.casefold().startswith('begin_') else 'plain'}-{cls}:{_case_class(b)}"
                                   f":end-{_case_class(e)}")
                            det = f"{'named' if en else 'unnamed'}:{'d' if db else ''}{'D' if de else ''}:{bl}"
                            doc = T.D([T.B(b, "blk", body, end=e, end_name=en, delim_b=db, delim_e=de)])
                            for layout in ("spaced", "tight"):
                                yield (lab, det, doc, layout)
            # nesting, duplicates, siblings, END forms
            e = T.ENDS[cls][0]
            ob = T.begins(cfg, other)[-1]
            oe = T.ENDS[other][2]
            inner = T.B(ob, "inner", [T.A("k", ("u", "val"))], end=oe, end_name=True)
            nest = T.B(b, "outer", [T.A("a", v), inner, T.A("z", ("real", "2.5"))], end=e)
            same = T.B(b, "n", [T.B(b, "n", [T.B(b, "n", [T.A("n", v)], end=e, end_name=True)], end=e)], end=e, end_name=True)
            sib = [T.B(b, "s", [T.A("a", v)], end=e), T.A("s", ("int", "2")), T.B(b, "s", [T.A("a", ("int", "3"))], end=e)]
            lab = f"{'begin_' if b.casefold().startswith('begin_') else 'plain'}-{cls}:{_case_class(b)}"
            for endw in [None] + T.END_WORDS:
                for ed in (False, True) if endw else (False,):
                    for det, stmts in (("nested-other-class", [nest]), ("nested-same-name", [same]), ("siblings-duplicate", sib),
                                       ("block-then-assign", [T.B(b, "g", [], end=e), T.A("after", v)]),
                                       ("assign-then-block", [T.A("before", v, True), T.B(b, "g", [T.A("a", v)], end=e, delim_e=True)])):
                        doc = T.D(stmts, end=endw, end_delim=ed)
                        for layout in ("spaced", "tight", "lines"):
                            yield (lab, f"{det}:END-{_case_class(endw) if endw else 'absent'}{';' if ed else ''}", doc, layout)
    # END statement forms on their own
    for endw in T.END_WORDS:
        for ed in (False, True):
            for tr in (None, " b = 2", "\nb = 2\nEND\n", " ( \" { unbalanced", "\n\x00\x01 binary \xff"):
                if ed and tr and not tr[0] in T.WS:
                    continue
                doc = T.D([T.A("a", v)], end=endw, end_delim=ed, trailer=tr)
                yield ("END:" + _case_class(endw), f"{'delim' if ed else 'nodelim'}:trailer-{_h('', tr or '')[:4] if tr else 'none'}",
                       doc, "spaced")
        yield ("END:" + _case_class(endw), "empty-module", T.D([], end=endw), "spaced")
    yield ("END:absent", "empty-text", T.D([]), "spaced")


def cases_shapes(cfg, thorough):
    strict = cfg in T.STRICT_ODL
    i1, i2, r1 = ("int", "1"), ("int", "2"), ("real", "1.0")
    shapes = [
        ("seq:empty", ("seq", [])), ("set:empty", ("set", [])),
        ("seq:ten", ("seq", [("int", str(k)) for k in range(10)])),
        ("set:duplicates-same-spelling", ("set", [i1, i1, i2])),
        ("set:duplicates-other-spelling", ("set", [i1, ("based", "2#1#"), ("int", "+1")])),
        ("set:strings-both-quotes", ("set", [("q", '"a"'), ("q", "'a'"), ("u", "a")])),
        ("seq:2d", ("seq", [("seq", [i1, i2]), ("seq", [("int", "3"), ("int", "4")])])),
        ("seq:2d-empty-rows", ("seq", [("seq", []), ("seq", [])])),
        ("seq:mixed-kinds", ("seq", [("kw", "Null"), ("kw", "true"), ("real", "-.5e-3"), ("q", "'q'"), ("u", "sym"),
                                     ("date", "2001-001"), ("time", "01:02:03.5Z"), ("dt", "2001-01-01T12:34")])),
        ("set:mixed-kinds", ("set", [("kw", "Null"), ("real", "-.5e-3"), ("q", "'q'"), ("u", "sym"),
                                     ("date", "2001-001"), ("time", "01:02:03.5Z"), ("dt", "2001-01-01T12:34")])),
        ("set:equal-hash:bool-int", ("set", [("kw", "TRUE"), i1])),
        ("set:equal-hash:bool-int", ("set", [("int", "0"), ("kw", "FALSE")])),
        ("set:equal-hash:int-real", ("set", [i1, r1])),
        ("set:equal-hash:bool-real", ("set", [("kw", "false"), ("real", "0.0")])),
        ("set:equal-hash:real-real", ("set", [("real", "0.0"), ("real", "-0.0")])),
        ("seq:equal-values-kept", ("seq", [i1, r1, ("kw", "TRUE"), i1])),
        ("seq:units-each", ("seq", [("units", i1, "<m>"), ("units", ("real", "2.5"), "< s >"), ("units", i2, "<m/s>")])),
        ("set:units-each", ("set", [("units", i1, "<m>"), ("units", i2, "<m>")])),
    ]
    if not strict:
        shapes += [
            ("seq:depth3", ("seq", [("seq", [("seq", [i1, i2]), ("seq", [])]), i2])),
            ("set:depth3", ("set", [("set", [("set", [i1]), ("set", [])]), i2])),
            ("seq:set-inside", ("seq", [("set", [i1, i2]), ("set", [])])),
            ("set:seq-inside", ("set", [("seq", [i1, i2])])),
            ("set:empty-seq-inside", ("set", [("seq", [])])),
            ("set:seq-nested-deeper", ("set", [("set", [("seq", [i1])])])),
            ("seq:units-on-seq", ("units", ("seq", [i1, i2]), "<m>")),
            ("set:units-on-set", ("units", ("set", [i1, i2]), "<m>")),
            ("seq:units-on-empty", ("units", ("seq", []), "<m>")),
            ("str:units-on-quoted", ("units", ("q", '"x"'), "<m>")),
            ("str:units-on-unquoted", ("units", ("u", "x"), "<m>")),
            ("kw:units-on-null", ("units", ("kw", "NULL"), "<m>")),
            ("date:units-on-date", ("units", ("date", "2001-01-01"), "<d>")),
            ("seq:units-nested", ("seq", [("units", ("seq", [("units", i1, "<a>")]), "<b>")])),
        ]
    for lab, node in shapes:
        for layout in LAYOUTS:
            yield (lab, "value", T.D([T.A("a", node)]), layout)
            yield (lab, "in-block", T.D([T.B("OBJECT", "o", [T.A("a", node, True)], end_name=True)], end="END"), layout)
    nums = [i1, ("int", "-5"), r1, ("real", "1.e5"), ("based", "16#FF#"), ("based", "2#-101#" if cfg != "PVL" else "-2#101#")]
    if cfg == "ISIS":
        nums[-1] = ("based", "-2#101#")
    targets = nums if strict else nums + [("q", '"s"'), ("u", "sym"), ("seq", [i1]), ("set", [i1]), ("kw", "true"),
                                          ("time", "12:00"), ("seq", [])]
    for u in (T.UNITS_STRICT if strict else T.UNITS):
        for tnode in targets:
            lab = "units:" + {"<\tdeg\t>": "<tab-deg-tab>", "<\nm\n>": "<nl-m-nl>"}.get(u, u)
            for layout in ("spaced", "tight"):
                yield (lab, "after-" + tnode[0], T.D([T.A("a", ("units", tnode, u)), T.A("b", i2)]), layout)


def cases_random(cfg, thorough, seed):
    n = 6000 if thorough else 500
    rng = random.Random(f"{seed}:{cfg}:c03")
    pool = T.atoms(cfg)
    for i in range(n):
        doc = T.random_doc(rng, cfg, pool)
        toks = T.tokens(doc)
        seps = T.random_layout(rng, cfg, toks)
        seps[0] = rng.choice(["", " ", "\n", "/* lead */"])
        yield ("random", i, doc, seps)


PARTS = {"atoms": cases_atoms, "pairs": cases_pairs, "blocks": cases_blocks, "shapes": cases_shapes}


# ---------------------------------------------------------------------------------------
# one evaluation
# ---------------------------------------------------------------------------------------
def check_text(cfg, text, want):
    """-> None if the loader returns exactly `want`, else (mode, description)"""
    o = T.outcome(cfg, text)
    if o[0] == "ok":
        if o[1] == want:
            if o[2]:
                return ("errors-not-empty", f"the tree is right but module.errors == {o[2]} for well-formed text")
            return None
        return ("wrong-tree", T.first_diff(o[1], want) or "trees differ")
    if o[0] == "raise":
        return ("raises-" + o[1], f"{o[1]}: {o[2]}")
    return ("crash-" + o[1], f"{o[1]} (not LexerError/ParseError): {o[2]}")


def _stmt_nodes(stmts):
    for st in stmts:
        if st[0] == "assign":
            yield st
        else:
            yield from _stmt_nodes(st[3])


def _subnodes(node):
    yield node
    if node[0] in ("seq", "set"):
        for e in node[1]:
            yield from _subnodes(e)
    elif node[0] == "units":
        yield from _subnodes(node[1])


def _value_fails(cfg, node):
    d = T.D([T.A("a", node)])
    return check_text(cfg, T.spaced(d), T.expected(d, cfg))


def _smaller(node):
    """Strictly simpler variants of a spelled value."""
    k = node[0]
    if k in ("seq", "set"):
        for e in node[1]:
            yield e
        for i in range(len(node[1])):
            yield (k, node[1][:i] + node[1][i + 1:])
        for i, e in enumerate(node[1]):
            for c in _smaller(e):
                yield (k, node[1][:i] + [c] + node[1][i + 1:])
    elif k == "units":
        yield node[1]
        if node[2] != "<m>":
            yield ("units", node[1], "<m>")
        for c in _smaller(node[1]):
            yield ("units", c, node[2])
    elif node != ONE:
        yield ONE


def minimise_value(cfg, node):
    """Greedy reduction of a failing value: drop elements, unwrap, replace leaves by `1` while it still fails."""
    for _ in range(200):
        for cand in _smaller(node):
            if _value_fails(cfg, cand) is not None:
                node = cand
                break
        else:
            return node
    return node


def signature(node, labels):
    k = node[0]
    if k in ("seq", "set"):
        return k + "(" + ",".join(signature(e, labels) for e in node[1]) + ")"
    if k == "units":
        return signature(node[1], labels) + ("<units>" if node[2] == "<m>" else "<units:" + node[2][1:-1].strip() + ">")
    if node == ONE:
        return "1"
    return labels.get(node, k)


def _equal_hash_label(node, cfg):
    """A two-element set whose elements are distinct values that Python compares equal (0 / FALSE / 0.0 / -0.0 ...)."""
    if node[0] != "set" or len(node[1]) != 2:
        return None
    a, b = (T.denote(e, cfg) for e in node[1])
    num = {"bool": bool, "int": int, "real": float}
    if a[0] in num and b[0] in num and a != b and num[a[0]](a[1]) == num[b[0]](b[1]):
        return "shape:set:equal-hash:" + "-".join(sorted((a[0], b[0])))
    return None


def shrink_random(cfg, doc, labels):
    """Smallest piece of a failing random document that fails by itself in the single-space layout."""
    if check_text(cfg, T.spaced(doc), T.expected(doc, cfg)) is None:
        return ("layout-dependent", None, None)
    for st in doc["stmts"]:
        d1 = T.D([st])
        if check_text(cfg, T.spaced(d1), T.expected(d1, cfg)) is not None:
            for a in _stmt_nodes([st]):
                if _value_fails(cfg, a[2]) is not None:
                    sub = minimise_value(cfg, a[2])
                    d2 = T.D([T.A("a", sub)])
                    r = _value_fails(cfg, sub)
                    lab = labels.get(sub) if sub[0] in T.SIMPLE else None
                    if lab is None:
                        sg = signature(sub, labels)
                        lab = _equal_hash_label(sub, cfg) or {"set(seq())": "shape:set:empty-seq-inside"}.get(sg, "value:" + sg)
                    return (lab, d2, r)
            return ("statement", d1, None)
    if doc.get("end") or doc.get("trailer"):
        return ("end-statement", None, None)
    return ("statement-combination", None, None)


def work(args):
    part, cfg, thorough, seed, idx, nchunks = args
    fails = []
    keys = set()
    samples = []
    n = 0
    if part == "random":
        labels = {}
        for lab, v in T.atoms(cfg):
            labels.setdefault(v, lab)
        for group, i, doc, seps in cases_random(cfg, thorough, seed):
            if i % nchunks != idx:
                continue
            toks = T.tokens(doc)
            text = T.render(toks, seps, doc.get("trailer"))[0]
            want = T.expected(doc, cfg)
            n += 1
            keys.add(_h(cfg, text))
            if len(samples) < 1:
                samples.append({"config": cfg, "text": text, "expected": want})
            r = check_text(cfg, text, want)
            if r is not None:
                lab, d2, r2 = shrink_random(cfg, doc, labels)
                if d2 is not None and r2 is not None:
                    fails.append((cfg, part, lab, "plain", "spaced", T.spaced(d2), T.expected(d2, cfg), r2[0], r2[1]))
                else:
                    fails.append((cfg, part, lab, "whole-document", "random", text, want, r[0], r[1]))
        return part, cfg, n, keys, fails, samples
    for j, (group, detail, doc, layout) in enumerate(PARTS[part](cfg, thorough)):
        if j % nchunks != idx:
            continue
        text = lay(doc, cfg, layout)
        want = T.expected(doc, cfg)
        n += 1
        keys.add(_h(cfg, text))
        if len(samples) < 1 and j > 40:
            samples.append({"config": cfg, "text": text, "expected": want})
        r = check_text(cfg, text, want)
        if r is not None:
            fails.append((cfg, part, group, detail, layout, text, want, r[0], r[1]))
    return part, cfg, n, keys, fails, samples


# ---------------------------------------------------------------------------------------
# grouping of failures into narrow keys
# ---------------------------------------------------------------------------------------
REF_LABEL = "int:plain"
LAYOUT_ORDER = {"spaced": 0, "lines": 1, "tight": 2, "noisy": 3, "random": 4}


_EMITTED = set()


def _emit(s, key, f):
    cfg, part, group, detail, layout, text, want, mode, desc = f
    if key in _EMITTED:
        return
    _EMITTED.add(key)
    s.violation(key, f"{cfg} loader on {T.show(text)}: {desc} [{mode}; {part}/{group}/{detail}/{layout}]",
                {"config": cfg, "text": text, "expected": want, "mode": mode, "part": part, "label": group,
                 "context": detail, "layout": layout})


def group_failures(sections, fails):
    _EMITTED.clear()
    by_cfg = {}
    for f in fails:
        by_cfg.setdefault(f[0], []).append(f)
    for cfg, fl in by_cfg.items():
        at = [f for f in fl if f[1] in ("atoms", "random") and f[2] not in ("layout-dependent",) and f[3] != "whole-document"]
        # 1. spellings that fail in the plainest context `a = v` with single spaces
        base_bad = {}
        for f in at:
            if f[3] == "plain" and f[4] == "spaced":
                base_bad.setdefault(f[2], f)
        for lab, f in sorted(base_bad.items()):
            _emit(sections[f[1]], f"{PID}:{cfg}:{lab}", f)
        # 2. contexts/layouts that fail even for the reference spelling `1`
        ctx_bad = {}
        for f in at:
            if f[1] == "atoms" and f[2] == REF_LABEL and f[2] not in base_bad:
                ctx_bad.setdefault((f[3], f[4]), f)
        for (c, l), f in sorted(ctx_bad.items()):
            _emit(sections["atoms"], f"{PID}:{cfg}:context:{c}:{l}", f)
        # 3. remaining (spelling, context) failures: keyed by spelling and context, smallest layout first
        rest = {}
        for f in at:
            if f[1] != "atoms" or f[2] in base_bad or (f[3], f[4]) in ctx_bad:
                continue
            k = (f[2], f[3])
            if k not in rest or LAYOUT_ORDER[f[4]] < LAYOUT_ORDER[rest[k][4]]:
                rest[k] = f
        # a spelling that fails in many contexts the same way is one defect: fold contexts when > 6 of them fail
        per_lab = {}
        for (lab, c), f in rest.items():
            per_lab.setdefault(lab, []).append(f)
        for lab, lst in sorted(per_lab.items()):
            lst.sort(key=lambda f: (LAYOUT_ORDER[f[4]], len(f[5])))
            if len({f[3] for f in lst}) > 6:
                f = lst[0]
                _emit(sections["atoms"], f"{PID}:{cfg}:{lab}:in-context:{f[3]}:{f[4]}", f)
                sections["atoms"].notes.append(f"{cfg} {lab}: fails in {len(lst)} contexts, smallest reported")
            else:
                for f in lst:
                    _emit(sections["atoms"], f"{PID}:{cfg}:{lab}:in-context:{f[3]}:{f[4]}", f)
        # 4. pairs: only when neither spelling is already reported by itself
        bad_labs = set(base_bad) | set(per_lab)
        seenp = set()
        for f in sorted((f for f in fl if f[1] == "pairs"), key=lambda f: (LAYOUT_ORDER[f[4]], len(f[5]))):
            l1, l2 = f[2].split("|")
            if l1 in bad_labs or l2 in bad_labs:
                continue
            k = (f[2], f[3])
            if k in seenp:
                continue
            seenp.add(k)
            _emit(sections["pairs"], f"{PID}:{cfg}:pair:{f[2]}:{f[3]}:{f[4]}", f)
        # 5. blocks, shapes: keyed by their own labels
        seenb = set()
        for f in sorted((f for f in fl if f[1] in ("blocks", "shapes")), key=lambda f: (LAYOUT_ORDER[f[4]], len(f[5]))):
            if f[1] == "shapes" and f[2].startswith("units:"):
                k = (f[2], f[3])
            else:
                k = (f[2], f[3] if f[1] == "blocks" else "")
            if k in seenb:
                continue
            seenb.add(k)
            part = "block" if f[1] == "blocks" else "shape"
            key = f"{PID}:{cfg}:{part}:{f[2]}" + (f":{k[1]}" if k[1] else "")
            _emit(sections[f[1]], key, f)
        # 6. random leftovers
        seenr = set()
        for f in fl:
            if f[1] == "random" and (f[2] == "layout-dependent" or f[3] == "whole-document"):
                k = (f[2], f[7])
                if k in seenr:
                    continue
                seenr.add(k)
                _emit(sections["random"], f"{PID}:{cfg}:random:{f[2]}:{f[7]}", f)
            elif f[1] == "random" and f[2] not in base_bad and f[2] not in per_lab:
                _emit(sections["random"], f"{PID}:{cfg}:{f[2]}", f)


def sections(ctx):
    th = ctx.thorough
    t0 = time.time()
    secs = {
        "atoms": Section("atoms-in-contexts", "bounded", bounded=True,
                         rule="every spelling of the dialect's alphabet (keywords in 4 letter cases, decimal/based integers, reals, "
                              "quoted strings with 28 bodies x 2 quote characters, unquoted strings, dates, times, date-times) x "
                              "17-24 value contexts (plain, delimiter, END, trailer after END, first/middle/last of a sequence, set, "
                              "units, nesting to depth 3, in group/object, duplicate name, before/after another statement) x "
                              "4 layouts (single space, no optional space, CRLF lines, mixed white space and comments); oracle = "
                              "denotation of the abstract document; distinct = distinct (config, text)",
                         bounds={"layouts": list(LAYOUTS), "configs": list(T.CONFIGS)}),
        "pairs": Section("two-statement-documents", "bounded", bounded=True,
                         rule=("full" if th else "core (one or two per lexical class)") + " alphabet squared as two consecutive "
                              "assignments, " + ("single-space without ';' and tight with ';'" if th else
                                                 "with/without ';', single-space and tight layouts") + ("" if th else
                              "; also as the two elements of a sequence and of a set"),
                         bounds={"alphabet": "full" if th else "core"}),
        "blocks": Section("block-keywords", "bounded", bounded=True,
                          rule="begin keyword (GROUP/OBJECT/BEGIN_GROUP/BEGIN_OBJECT, 4 letter cases; no BEGIN_ for ISIS) x end keyword "
                               "(4 letter cases) x end name present/absent x ';' after begin/end x body (empty, one, duplicate pair); "
                               "nesting of the other class, same-name nesting depth 3, duplicate sibling blocks; END in 4 letter "
                               "cases / absent, with ';', with ignored text after END"),
        "shapes": Section("sets-sequences-units", "bounded", bounded=True,
                          rule="empty/nested (depth 3) sets and sequences, duplicates and equal-hash elements in sets, units "
                               "expressions (18 spellings) after every value kind the dialect allows"),
        "random": Section("random-documents", "bounded", bounded=True,
                          rule="seeded random documents: 1-6 statements, blocks nested <= 2, values nested <= 3 over the full "
                               "alphabet, units on any permitted value, random separators (white space / comments, <= 3 elements) "
                               "at every gap; failures are shrunk to the smallest failing value",
                          bounds={"per_config": 6000 if th else 500, "seed": ctx.seed}),
    }
    tasks = []
    for cfg in T.CONFIGS:
        for part in ("atoms", "pairs", "blocks", "shapes", "random"):
            nch = {"atoms": 8, "pairs": 16 if th else 4, "blocks": 4, "shapes": 2, "random": 16 if th else 4}[part]
            for i in range(nch):
                tasks.append((part, cfg, th, ctx.seed, i, nch))
    with mp.get_context("fork").Pool(ctx.jobs) as pool:
        outs = pool.map(work, tasks, chunksize=1)
    fails = []
    for part, cfg, n, keys, fl, samples in outs:
        s = secs[part]
        s.merge_counts(n, keys, samples)
        fails += fl
    group_failures(secs, fails)
    for part in ("atoms", "pairs", "blocks", "shapes"):
        secs[part].exhaustive = True
    el = time.time() - t0
    tot = sum(s.evaluations for s in secs.values()) or 1
    for s in secs.values():
        s.seconds = el * s.evaluations / tot
    return [secs[p] for p in ("atoms", "pairs", "blocks", "shapes", "random")]


def replay(data):
    cfg = data.get("config")
    text = data.get("text")
    want = data.get("expected")
    if cfg is None or text is None or want is None:
        return None
    r = check_text(cfg, text, want)
    if r is None:
        return None
    return f"{cfg} loader on {T.show(text)}: {r[1]} [{r[0]}]"
